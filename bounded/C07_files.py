"""Bounded stand-in for the TEXT level of C07 (outside the contracts): random
OpenMKM models built from the real classes are written with write_thermo_yaml,
write_cti and write_yaml; then
 (a) the thermo YAML must load (yaml.safe_load) and say what the objects say,
 (b) the CTI text must be accepted by the bundled ctml_writer (a valid sequence
     of CTI directives) and contain every object once,
 (c) the reactor YAML must load and carry exactly the supplied values (Python
     numbers, NumPy numbers, strings with units, omitted).
LABELLED BOUNDED - never counted as proved."""
import io as _io
import json
import os
import sys
import tempfile
import warnings
import contextlib
import numpy as np
import yaml

warnings.simplefilter('ignore')
seed = int(os.environ.get('VERIF_SEED', '0') or 0)
tier = os.environ.get('VERIF_TIER', 'quick')
rng = np.random.default_rng(seed + 707)
N = 12 if tier == 'quick' else 200
from pmutt.io import omkm as io
from pmutt.io import ctml_writer
from pmutt.omkm.units import Units
from pmutt.omkm.reaction import SurfaceReaction, BEP
from pmutt.empirical.nasa import Nasa, Nasa9, SingleNasa9
from pmutt.empirical.shomate import Shomate
from pmutt.mixture.cov import PiecewiseCovEffect
from pmutt import pmutt_list_to_dict
from pmutt import constants as c


def thermo(name, phase, elements, n_sites=None):
    kind = rng.choice(['nasa7', 'nasa9', 'shomate'])
    if kind == 'nasa7':
        a = np.array([rng.uniform(2, 6), rng.uniform(-1, 1) * 1e-3, rng.uniform(-1, 1) * 1e-7, 0., 0., rng.uniform(-3, 1) * 1e4, rng.uniform(-5, 15)])
        return Nasa(name=name, phase=phase, elements=elements, T_low=200., T_mid=1000., T_high=3000., a_low=a, a_high=a * 1.01, n_sites=n_sites)
    if kind == 'nasa9':
        a = np.array([rng.uniform(-1, 1) * 1e3, rng.uniform(-10, 10), rng.uniform(2, 6), rng.uniform(-1, 1) * 1e-3, 0., 0., 0.,
                      rng.uniform(-3, 1) * 1e4, rng.uniform(-5, 15)])
        return Nasa9(name=name, phase=phase, elements=elements, n_sites=n_sites,
                     nasas=[SingleNasa9(T_low=200., T_high=1000., a=a), SingleNasa9(T_low=1000., T_high=6000., a=a * 1.01)])
    a = np.array([rng.uniform(20, 40), rng.uniform(-10, 10), rng.uniform(-5, 5), rng.uniform(-1, 1), rng.uniform(-0.5, 0.5),
                  rng.uniform(-300, 10), rng.uniform(100, 300), 0.])
    return Shomate(name=name, phase=phase, elements=elements, T_low=298., T_high=3000., a=a, n_sites=n_sites)


def model():
    n_gas = int(rng.integers(2, 6))
    n_surf = int(rng.integers(1, 3))
    species = [thermo('G%d' % i, 'gas', {'H': int(rng.integers(1, 5)), 'N': int(rng.integers(0, 3))}) for i in range(n_gas)]
    phases_data = [dict(name='gas', phase_type='IdealGas', initial_state={'G0': 1.0}), dict(name='bulk', phase_type='StoichSolid', density=float(rng.uniform(2, 25)))]
    species.append(thermo('M(B)', 'bulk', {'Ru': 1}))
    surf_names = ['terrace', 'step'][:n_surf]
    for sname in surf_names:
        tag = sname[0].upper()
        species.append(thermo('M(%s)' % tag, sname, {'Ru': 1}, 1))
        for i in range(n_gas):
            if rng.random() < 0.8:
                species.append(thermo('G%d(%s)' % (i, tag), sname, {'H': 1, 'Ru': 1}, int(rng.integers(1, 3))))
        phases_data.append(dict(name=sname, phase_type='InteractingInterface', site_density=float(10 ** rng.uniform(-10, -8)),
                                phases=['gas', 'bulk'], initial_state={'M(%s)' % tag: 1.0}))
    beps = []
    if rng.random() < 0.6:
        for k in range(int(rng.integers(1, 3))):
            beps.append(BEP(name='bep%d' % k, slope=float(rng.uniform(0, 1)), intercept=float(rng.uniform(0, 60)),
                            direction=str(rng.choice(['cleavage', 'synthesis'])), descriptor='delta_H'))
    by_name = pmutt_list_to_dict(species)
    reactions = []
    ids_used = set()
    for sname in surf_names:
        tag = sname[0].upper()
        ads = [s for s in species if s.name.endswith('(%s)' % tag) and s.name.startswith('G')]
        for s in ads:
            g = by_name[s.name.split('(')[0]]
            occ = int(s.n_sites)
            rid = None
            if rng.random() < 0.4:
                rid = 'r_%04d' % int(rng.integers(0, 6))
                if rid in ids_used:
                    rid = None
                else:
                    ids_used.add(rid)
            site_first = rng.random() < 0.3
            react = [by_name['M(%s)' % tag], g] if site_first else [g, by_name['M(%s)' % tag]]
            st = [float(occ), 1.] if site_first else [1., float(occ)]
            reactions.append(SurfaceReaction(reactants=react, reactants_stoich=st, products=[s, by_name['M(B)']], products_stoich=[1., float(occ)],
                                             is_adsorption=True, sticking_coeff=float(rng.uniform(0.01, 1)), id=rid,
                                             beta=float(rng.uniform(0, 1)) if rng.random() < 0.5 else None))
        for i in range(len(ads) - 1):
            a1, a2 = ads[i], ads[i + 1]
            if a1.n_sites != a2.n_sites:
                continue
            ts = None
            kw = {}
            r = rng.random()
            if r < 0.35 and beps:
                b = beps[int(rng.integers(0, len(beps)))]
                ts = [b]
                kw['direction'] = b.direction
            elif r < 0.7:
                species.append(thermo('TS%d(%s)' % (len(species), tag), sname, {'H': 1, 'Ru': 1}, int(a1.n_sites)))
                ts = [species[-1]]
            if rng.random() < 0.3:
                kw['A'] = float(10 ** rng.uniform(10, 20))
                kw['Ea'] = float(rng.uniform(0, 40))
            reactions.append(SurfaceReaction(reactants=[a1], reactants_stoich=[1.], products=[a2], products_stoich=[1.],
                                             transition_state=ts, transition_state_stoich=[1.] if ts else None, **kw))
    inter = []
    for sname in surf_names:
        tag = sname[0].upper()
        ads = [s for s in species if s.name.endswith('(%s)' % tag) and s.name.startswith('G')]
        for k in range(int(rng.integers(0, 3))):
            if not ads:
                break
            a1, a2 = ads[int(rng.integers(0, len(ads)))], ads[int(rng.integers(0, len(ads)))]
            nint = int(rng.integers(1, 4))
            inter.append(PiecewiseCovEffect(name_i=a1.name, name_j=a2.name, intervals=[0.] + sorted(rng.uniform(0.05, 0.95, nint - 1).tolist()),
                                            slopes=rng.uniform(-30, 30, nint).tolist(),
                                            name=('i_%04d' % k if rng.random() < 0.3 else None)))
    # distinct user names only
    seen = set()
    for it in inter:
        if it.name in seen:
            it.name = None
        elif it.name is not None:
            seen.add(it.name)
    phases = io.organize_phases(phases_data, species=species, reactions=reactions, interactions=inter or None)
    return species, reactions, inter, phases, beps


UNIT_SETS = [None, dict(length='cm', quantity='mol', act_energy='kcal/mol', mass='g', energy='kcal'),
             dict(length='m', quantity='molec', act_energy='J/mol', mass='kg', energy='J', pressure='Pa'),
             dict(length='cm', quantity='molec', act_energy='cal/mol', mass='g', energy='cal')]


def unit_val(text, unit):
    """'"1.5 cm3"' as loaded by YAML -> 1.5 if the unit text matches"""
    if not isinstance(text, str):
        return None
    t = text.strip('"')
    v, _, u = t.partition(' ')
    if u != unit:
        return None
    try:
        return float(v)
    except ValueError:
        return None


def close(a, b, rel=1e-9):
    return abs(a - b) <= rel * max(abs(a), abs(b), 1e-300)


f_yaml, f_cti, f_reactor = [], [], []
n_yaml = n_cti = n_reactor = 0
for case in range(N):
    us = UNIT_SETS[int(rng.integers(0, len(UNIT_SETS)))]
    units = None if us is None else Units(**us)
    u = Units() if us is None else Units(**us)
    T = float(rng.uniform(300, 1000))
    wit = {'seed': seed, 'case': case, 'units': us, 'T': T}
    try:
        species, reactions, inter, phases, beps = model()
    except Exception as ex:
        f_yaml.append({'witness': wit, 'what': 'building the model raised %s: %s' % (type(ex).__name__, str(ex)[:100]), 'key': 'model'})
        continue
    # (a) thermo YAML --------------------------------------------------------------------------
    n_yaml += 1
    try:
        text = io.write_thermo_yaml(phases=phases, species=species, reactions=reactions, lateral_interactions=inter or None, units=units, T=T)
        doc = yaml.safe_load(text)
        problems = []
        if [s['name'] for s in doc['species']] != [s.name for s in species]:
            problems.append('species names %r vs %r' % ([s['name'] for s in doc['species']][:4], [s.name for s in species][:4]))
        for s, d in zip(species, doc['species']):
            if d['composition'] != s.elements or d.get('sites') != s.n_sites:
                problems.append('species %s: composition/sites %r %r' % (s.name, d['composition'], d.get('sites')))
            data = np.array(sum(d['thermo']['data'], []), dtype=float)
            if isinstance(s, Nasa):
                ref = np.concatenate([s.a_low, s.a_high]); rg = [s.T_low, s.T_mid, s.T_high]
            elif isinstance(s, Nasa9):
                ref = np.concatenate([n.a for n in s.nasas]); rg = [200., 1000., 6000.]
            else:
                ref = s.a[:7]; rg = [s.T_low, s.T_high]
            if len(data) != len(ref) or not np.allclose(data, ref, rtol=1e-12, atol=0) or d['thermo']['temperature-ranges'] != rg:
                problems.append('species %s: coefficients or ranges differ' % s.name)
        ids = [r['id'] for r in doc.get('reactions', [])]
        if len(set(ids)) != len(ids) or len(ids) != len(reactions) or any(not isinstance(i, str) for i in ids):
            problems.append('reaction ids not unique strings: %r' % ids)
        for r, d in zip(reactions, doc.get('reactions', [])):
            eq = r.to_string(stoich_space=True, species_delimiter=' + ', reaction_delimiter=' <=> ', include_TS=False)
            if d['equation'] != eq or d['id'] != r.id:
                problems.append('reaction %s: equation %r id %r' % (eq, d['equation'], d['id']))
            rc = d.get('sticking-coefficient') if r.is_adsorption else d.get('rate-constant')
            if rc is None:
                problems.append('reaction %s: no rate parameters' % eq)
                continue
            if r.is_adsorption:
                A = r.sticking_coeff
                Ea = r.get_H_act(units=u.act_energy, T=T, P=c.P0('bar')) if r.Ea is None else c.convert_unit(r.Ea, 'kcal/mol', u.act_energy)
                gas = [s.name for s in r.reactants if s.name.count('(') == 0]
                if d.get('sticking-species') != gas[0]:
                    problems.append('reaction %s: sticking species %r' % (eq, d.get('sticking-species')))
            else:
                A = r.get_A(T=T, P=c.P0('bar'), include_entropy=False, units='%s/%s2' % (u.quantity, u.length))
                Ea = r.get_G_act(units=u.act_energy, T=T, P=c.P0('bar')) if r.Ea is None else c.convert_unit(r.Ea, 'kcal/mol', u.act_energy)
            ea = unit_val(rc.get('Ea'), u.act_energy)
            if not close(float(rc['A']), float(A)) or rc['b'] != r.beta or ea is None or not close(ea, float(Ea)):
                problems.append('reaction %s: A/b/Ea %r vs model %r %r %r' % (eq, rc, float(A), r.beta, float(Ea)))
        for p, d in zip(phases, doc['phases']):
            if d['name'] != p.name or d['species'] != [s.name for s in p.species] or sorted(d['elements']) != sorted(p.elements):
                problems.append('phase %s: species/elements differ' % p.name)
            if hasattr(p, 'site_density'):
                want = p.site_density * c.convert_unit(initial='mol', final=u.quantity) / c.convert_unit(initial='cm2', final=u.length + '2')
                got = unit_val(d.get('site-density'), '%s/%s^2' % (u.quantity, u.length))
                if got is None or not close(got, want):
                    problems.append('phase %s: site density %r, model %r' % (p.name, d.get('site-density'), want))
        if inter:
            names = [i['id'] for i in doc['interactions']]
            if len(set(names)) != len(names) or len(names) != len(inter):
                problems.append('interaction ids not unique: %r' % names)
            for it, d in zip(inter, doc['interactions']):
                fac = c.convert_unit(initial='kcal', final=u.energy) / c.convert_unit(initial='mol', final=u.quantity)
                st = [unit_val(x, '%s/%s' % (u.energy, u.quantity)) for x in d['strength']]
                if d['species'] != [it.name_i, it.name_j] or d['coverage-threshold'] != it.intervals or None in st or \
                        not all(close(a_, b_ * fac) for a_, b_ in zip(st, it.slopes)):
                    problems.append('interaction %s: %r' % (it.name, d))
        used_beps = []
        for r in reactions:
            b = getattr(r, 'bep', None)
            if b is not None and b not in used_beps:
                used_beps.append(b)
        if used_beps:
            bn = [b['id'] for b in doc.get('beps', [])]
            if len(set(bn)) != len(bn) or len(bn) != len(used_beps) or any(not isinstance(x, str) for x in bn):
                problems.append('bep ids %r for %d relations' % (bn, len(used_beps)))
        for pr in problems[:3]:
            f_yaml.append({'witness': wit, 'what': pr, 'key': pr.split(':')[0][:30]})
    except Exception as ex:
        f_yaml.append({'witness': wit, 'what': 'thermo YAML: %s: %s' % (type(ex).__name__, str(ex)[:160]), 'key': 'yaml-exception'})
    # (b) CTI ---------------------------------------------------------------------------------------
    n_cti += 1
    try:
        cti = io.write_cti(phases=phases, species=species, reactions=reactions, lateral_interactions=inter or None, units=units, T=T,
                           use_motz_wise=bool(rng.random() < 0.5))
        for s in species:
            if cti.count('species(name="%s",' % s.name) != 1:
                f_cti.append({'witness': wit, 'what': 'species %s written %d times' % (s.name, cti.count('species(name="%s",' % s.name)), 'key': 'species-once'})
        for r in reactions:
            if cti.count('id="%s")' % r.id) != 1:
                f_cti.append({'witness': wit, 'what': 'reaction id %s written %d times' % (r.id, cti.count('id="%s")' % r.id)), 'key': 'reaction-once'})
        fd, xml = tempfile.mkstemp(prefix='pvc_cti_', suffix='.xml')
        os.close(fd)
        err = _io.StringIO()
        try:
            with contextlib.redirect_stderr(err), contextlib.redirect_stdout(_io.StringIO()):
                ctml_writer.convert(text=cti, outName=xml)
        except SystemExit as ex:
            f_cti.append({'witness': wit, 'what': 'CTI text rejected by ctml_writer (exit %s): %s' % (ex.code, err.getvalue()[-300:]), 'key': 'cti-rejected'})
        finally:
            if os.path.exists(xml):
                os.remove(xml)
    except Exception as ex:
        f_cti.append({'witness': wit, 'what': 'CTI: %s: %s' % (type(ex).__name__, str(ex)[:160]), 'key': 'cti-exception'})
    # (c) reactor YAML --------------------------------------------------------------------------------
    n_reactor += 1
    try:
        opts = {}
        expect = {}
        spec_ = {'V': ('reactor', 'volume', '%s3' % u.length), 'A': ('reactor', 'area', '%s2' % u.length), 'L': ('reactor', 'length', u.length),
                 'cat_abyv': ('reactor', 'cat_abyv', '/%s' % u.length), 'P': ('reactor', 'pressure', u.pressure), 'T': ('reactor', 'temperature', None),
                 'flow_rate': ('inlet_gas', 'flow_rate', '%s3/%s' % (u.length, u.time)), 'residence_time': ('inlet_gas', 'residence_time', u.time),
                 'mass_flow_rate': ('inlet_gas', 'mass_flow_rate', '%s/%s' % (u.mass, u.time)), 'end_time': ('simulation', 'end_time', u.time),
                 'nodes': ('reactor', 'nodes', None), 'atol': ('simulation.solver', 'atol', None), 'rtol': ('simulation.solver', 'rtol', None),
                 'init_step': ('simulation', 'init_step', None), 'step_size': ('simulation', 'step_size', None),
                 'transient': ('simulation', 'transient', None), 'full_SA': ('simulation.sensitivity', 'full', None)}
        for k, (hdr, lab, unit) in spec_.items():
            r = rng.random()
            if r < 0.35:
                continue
            if k in ('transient', 'full_SA'):
                v = bool(rng.random() < 0.5)
                opts[k] = v
                expect[(hdr, lab)] = ('plain', v)
            elif k == 'nodes':
                v = int(rng.integers(1, 50))
                opts[k] = np.int64(v) if r < 0.6 else v
                expect[(hdr, lab)] = ('plain', v)
            elif unit is not None and r < 0.55:
                v = round(float(rng.uniform(0.1, 50)), 4)
                opts[k] = '%s myunit' % v
                expect[(hdr, lab)] = ('text', '%s myunit' % v)
            else:
                v = round(float(rng.uniform(0.1, 50)), 4)
                kind = rng.choice(['float', 'np.float64', 'np.float32', 'int', 'np.int64'])
                if kind == 'int':
                    v = int(v) + 1
                    opts[k] = v
                elif kind == 'np.int64':
                    v = int(v) + 1
                    opts[k] = np.int64(v)
                elif kind == 'np.float32':
                    opts[k] = np.float32(v)
                    v = float(np.float32(v))
                elif kind == 'np.float64':
                    opts[k] = np.float64(v)
                else:
                    opts[k] = v
                expect[(hdr, lab)] = ('unit', v, unit) if (unit is not None and us is not None) else ('plain', v)
        text = io.write_yaml(units=units, phases=phases if rng.random() < 0.5 else None, **opts)
        doc = yaml.safe_load(text) or {}
        got = {}
        for hdr in ('reactor', 'inlet_gas', 'simulation'):
            for lab, val in (doc.get(hdr) or {}).items():
                if isinstance(val, dict) and hdr == 'simulation' and lab in ('solver', 'sensitivity'):
                    for l2, v2 in val.items():
                        got[('simulation.' + lab, l2)] = v2
                else:
                    got[(hdr, lab)] = val
        if set(got) != set(expect):
            f_reactor.append({'witness': dict(wit, options={k: repr(v) for k, v in opts.items()}),
                              'what': 'entries written %r, supplied %r' % (sorted(set(got) - set(expect)), sorted(set(expect) - set(got))), 'key': 'entries'})
        for key, e in expect.items():
            if key not in got:
                continue
            g = got[key]
            ok = (e[0] == 'plain' and not isinstance(g, str) and (g == e[1] or close(float(g), float(e[1]), 1e-7))) or \
                (e[0] == 'text' and isinstance(g, str) and g.strip('"') == e[1]) or \
                (e[0] == 'unit' and unit_val(g, e[2]) is not None and close(unit_val(g, e[2]), float(e[1]), 1e-7))
            if not ok:
                f_reactor.append({'witness': dict(wit, options={k: repr(v) for k, v in opts.items()}),
                                  'what': '%s.%s written as %r, supplied %r' % (key[0], key[1], g, e[1:]), 'key': 'value'})
    except Exception as ex:
        f_reactor.append({'witness': wit, 'what': 'reactor YAML: %s: %s' % (type(ex).__name__, str(ex)[:160]), 'key': 'reactor-exception'})

# (d) species whose names are YAML 1.1 boolean words ------------------------------------------------------------
f_names = []
BOOL_WORDS = ['NO', 'ON', 'OFF', 'YES', 'NULL']      # YAML 1.1 keywords
OTHER = ['N2', 'HE', 'Y', 'N', '1e5', 'H2O', 'O']
a_ = np.array([3.5, 1e-3, 0., 0., 0., -1e4, 5.])
sp_ = [Nasa(name=nm, phase='gas', elements={'N': 1, 'O': 1}, T_low=200., T_mid=1000., T_high=3000., a_low=a_, a_high=a_) for nm in BOOL_WORDS + OTHER]
try:
    doc_ = yaml.safe_load(io.write_thermo_yaml(species=sp_))
    for s_, d_ in zip(sp_, doc_['species']):
        if d_['name'] != s_.name:
            f_names.append({'witness': {'species_name': s_.name}, 'what': 'species named %s is read back as %r (all quotes are stripped from the YAML text)'
                            % (s_.name, d_['name']), 'key': 'name-is-yaml-keyword' if s_.name in BOOL_WORDS else 'name:' + s_.name})
except Exception as ex:
    f_names.append({'witness': {}, 'what': 'names: %s: %s' % (type(ex).__name__, str(ex)[:160]), 'key': 'names-exception'})

out = [{'name': 'yaml-keeps-species-names', 'scope': 'species named %s' % ', '.join(BOOL_WORDS + OTHER), 'n': len(sp_), 'failures': f_names},
       {'name': 'thermo-yaml-loads-and-says-what-the-objects-say', 'scope': '%d random models (2-5 gas species, 1-2 interfaces, NASA7/NASA9/Shomate, '
        'adsorption / TS / BEP reactions, user and automatic ids, 0-4 interactions, 4 unit sets), seeded' % N, 'n': n_yaml, 'failures': f_yaml[:20]},
       {'name': 'cti-accepted-by-ctml_writer', 'scope': 'same models, CTI text executed by the bundled ctml_writer; every species and reaction id once',
        'n': n_cti, 'failures': f_cti[:20]},
       {'name': 'reactor-yaml-carries-exactly-the-supplied-values', 'scope': 'random subsets of 17 options as Python / NumPy numbers, strings with units, omitted',
        'n': n_reactor, 'failures': f_reactor[:20]}]
print(json.dumps({'bounded': out}))
