"""Bounded stand-in for C05: whole-file round trips beyond the enumerated
shapes of the deductive check (1-30 species, names with END / THERMO / leading
digits, 1-4 elements, coefficients of either sign over 1e-30..1e30 or zero,
date / notes / supplementary blocks, list / tuple / dict formats).
LABELLED BOUNDED."""
import json, os, random, tempfile, warnings
import numpy as np
warnings.simplefilter('ignore')
seed = int(os.environ.get('VERIF_SEED', '0') or 0)
tier = os.environ.get('VERIF_TIER', 'quick')
rnd = random.Random(seed + 505)
N = 60 if tier == 'quick' else 1500
from pmutt.empirical.nasa import Nasa
from pmutt.io.thermdat import write_thermdat, read_thermdat

# every non-blank printable ASCII character may occur in a name (the property's alphabet); letters and digits dominate
ALPHA = 'ABCDEFGHIJKLMNOPQRSTUVWXYZabcdefghijklmnopqrstuvwxyz0123456789' * 3 + '!"#$%&\'()*+,-./:;<=>?@[\\]^_`{|}~'
ELS = ['H', 'C', 'O', 'N', 'Pt', 'Cl', 'Na', 'Si', 'He', 'Li', 'Be']
fails = []
n = 0


def coef():
    r = rnd.random()
    if r < 0.1:
        return 0.0
    return rnd.choice([-1, 1]) * 10 ** rnd.uniform(-30, 30)


def rname(used):
    while True:
        r = rnd.random()
        L = rnd.randint(1, 15)
        nm = ''.join(rnd.choice(ALPHA) for _ in range(L))
        if r < 0.2:
            k = rnd.choice(['END', 'THERMO'])
            nm = (nm[:rnd.randint(0, 3)] + k + nm)[:15]
        if nm[0] == '!' or nm in used:
            continue
        used.add(nm)
        return nm


for case in range(N):
    used = set()
    species = []
    r_ = rnd.random()
    # sizes over the whole quantifier (1-200 species), powers of two and their neighbours included
    n_species = rnd.randint(1, 5) if r_ < 0.75 else (rnd.randint(6, 30) if r_ < 0.85 else rnd.choice([31, 32, 33, 63, 64, 65, 96, 128, 200]))
    for _ in range(n_species):
        pairs = [(e, rnd.choice([1, 2, 9, 10, 99, 100, 999, rnd.randint(1, 999)])) for e in rnd.sample(ELS, rnd.randint(1, 4))]
        # zero-count entries (omitted from the file) may sit anywhere in the dictionary
        for z in rnd.sample(['Ar', 'Kr', 'Xe'], rnd.choice([0, 0, 0, 1, 1, 2])):
            pairs.insert(rnd.randint(0, len(pairs)), (z, 0))
        els = dict(pairs)
        species.append(Nasa(name=rname(used), T_low=round(rnd.uniform(1, 999), 3), T_mid=round(rnd.uniform(100, 3000), 3),
                            T_high=round(rnd.uniform(1000, 9999.9), 3), a_low=np.array([coef() for _ in range(7)]),
                            a_high=np.array([coef() for _ in range(7)]), elements=els, phase=rnd.choice('GSLB'),
                            notes=rnd.choice([None, '', 'mynotes', 'TPD', '500 1!ab', 'a!b', '12 34'])))
    kw = dict(write_date=rnd.random() < 0.5)
    if rnd.random() < 0.3:
        kw['supp_txt'] = '!some comment\n!another one'
    inp = species if rnd.random() < 0.7 else {s.name: s for s in species}
    n += 1
    fd, path = tempfile.mkstemp(prefix='pvc_thermdat_')
    os.close(fd)
    try:
        write_thermdat(inp, filename=path, **kw)
        text = open(path).read()
        for ln in text.split('\n'):
            if ln[:6] not in ('THERMO', 'END') and not ln.startswith('!') and len(ln) == 80 and ln[79] in '1234':
                pass
        fmt = rnd.choice(['list', 'tuple', 'dict'])
        back = read_thermdat(path, format=fmt)
        back = list(back.values()) if fmt == 'dict' else list(back)
        ok = len(back) == len(species)
        what = 'read %d species, wrote %d' % (len(back), len(species))
        if ok:
            for a, b in zip(species, back):
                ea = {k: v for k, v in a.elements.items() if v > 0}
                if a.name != b.name or a.phase != b.phase or ea != dict(b.elements):
                    ok, what = False, 'species %r read back as %r / %r' % (a.name, b.name, dict(b.elements))
                    break
                if abs(a.T_low - b.T_low) > 0.0501 or abs(a.T_high - b.T_high) > 0.0501 or abs(a.T_mid - b.T_mid) > 0.0501:
                    ok, what = False, 'temperature bounds of %r differ' % a.name
                    break
                for x, y in zip(list(a.a_low) + list(a.a_high), list(b.a_low) + list(b.a_high)):
                    if abs(x - y) > 5.1e-9 * abs(x):
                        ok, what = False, 'coefficient of %r differs: %r vs %r' % (a.name, x, y)
                        break
                if not ok:
                    break
        # layout of the records
        for ln in text.split('\n'):
            if not ln or ln.startswith('!') or ln.split() in (['THERMO', 'ALL'], ['END']) or len(ln.split()) == 3:
                continue
            if len(ln) != 80 or ln[79] not in '1234':
                ok, what = False, 'record %r is not 80 columns with its number in column 80' % ln[:20]
                break
        if not ok:
            fails.append({'witness': {'names': [s.name for s in species][:6], 'seed': seed, 'case': case}, 'what': what})
    except Exception as e:
        fails.append({'witness': {'names': [s.name for s in species][:6], 'seed': seed, 'case': case},
                      'what': 'exception %s: %s' % (type(e).__name__, str(e)[:100])})
    finally:
        os.remove(path)
print(json.dumps({'bounded': [{'name': 'thermdat-file-roundtrip', 'scope': '%d seeded files of 1-30 species' % N, 'n': n,
                               'failures': fails[:10]}]}))
