"""Bounded stand-in for C14: full to_string / from_string round trips over the
property's own alphabet (names with digits after the first character,
parentheses, asterisks, underscores), every listed delimiter, optional
transition state, arbitrary blanks; chemical-formula parsing; balance check
against a brute-force element count.  LABELLED BOUNDED."""
import json, os, random, re, warnings
warnings.simplefilter('ignore')
seed = int(os.environ.get('VERIF_SEED', '0') or 0)
tier = os.environ.get('VERIF_TIER', 'quick')
rnd = random.Random(seed + 1414)
N = 300 if tier == 'quick' else 6000
from pmutt.reaction import Reaction
from pmutt import parse_formula

out = []


class Sp:
    def __init__(self, name, elements):
        self.name = name
        self.elements = elements
        self.phase = 'G'


FIRST = 'ABCDEFGHIJKLMNOPQRSTUVWXYZabcdefghijklmnopqrstuvwxyz'
REST = FIRST + '0123456789()*_'
ELS = ['H', 'C', 'O', 'N', 'Pt', 'Cl', 'Na', 'Si']


def rname(used):
    while True:
        nm = rnd.choice(FIRST) + ''.join(rnd.choice(REST) for _ in range(rnd.randint(0, 7)))
        if nm not in used:
            used.add(nm)
            return nm


def coeff():
    r = rnd.random()
    if r < 0.3:
        return 1.0
    if r < 0.6:
        return float(rnd.randint(2, 4))
    if r < 0.8:
        return rnd.choice([0.25, 0.5, 1.5, 2.5, 0.75, 3.25])
    k = rnd.randint(1, 4)
    return k + rnd.choice([-1, 1]) * 10 ** rnd.uniform(-9, -6)      # near-integers


fails = []
n = 0
for case in range(N):
    used = set()
    def side(k):
        return [Sp(rname(used), {}) for _ in range(k)], [coeff() for _ in range(k)]
    r, rs = side(rnd.randint(1, 4))
    p, ps = side(rnd.randint(1, 4))
    ts = tss = None
    if rnd.random() < 0.5:
        ts, tss = side(1)
    rx = Reaction(reactants=r, reactants_stoich=rs, products=p, products_stoich=ps,
                  transition_state=ts, transition_state_stoich=tss)
    sd, rd = rnd.choice([('+', '='), ('+', '<=>'), (' + ', ' = '), ('+', '>>'), (' + ', ' <=> ')])
    fmt = rnd.choice(['.2f', '.3f', '.4f'])
    space = rnd.random() < 0.3
    n += 1
    try:
        text = rx.to_string(species_delimiter=sd, reaction_delimiter=rd, stoich_format=fmt, stoich_space=space)
        if rnd.random() < 0.5:
            text = '  ' + text.replace(sd.strip(), ' ' + sd.strip() + '  ') + ' '
        species = {s.name: s for s in r + p + (ts or [])}
        back = Reaction.from_string(text, species, species_delimiter=sd.strip(), reaction_delimiter=rd.strip())
        prec = 0.5 * 10 ** -int(fmt[1]) + 5e-5
        ok = True
        for a, b, sa, sb in ((r, back.reactants, rs, back.reactants_stoich), (p, back.products, ps, back.products_stoich)):
            if [x.name for x in a] != [x.name for x in b] or any(abs(u - v) > prec for u, v in zip(sa, sb)):
                ok = False
        if (ts is None) != (back.transition_state is None):
            ok = False
        elif ts is not None and ([x.name for x in ts] != [x.name for x in back.transition_state] or
                                 any(abs(u - v) > prec for u, v in zip(tss, back.transition_state_stoich))):
            ok = False
        if not ok:
            fails.append({'witness': {'text': text, 'reactants': [(x.name, v) for x, v in zip(r, rs)]},
                          'what': 'printed reaction does not parse back to the same species / coefficients'})
    except Exception as e:
        fails.append({'witness': {'reactants': [(x.name, v) for x, v in zip(r, rs)], 'delims': [sd, rd]},
                      'what': 'exception %s: %s' % (type(e).__name__, str(e)[:100])})
out.append({'name': 'reaction-string-roundtrip', 'scope': '%d seeded reactions, 1-4 species per side, 5 delimiter pairs' % N,
            'n': n, 'failures': fails[:10]})

fails = []
n = 0
for case in range(N):
    parts = [(rnd.choice(ELS), rnd.choice([1, 1, 2, 3, 12, 999, rnd.randint(1, 999)])) for _ in range(rnd.randint(1, 6))]
    f = ''.join(e + (str(c) if (c != 1 or rnd.random() < 0.3) else '') for e, c in parts)
    exp = {}
    for e, c in parts:
        exp[e] = exp.get(e, 0) + c
    n += 1
    got = parse_formula(f)
    if got != exp:
        fails.append({'witness': {'formula': f}, 'what': 'parsed %r, expected %r' % (got, exp)})
out.append({'name': 'formula-counts', 'scope': '%d seeded formulas of 1-6 groups, counts 1-999, repeats' % N, 'n': n, 'failures': fails[:10]})

fails = []
n = 0
for case in range(N):
    els = rnd.sample(ELS, rnd.randint(1, 3))
    def mk(k):
        sp_, st = [], []
        for i in range(k):
            comp = {e: rnd.choice([1, 2, 3, 0.5]) for e in els if rnd.random() < 0.8} or {els[0]: 1}
            sp_.append(Sp('s%d' % rnd.randint(0, 10 ** 6), comp))
            st.append(rnd.choice([1, 2, 0.5, 1.5, 3]))
        return sp_, st
    r, rs = mk(rnd.randint(1, 3))
    balanced = rnd.random() < 0.5
    if balanced:
        p, ps = list(r)[::-1], list(rs)[::-1]
    else:
        p, ps = mk(rnd.randint(1, 3))
    def tot(sp_, st):
        t = {}
        for s, v in zip(sp_, st):
            for e, c in s.elements.items():
                t[e] = t.get(e, 0) + c * v
        return {e: round(v, 9) for e, v in t.items() if abs(v) > 1e-12}
    same = tot(r, rs) == tot(p, ps)
    rx = Reaction(reactants=r, reactants_stoich=rs, products=p, products_stoich=ps)
    n += 1
    try:
        rx.check_element_balance()
        raised = False
    except ValueError:
        raised = True
    if raised == same:
        fails.append({'witness': {'reactants': [(s.elements, v) for s, v in zip(r, rs)],
                                  'products': [(s.elements, v) for s, v in zip(p, ps)]},
                      'what': 'balance check %s although element totals %s' % ('raised' if raised else 'passed', 'agree' if same else 'differ')})
out.append({'name': 'element-balance-iff', 'scope': '%d seeded reactions with exactly representable coefficients' % N, 'n': n, 'failures': fails[:10]})
print(json.dumps({'bounded': out}))
