"""Bounded stand-in for the geometry-derived rotor parameters of C01 (they are computed from an ASE Atoms object, which is
outside the modelled subset): the linear / nonlinear / monatomic verdict and the rotational temperatures of a molecule do
not depend on the order in which its atoms are listed, and agree with the known shape.  LABELLED BOUNDED."""
import json, os, random, warnings
import numpy as np
warnings.simplefilter('ignore')
seed = int(os.environ.get('VERIF_SEED', '0') or 0)
tier = os.environ.get('VERIF_TIER', 'quick')
rnd = random.Random(seed + 101)
from ase.build import molecule
from pmutt.statmech.rot import get_geometry_from_atoms, get_rot_temperatures_from_atoms

KNOWN = {'H2O': 'nonlinear', 'NH3': 'nonlinear', 'CH4': 'nonlinear', 'C2H6': 'nonlinear', 'CH3OH': 'nonlinear',
         'C3H4_C3v': 'nonlinear', '2-butyne': 'nonlinear', 'C6H6': 'nonlinear', 'C5H5N': 'nonlinear', 'C3H8': 'nonlinear',
         'CO2': 'linear', 'C2H2': 'linear', 'HCN': 'linear', 'N2': 'linear', 'CO': 'linear', 'H': 'monatomic', 'OCS': 'linear'}
N_PERM = 8 if tier == 'quick' else 200
fails = []
n = 0
for name, shape in KNOWN.items():
    try:
        base = molecule(name)
    except Exception:
        continue
    perms = [list(range(len(base)))]
    # orders that put collinear atoms first are the interesting ones: try many
    for _ in range(N_PERM):
        p = list(range(len(base)))
        rnd.shuffle(p)
        perms.append(p)
    ref_T = None
    for p in perms:
        n += 1
        try:
            atoms = base[p]
            geo = get_geometry_from_atoms(atoms)
            if geo != shape:
                fails.append({'witness': {'molecule': name, 'atom_order': p}, 'key': 'geometry',
                              'what': '%s with atoms listed in order %r is reported %r, it is %s' % (name, p, geo, shape)})
                break
            Ts = sorted(float(t) for t in get_rot_temperatures_from_atoms(atoms, geometry=geo))
            if ref_T is None:
                ref_T = Ts
            elif len(Ts) != len(ref_T) or any(abs(a - b) > 1e-6 * max(abs(a), abs(b), 1e-12) for a, b in zip(Ts, ref_T)):
                fails.append({'witness': {'molecule': name, 'atom_order': p}, 'key': 'rot-temperatures',
                              'what': 'rotational temperatures %r differ from those of the default atom order %r' % (Ts, ref_T)})
                break
        except Exception as e:
            fails.append({'witness': {'molecule': name, 'atom_order': p}, 'what': 'exception %s: %s' % (type(e).__name__, str(e)[:120])})
            break
print(json.dumps({'bounded': [{'name': 'geometry-from-atoms-is-order-independent',
                               'scope': '%d molecules of the G2 set (1-11 atoms), %d random atom orders each' % (len(KNOWN), N_PERM),
                               'n': n, 'failures': fails[:10]}]}))
