"""Bounded stand-in for the clauses of C16 that depend on the SLSQP solver:
atom conservation, non-negativity and mole fractions of converged results, and
signalling of solver failure are JUDGED; global optimality and order
independence (the assumed contract of SLSQP, see DESIGN 4/C16) are only
MEASURED and reported in the evidence.  LABELLED BOUNDED."""
import json, os, warnings
import numpy as np
seed = int(os.environ.get('VERIF_SEED', '0') or 0)
tier = os.environ.get('VERIF_TIER', 'quick')
rng = np.random.default_rng(seed + 1616)
N = 40 if tier == 'quick' else 600
import pmutt.equilibrium._equilibrium as E
from pmutt.empirical.nasa import Nasa

holder = {}
orig = E.minimize


def spy(*a, **k):
    r = orig(*a, **k)
    holder['r'] = r
    return r


E.minimize = spy
fails = []
n = 0
n_unconverged = 0
n_not_minimal = 0
n_order = 0
for case in range(N):
    ns = int(rng.integers(2, 9))
    els = ['H', 'O', 'C', 'N'][:int(rng.integers(1, 5))]
    species = []
    for i in range(ns):
        comp = {e: int(rng.integers(0, 4)) for e in els}
        comp = {e: v for e, v in comp.items() if v > 0} or {els[0]: 1}
        a = np.zeros(7)
        a[0] = 3.5
        a[5] = rng.uniform(-25, 25) * 1000
        a[6] = rng.uniform(0, 20)
        species.append(Nasa(name='s%d' % i, T_low=200, T_mid=1000, T_high=3000, a_low=a, a_high=a, elements=comp, phase='G'))
    feed = {s.name: float(rng.uniform(0.05, 2)) for s in species}
    T, P = float(rng.uniform(300, 2500)), float(10 ** rng.uniform(-2, 2))
    n += 1
    try:
        eq = E.Equilibrium(model=species, network=feed)
        with warnings.catch_warnings(record=True) as w:
            warnings.simplefilter('always')
            res = eq.get_net_comp(T=T, P=P)
        sol = holder['r']
        if not sol.success:
            n_unconverged += 1
            if not any(issubclass(x.category, Warning) for x in w):
                fails.append({'witness': {'seed': seed, 'case': case}, 'key': 'silent',
                              'what': 'solver failed (%s) but no warning or exception was raised' % sol.message})
            continue
        x = np.array(res.moles)
        resid = np.abs(x.dot(eq.mol_elem) - eq.ele_feed).max()
        if resid > 1e-6 * max(1.0, eq.ele_feed.max()):
            fails.append({'witness': {'seed': seed, 'case': case}, 'what': 'atoms not conserved (residual %.2g)' % resid})
        if (x < 0).any():
            fails.append({'witness': {'seed': seed, 'case': case}, 'what': 'negative amount'})
        if abs(np.sum(res.mole_frac) - 1) > 1e-9:
            fails.append({'witness': {'seed': seed, 'case': case}, 'what': 'mole fractions sum to %r' % float(np.sum(res.mole_frac))})
        # no atom-conserving move lowers G: project random directions on the null space of A^T
        g = np.array([s.get_GoRT(T=T) for s in species])
        G0 = eq._objective(x, g, P * 1.01325)
        A = eq.mol_elem
        ns_ = np.linalg.svd(A.T)[2][np.linalg.matrix_rank(A.T):]
        for _ in range(20):
            if len(ns_) == 0:
                break
            d = ns_.T.dot(rng.normal(size=len(ns_)))
            step = 1e-3 * x.max()
            y = x + step * d / (np.abs(d).max() + 1e-300)
            if (y <= 1e-12).any():
                continue
            if eq._objective(y, g, P * 1.01325) < G0 - 1e-7 * max(1.0, abs(G0)):
                # optimality is the ASSUMED contract of SLSQP: measured, not judged
                n_not_minimal += 1
                break
        # order independence
        perm = list(rng.permutation(ns))
        eq2 = E.Equilibrium(model=[species[k] for k in perm], network={species[k].name: feed[species[k].name] for k in perm})
        with warnings.catch_warnings():
            warnings.simplefilter('ignore')
            res2 = eq2.get_net_comp(T=T, P=P)
        if holder['r'].success:
            m1 = dict(zip(res.species, res.moles))
            m2 = dict(zip(res2.species, res2.moles))
            tot = sum(m1.values())
            G2 = eq2._objective(np.array(res2.moles), np.array([species[k].get_GoRT(T=T) for k in perm]), P * 1.01325)
            # a converged minimiser is unique (strictly convex objective); SLSQP's own termination tolerance
            # leaves trace species loosely determined, so compare the Gibbs energies and the major species
            major = [k for k in m1 if m1[k] > 1e-3 * tot]
            if abs(G2 - G0) > 1e-5 * max(1.0, abs(G0)) or \
                    max([abs(m1[k] - m2[k]) for k in major] + [0.0]) > 2e-2 * tot:
                n_order += 1
    except Exception as e:
        fails.append({'witness': {'seed': seed, 'case': case}, 'what': 'exception %s: %s' % (type(e).__name__, str(e)[:100])})
print(json.dumps({'bounded': [{'name': 'equilibrium-solver-results',
                               'scope': '%d seeded networks of 2-8 species over 1-4 elements; %d unconverged (all signalled); '
                                        'measured only, not judged (assumed SLSQP contract): %d converged results with a lower-energy '
                                        'atom-conserving neighbour, %d order-dependent' % (N, n_unconverged, n_not_minimal, n_order),
                               'n': n, 'failures': fails[:10]}]}))
