"""Bounded stand-in for the clauses of C16 that depend on the SLSQP solver:
atom conservation, non-negativity and mole fractions of converged results, and
signalling of solver failure are JUDGED; global optimality and order
independence (the assumed contract of SLSQP, see DESIGN 4/C16) are only
MEASURED and reported in the evidence.  LABELLED BOUNDED."""
import json, os, warnings
import numpy as np
seed = int(os.environ.get('VERIF_SEED', '0') or 0)
tier = os.environ.get('VERIF_TIER', 'quick')
rng = np.random.default_rng(seed + 1616)
N = 40 if tier == 'quick' else 600
import pmutt.equilibrium._equilibrium as E
from pmutt.empirical.nasa import Nasa

holder = {}
orig = E.minimize


def spy(*a, **k):
    r = orig(*a, **k)
    holder['r'] = r
    return r


E.minimize = spy
fails = []
n = 0
n_unconverged = 0
n_not_minimal = 0
n_order = 0
for case in range(N):
    ns = int(rng.integers(2, 13))      # the property's range: 2-12 species
    els = ['H', 'O', 'C', 'N'][:int(rng.integers(1, 5))]
    species = []
    for i in range(ns):
        comp = {e: int(rng.integers(0, 4)) for e in els}
        comp = {e: v for e, v in comp.items() if v > 0} or {els[0]: 1}
        a = np.zeros(7)
        a[0] = 3.5
        a[5] = rng.uniform(-25, 25) * 1000
        a[6] = rng.uniform(0, 20)
        species.append(Nasa(name='s%d' % i, T_low=200, T_mid=1000, T_high=3000, a_low=a, a_high=a, elements=comp, phase='G'))
    feed = {s.name: float(rng.uniform(0.05, 2)) for s in species}
    T, P = float(rng.uniform(300, 2500)), float(10 ** rng.uniform(-2, 2))
    n += 1
    try:
        eq = E.Equilibrium(model=species, network=feed)
        with warnings.catch_warnings(record=True) as w:
            warnings.simplefilter('always')
            res = eq.get_net_comp(T=T, P=P)
        sol = holder['r']
        if not sol.success:
            n_unconverged += 1
            if not any(issubclass(x.category, Warning) for x in w):
                fails.append({'witness': {'seed': seed, 'case': case}, 'key': 'silent',
                              'what': 'solver failed (%s) but no warning or exception was raised' % sol.message})
            continue
        x = np.array(res.moles)
        resid = np.abs(x.dot(eq.mol_elem) - eq.ele_feed).max()
        if resid > 1e-6 * max(1.0, eq.ele_feed.max()):
            fails.append({'witness': {'seed': seed, 'case': case}, 'what': 'atoms not conserved (residual %.2g)' % resid})
        if (x < 0).any():
            fails.append({'witness': {'seed': seed, 'case': case}, 'what': 'negative amount'})
        if abs(np.sum(res.mole_frac) - 1) > 1e-9:
            fails.append({'witness': {'seed': seed, 'case': case}, 'what': 'mole fractions sum to %r' % float(np.sum(res.mole_frac))})
        # no atom-conserving move lowers G: project random directions on the null space of A^T
        g = np.array([s.get_GoRT(T=T) for s in species])
        G0 = eq._objective(x, g, P * 1.01325)
        A = eq.mol_elem
        ns_ = np.linalg.svd(A.T)[2][np.linalg.matrix_rank(A.T):]
        for _ in range(20):
            if len(ns_) == 0:
                break
            d = ns_.T.dot(rng.normal(size=len(ns_)))
            step = 1e-3 * x.max()
            y = x + step * d / (np.abs(d).max() + 1e-300)
            if (y <= 1e-12).any():
                continue
            if eq._objective(y, g, P * 1.01325) < G0 - 1e-7 * max(1.0, abs(G0)):
                # optimality is the ASSUMED contract of SLSQP: measured, not judged
                n_not_minimal += 1
                break
        # order independence
        perm = list(rng.permutation(ns))
        eq2 = E.Equilibrium(model=[species[k] for k in perm], network={species[k].name: feed[species[k].name] for k in perm})
        with warnings.catch_warnings():
            warnings.simplefilter('ignore')
            res2 = eq2.get_net_comp(T=T, P=P)
        if holder['r'].success:
            m1 = dict(zip(res.species, res.moles))
            m2 = dict(zip(res2.species, res2.moles))
            tot = sum(m1.values())
            G2 = eq2._objective(np.array(res2.moles), np.array([species[k].get_GoRT(T=T) for k in perm]), P * 1.01325)
            # a converged minimiser is unique (strictly convex objective); SLSQP's own termination tolerance
            # leaves trace species loosely determined, so compare the Gibbs energies and the major species
            major = [k for k in m1 if m1[k] > 1e-3 * tot]
            if abs(G2 - G0) > 1e-5 * max(1.0, abs(G0)) or \
                    max([abs(m1[k] - m2[k]) for k in major] + [0.0]) > 2e-2 * tot:
                n_order += 1
    except Exception as e:
        fails.append({'witness': {'seed': seed, 'case': case}, 'what': 'exception %s: %s' % (type(e).__name__, str(e)[:100])})
# ---- from_thermdat: the file is read every time it is named (no memory of an earlier file under the same path) -------------
import tempfile
from pmutt.io.thermdat import write_thermdat
f2 = []
n2 = 0
for case in range(6):
    sp_ = []
    for i in range(3):
        a = np.zeros(7)
        a[0] = 3.5
        a[5] = rng.uniform(-25, 25) * 1000
        a[6] = rng.uniform(0, 20)
        sp_.append(Nasa(name='S%d' % i, T_low=200, T_mid=1000, T_high=3000, a_low=a.copy(), a_high=a.copy(), elements={'H': i + 1}, phase='G'))
    d = tempfile.mkdtemp(prefix='pvc_eq_')
    path = os.path.join(d, 'thermdat')
    try:
        n2 += 1
        write_thermdat(filename=path, nasa_species=sp_)
        eq1 = E.Equilibrium.from_thermdat(path, {s.name: 1.0 for s in sp_})
        sp_[1].a_low[5] += 3.0e4
        sp_[1].a_high[5] += 3.0e4
        write_thermdat(filename=path, nasa_species=sp_)
        eq2 = E.Equilibrium.from_thermdat(path, {s.name: 1.0 for s in sp_})
        got = float(eq2.model['S1'].a_low[5])
        if abs(got - sp_[1].a_low[5]) > 1e-6 * abs(sp_[1].a_low[5]):
            f2.append({'witness': {'seed': seed, 'case': case}, 'key': 'stale-file',
                       'what': 'from_thermdat on a rewritten file returned the species of the earlier file (a_low[5] %r, file has %r)'
                       % (got, float(sp_[1].a_low[5]))})
        with warnings.catch_warnings():
            warnings.simplefilter('ignore')
            g2 = [float(x) for x in (eq2.get_net_comp(T=800., P=1.), eq2.gibbs)[1]]
        want = [float(s.get_GoRT(T=800.)) for s in sp_]
        if max(abs(a_ - b_) for a_, b_ in zip(g2, want)) > 1e-6 * max(1., max(abs(w) for w in want)):
            f2.append({'witness': {'seed': seed, 'case': case}, 'key': 'stale-gibbs',
                       'what': 'Gibbs energies handed to the solver %r differ from the file contents %r' % (g2, want)})
    except Exception as e:
        f2.append({'witness': {'seed': seed, 'case': case}, 'what': 'exception %s: %s' % (type(e).__name__, str(e)[:100])})
    finally:
        import shutil
        shutil.rmtree(d, ignore_errors=True)
# ---- a solver failure is visible under the interpreter's own warning configuration (nothing in pMuTT filters it away) ------------
import subprocess, sys
PROBE = r"""
import json, sys, warnings
shown = []
warnings.showwarning = lambda message, category, *a, **k: shown.append(category.__name__)
import numpy as np
import pmutt.equilibrium._equilibrium as E
from pmutt.empirical.nasa import Nasa
holder = {}
orig = E.minimize
def spy(*a, **k):
    r = orig(*a, **k); holder['r'] = r; return r
E.minimize = spy
def sp(name, h):
    a = np.zeros(7); a[0] = 3.5; a[5] = h
    return Nasa(name=name, T_low=200, T_mid=1000, T_high=3000, a_low=a, a_high=a, elements={'H': 1, 'C': 1, 'N': 1}, phase='G')
out = {'raised': None}
try:
    E.Equilibrium(model=[sp('HCN', 1000.), sp('HNC', 8000.)], network={'HCN': 1.0, 'HNC': 2.0}).get_net_comp(T=800., P=1.)
except Exception as e:
    out['raised'] = type(e).__name__
out['success'] = bool(holder['r'].success) if 'r' in holder else None
out['shown'] = shown
out['ignore_filters'] = [repr(f[:4]) for f in warnings.filters if f[0] == 'ignore' and f[2] is not None
                         and issubclass(RuntimeWarning, f[2]) and f[3] is not None and f[3].match('pmutt.equilibrium._equilibrium')]
print(json.dumps(out))
"""
f3 = []
try:
    pr = subprocess.run([sys.executable, '-c', PROBE], capture_output=True, text=True, timeout=300,
                        env={k: v for k, v in os.environ.items() if k != 'PYTHONWARNINGS'})
    probe = json.loads(pr.stdout.strip().splitlines()[-1])
    if probe['success'] is False and probe['raised'] is None and not probe['shown']:
        f3.append({'witness': {'network': 'HCN/HNC (2 species, 3 elements)', 'T': 800., 'P': 1.}, 'key': 'filtered',
                   'what': 'the solver did not converge, no exception was raised and no warning reached the caller under the '
                           'default warning configuration (filters installed while importing pmutt: %s)' % probe['ignore_filters']})
    probe_note = 'solver success=%r, raised=%r, warnings shown=%r' % (probe['success'], probe['raised'], probe['shown'])
except Exception as e:
    f3.append({'witness': {}, 'what': 'probe failed: %s: %s' % (type(e).__name__, str(e)[:200])})
    probe_note = 'probe failed'
print(json.dumps({'bounded': [{'name': 'solver-failure-visible-under-default-warning-filters',
                               'scope': 'one non-convergent network in a fresh interpreter with its default warning configuration; ' + probe_note,
                               'n': 1, 'failures': f3},
                              {'name': 'from_thermdat-reads-the-named-file-every-time', 'scope': '6 files rewritten in place between two constructions',
                               'n': n2, 'failures': f2[:10]},
                              {'name': 'equilibrium-solver-results',
                               'scope': '%d seeded networks of 2-12 species over 1-4 elements; %d unconverged (all signalled); '
                                        'measured only, not judged (assumed SLSQP contract): %d converged results with a lower-energy '
                                        'atom-conserving neighbour, %d order-dependent' % (N, n_unconverged, n_not_minimal, n_order),
                               'n': n, 'failures': fails[:10]}]}))
