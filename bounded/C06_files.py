"""Bounded stand-in for the clauses of C06 that are about TEXT and about
mechanisms larger than the enumerated shapes: random mechanisms (real Nasa
species, CatSite, ChemkinReaction objects) are written with the real writers;
then (a) pMuTT's own reader must give back species and stoichiometry, (b) every
number parsed from the text must equal the model's value to the printed
precision, (c) sections, exactly-once and declared counts must hold.
LABELLED BOUNDED - never counted as proved."""
import json
import os
import sys
import tempfile
import warnings
import numpy as np

warnings.simplefilter('ignore')
seed = int(os.environ.get('VERIF_SEED', '0') or 0)
tier = os.environ.get('VERIF_TIER', 'quick')
rng = np.random.default_rng(seed + 606)
N = 25 if tier == 'quick' else 400
from pmutt.empirical.nasa import Nasa
from pmutt.reaction import ChemkinReaction, Reactions
from pmutt.chemkin import CatSite
from pmutt.io import chemkin as ck
from pmutt import constants as c


def nasa(name, phase, elements, site=None, n_sites=None):
    a = np.array([rng.uniform(2, 6), rng.uniform(-1, 1) * 1e-3, rng.uniform(-1, 1) * 1e-7, 0., 0., rng.uniform(-3, 1) * 1e4, rng.uniform(-5, 15)])
    b = a.copy()
    b[5] += rng.uniform(-50, 50)
    return Nasa(name=name, phase=phase, elements=elements, T_low=200., T_mid=1000., T_high=3000., a_low=a, a_high=a if rng.random() < 0.5 else b,
                cat_site=site, n_sites=n_sites)


def mechanism():
    """random site-balanced mechanism: gas species A_i, adsorbates A_i(Sk), empty sites, bulk"""
    n_sites = int(rng.integers(1, 4))
    sites = [CatSite(name='M%d_SURF' % k, site_density=float(10 ** rng.uniform(-10, -8)), density=float(rng.uniform(2, 25)),
                     bulk_specie='M%d(B)' % k) for k in range(n_sites)]
    n_gas = int(rng.integers(2, 8))
    species = {}
    for i in range(n_gas):
        species['A%d' % i] = nasa('A%d' % i, 'G', {'H': int(rng.integers(1, 5)), 'C': int(rng.integers(0, 3))})
    for k, s in enumerate(sites):
        species['M%d(S)' % k] = nasa('M%d(S)' % k, 'S', {'PT': 1}, s, 1)
        species['M%d(B)' % k] = nasa('M%d(B)' % k, 'B', {'PT': 1}, s)
    reactions = []
    n_rxn = int(rng.integers(1, 12 if tier == 'quick' else 41))
    nts = 0
    for j in range(n_rxn):
        kind = rng.choice(['gas', 'ads', 'surf'])
        if kind == 'gas':
            i1, i2 = rng.choice(n_gas, 2, replace=False)
            nu = int(rng.integers(1, 4))
            ts = None
            if rng.random() < 0.6:
                nts += 1
                species['TSG%d' % nts] = nasa('TSG%d' % nts, 'G', {'H': 1})
                ts = [species['TSG%d' % nts]]
            reactions.append(ChemkinReaction(reactants=[species['A%d' % i1]], reactants_stoich=[float(nu)],
                                             products=[species['A%d' % i2]], products_stoich=[float(nu)],
                                             transition_state=ts, transition_state_stoich=[1.] if ts else None,
                                             beta=float(rng.uniform(0, 2))))
        else:
            k = int(rng.integers(0, n_sites))
            i = int(rng.integers(0, n_gas))
            occ = int(rng.integers(1, 4))
            ads_name = 'A%d(S%d)' % (i, k)
            if ads_name not in species:
                species[ads_name] = nasa(ads_name, 'S', {'H': 1, 'PT': occ}, sites[k], occ)
            occ = int(species[ads_name].n_sites)
            if kind == 'ads':
                reactions.append(ChemkinReaction(reactants=[species['A%d' % i], species['M%d(S)' % k]], reactants_stoich=[1., float(occ)],
                                                 products=[species[ads_name], species['M%d(B)' % k]], products_stoich=[1., float(occ)],
                                                 is_adsorption=True, sticking_coeff=float(rng.uniform(0.01, 1)),
                                                 beta=float(rng.uniform(0, 2))))
            else:
                ts = None
                if rng.random() < 0.6:
                    nts += 1
                    species['TSS%d' % nts] = nasa('TSS%d' % nts, 'S', {'H': 1, 'PT': occ}, sites[k], occ)
                    ts = [species['TSS%d' % nts]]
                reactions.append(ChemkinReaction(reactants=[species[ads_name], species['M%d(B)' % k]], reactants_stoich=[1., float(occ)],
                                                 products=[species['A%d' % i], species['M%d(S)' % k]], products_stoich=[1., float(occ)],
                                                 transition_state=ts, transition_state_stoich=[1.] if ts else None,
                                                 beta=float(rng.uniform(0, 2))))
    return list(species.values()), sites, Reactions(reactions=reactions)


def close(text, value, digits):
    try:
        v = float(text)
    except ValueError:
        return False
    if value == 0:
        return abs(v) < 10 ** -digits
    return abs(v - value) <= abs(value) * 0.5000001 * 10 ** -digits


def body(text):
    return [l for l in text.split('\n') if not l.startswith('!')]


def section(lines, start, stop='END'):
    i = lines.index(start) if start in lines else [k for k, l in enumerate(lines) if l.startswith(start)][0]
    j = i + 1
    while lines[j] != stop:
        j += 1
    return lines[i + 1:j]


fail_read, fail_num, fail_struct = [], [], []
n_read = n_num = n_struct = 0
for case in range(N):
    species, sites, rxns = mechanism()
    T = float(rng.uniform(300, 1500))
    act, ads_act = [('get_G_act', 'get_H_act'), ('get_H_act', 'get_H_act'), ('get_GoRT_act', 'get_HoRT_act')][int(rng.integers(0, 3))]
    digits = int(rng.integers(2, 6))
    ff = ' .%dE' % digits
    sd = ['+', ' + '][int(rng.integers(0, 2))]
    wit = {'seed': seed, 'case': case, 'T': T, 'act': act, 'float_format': ff, 'species_delimiter': sd}
    try:
        gas = ck.write_gas(nasa_species=species, reactions=rxns, T=T, act_method_name=act, float_format=ff, species_delimiter=sd)
        surf = ck.write_surf(reactions=rxns, T=T, act_method_name=act, ads_act_method=ads_act, float_format=ff, species_delimiter=sd,
                             sden_operation='min')
    except Exception as ex:
        fail_struct.append({'witness': wit, 'what': 'writer raised %s: %s' % (type(ex).__name__, str(ex)[:100]), 'key': 'writer-exception'})
        n_struct += 1
        continue
    gas_rx = [r for r in rxns if all(s.phase == 'G' for s in list(r.reactants) + list(r.products))]
    surf_rx = [r for r in rxns if r not in gas_rx]
    # (c) structure --------------------------------------------------------------------------------
    n_struct += 1
    gb, sb = body(gas), body(surf)
    try:
        els = section(gb, 'ELEMENTS')
        want = sorted({e for s in species for e in s.elements})
        if sorted(els) != want:
            fail_struct.append({'witness': wit, 'what': 'ELEMENTS section %r, mechanism has %r' % (els, want), 'key': 'elements'})
        gsp = section(gb, 'SPECIES')
        want = [s.name for s in species if s.phase == 'G']
        if gsp != want:
            fail_struct.append({'witness': wit, 'what': 'SPECIES section %r, gas species are %r' % (gsp, want), 'key': 'gas-species'})
        if len(section(gb, 'REACTIONS')) != len(gas_rx):
            fail_struct.append({'witness': wit, 'what': 'gas.inp has %d reaction lines for %d all-gas reactions'
                                % (len(section(gb, 'REACTIONS')), len(gas_rx)), 'key': 'gas-reaction-count'})
        srl = [l for l in section(sb, 'REACTIONS') if l != 'STICK']
        if len(srl) != len(surf_rx):
            fail_struct.append({'witness': wit, 'what': 'surf.inp has %d reaction lines for %d surface reactions' % (len(srl), len(surf_rx)),
                                'key': 'surf-reaction-count'})
        used = {s.name: s for r in rxns for s in list(r.reactants) + list(r.products)}
        for st in sites:
            ads = [s.name for s in used.values() if s.phase != 'G' and s.cat_site is st and s.name != st.bulk_specie]
            if not ads:
                continue
            head = [k for k, l in enumerate(sb) if l.startswith('SITE/%s/' % st.name)]
            if len(head) != 1:
                fail_struct.append({'witness': wit, 'what': 'site %s has %d SITE lines' % (st.name, len(head)), 'key': 'site-once'})
                continue
            k = head[0] + 2
            blk = []
            while sb[k] != '':
                blk.append(sb[k])
                k += 1
            want = sorted('  %s/%d/' % (s.name, int(s.n_sites)) for s in used.values()
                          if s.phase != 'G' and s.cat_site is st and s.name != st.bulk_specie)
            if sorted(blk) != want:
                fail_struct.append({'witness': wit, 'what': 'adsorbates of %s: %r, expected %r' % (st.name, blk, want), 'key': 'adsorbates'})
            sd_txt = sb[head[0]].split('SDEN/')[1].rstrip('/')
            if not close(sd_txt, st.site_density, 5):
                fail_struct.append({'witness': wit, 'what': 'site density printed %s, model %r' % (sd_txt, st.site_density), 'key': 'sden'})
            bl = [l for l in sb if l.startswith('BULK %s/' % st.bulk_specie)]
            if len(bl) != 1 or abs(float(bl[0].split('/')[1]) - st.density) > 0.0500001:
                fail_struct.append({'witness': wit, 'what': 'bulk line %r, density %r' % (bl, st.density), 'key': 'bulk'})
    except Exception as ex:
        fail_struct.append({'witness': wit, 'what': 'malformed file: %s: %s' % (type(ex).__name__, str(ex)[:100]), 'key': 'malformed'})
    # (b) numbers -------------------------------------------------------------------------------------
    for text, rs, kw in ((gas, gas_rx, dict(sden=None)), (surf, surf_rx, dict(sden='min'))):
        try:
            lines = [l for l in section(body(text), 'REACTIONS') if l != 'STICK']
        except Exception:
            continue
        for r, l in zip(rs, lines):
            n_num += 1
            cols = l.split()[-3:]
            if r.is_adsorption:
                A = r.sticking_coeff
                Ea = getattr(r, ads_act)(**(dict(units='kcal/mol', T=T) if 'oRT' not in ads_act else dict(T=T)))
            else:
                A = r.get_A(include_entropy=act not in ('get_G_act', 'get_GoRT_act'), sden_operation=kw['sden'], T=T)
                Ea = getattr(r, act)(**(dict(units='kcal/mol', T=T) if 'oRT' not in act else dict(T=T)))
            for nm, txt, val in (('A', cols[0], A), ('beta', cols[1], r.beta), ('Ea', cols[2], Ea)):
                if not close(txt, val, digits):
                    fail_num.append({'witness': dict(wit, line=l), 'what': '%s printed %s, model gives %r' % (nm, txt, float(val)), 'key': nm})
    # (a) read back -----------------------------------------------------------------------------------
    for text, rs in ((gas, gas_rx), (surf, surf_rx)):
        n_read += 1
        fd, path = tempfile.mkstemp(prefix='pvc_ck_', suffix='.inp')
        try:
            with os.fdopen(fd, 'w') as fh:
                fh.write(text)
            back = ck.read_reactions(path)
            want_r = [[s.name for s in r.reactants] for r in rs]
            want_p = [[s.name for s in r.products] for r in rs]
            want_rs = [[int(x) for x in r.reactants_stoich] for r in rs]
            want_ps = [[int(x) for x in r.products_stoich] for r in rs]
            if back[1] != want_r or back[2] != want_rs or back[3] != want_p or back[4] != want_ps:
                fail_read.append({'witness': wit, 'what': 'read back %r / %r / %r / %r, written %r / %r / %r / %r'
                                  % (back[1][:2], back[2][:2], back[3][:2], back[4][:2], want_r[:2], want_rs[:2], want_p[:2], want_ps[:2]),
                                  'key': 'readback'})
        except Exception as ex:
            fail_read.append({'witness': wit, 'what': 'reader raised %s: %s' % (type(ex).__name__, str(ex)[:100]), 'key': 'reader-exception'})
        finally:
            os.remove(path)
    # EA / T_flow / tube_mole ---------------------------------------------------------------------------
    n_runs = int(rng.integers(1, 9))
    conds = [{'T': float(rng.uniform(300, 1500)), 'P': float(rng.uniform(0.1, 20))} for _ in range(n_runs)]
    for gasfile, rs in ((True, gas_rx), (False, surf_rx)):
        n_num += 1
        try:
            ea = body(ck.write_EA(reactions=rxns, conditions=conds, write_gas_phase=gasfile, act_method_name='get_GoRT_act',
                                  ads_act_method='get_HoRT_act'))
            if int(ea[0].split()[0]) != len(rs) or len(ea) != len(rs) + 2 or ea[-1] != 'EOF':
                fail_struct.append({'witness': wit, 'what': 'EA file declares %s reactions, has %d rows, %d expected' % (ea[0].split()[0], len(ea) - 2, len(rs)),
                                    'key': 'ea-count'})
            for r, row in zip(rs, ea[1:-1]):
                vals = row.split()[-n_runs:]
                for cd, txt in zip(conds, vals):
                    v = r.get_HoRT_act(**cd) if r.is_adsorption else r.get_GoRT_act(**cd)
                    if not close(txt, v, 2):
                        fail_num.append({'witness': dict(wit, row=row), 'what': 'EA printed %s, model gives %r' % (txt, float(v)), 'key': 'EA'})
        except Exception as ex:
            fail_struct.append({'witness': wit, 'what': 'write_EA: %s: %s' % (type(ex).__name__, str(ex)[:100]), 'key': 'ea-exception'})
    Tl, Pl, Ql, al = [list(rng.uniform(lo, hi, n_runs)) for lo, hi in ((300, 1500), (0.1, 20), (1, 100), (10, 500))]
    n_num += 1
    try:
        tf = body(ck.write_T_flow(T=Tl, P=Pl, Q=Ql, abyv=al))
    except Exception as ex:
        fail_struct.append({'witness': wit, 'what': 'write_T_flow: %s: %s' % (type(ex).__name__, str(ex)[:100]), 'key': 'tflow-exception'})
        tf = ['EOF'] * (n_runs + 1)
    if len(tf) != n_runs + 1 or tf[-1] != 'EOF':
        fail_struct.append({'witness': wit, 'what': 'T_flow has %d rows for %d runs' % (len(tf) - 1, n_runs), 'key': 'tflow-count'})
    for i, row in enumerate(tf[:-1]):
        f = row.split()
        if not all(close(t, v, 3) for t, v in zip(f[:4], (Tl[i], Pl[i], Ql[i], al[i]))) or f[4] != '!%d' % (i + 1):
            fail_num.append({'witness': dict(wit, row=row), 'what': 'T_flow row %d does not carry T,P,Q,abyv,run#' % (i + 1), 'key': 'tflow'})
    named = [s for s in species if s.phase != 'B' and not s.name.startswith('TS') and rng.random() < 0.5]
    if named:
        mf = [{s.name: float(rng.uniform(0, 1)) for s in named if rng.random() < 0.7} for _ in range(n_runs)]
        listed = [s for s in species if any(s.name in m for m in mf)]
        if listed:
            n_num += 1
            try:
                tm = body(ck.write_tube_mole(mole_frac_conditions=mf, nasa_species=species))
            except Exception as ex:
                fail_struct.append({'witness': wit, 'what': 'write_tube_mole: %s: %s' % (type(ex).__name__, str(ex)[:100]),
                                    'key': 'tube-exception'})
                continue
            if int(tm[1].split()[0]) != len(listed) or len(tm) != len(listed) + 3:
                fail_struct.append({'witness': wit, 'what': 'tube_mole declares %s species, has %d rows, %d named' % (tm[1].split()[0], len(tm) - 3, len(listed)),
                                    'key': 'tube-count'})
            for s, row in zip(listed, tm[2:-1]):
                lab = "'%s/%s/'" % (s.name, 'GAS' if s.phase == 'G' else s.cat_site.name)
                vals = row[len(lab):].split()
                if not row.startswith(lab) or len(vals) != n_runs or \
                        any(abs(float(t) - m.get(s.name, 0.)) > 0.000500001 for t, m in zip(vals, mf)):
                    fail_num.append({'witness': dict(wit, row=row), 'what': 'tube_mole row does not carry the mole fractions of %s' % s.name, 'key': 'tube'})

out = [{'name': 'reader-gives-back-species-and-stoichiometry', 'scope': '%d random mechanisms (1-%d reactions, 1-3 sites), gas.inp and surf.inp, seeded'
        % (N, 11 if tier == 'quick' else 40), 'n': n_read, 'failures': fail_read[:20]},
       {'name': 'printed-numbers-equal-model-values', 'scope': 'A / sticking coefficient, beta, Ea, EA/RT, T/P/Q/abyv, mole fractions parsed from the text, '
        'to the printed precision', 'n': n_num, 'failures': fail_num[:20]},
       {'name': 'sections-counts-exactly-once', 'scope': 'ELEMENTS / SPECIES / SITE / BULK / REACTIONS sections and declared counts of the same files',
        'n': n_struct, 'failures': fail_struct[:20]}]
print(json.dumps({'bounded': out}))
