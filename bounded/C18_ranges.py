"""Bounded stand-in for C18 beyond the enumerated shapes of the deductive
check: larger identifier collections (0-60 ids, several prefixes, duplicates,
gaps) and longer token lists (0-80 tokens).  LABELLED BOUNDED."""
import json, os, random, re
seed = int(os.environ.get('VERIF_SEED', '0') or 0)
tier = os.environ.get('VERIF_TIER', 'quick')
rnd = random.Random(seed + 1818)
N = 150 if tier == 'quick' else 3000
from pmutt.cantera import _get_omkm_range
from pmutt.io.cantera import obj_to_cti

out = []
fails = []
n = 0


def denoted(items):
    s = set()
    for it in items:
        body = it.strip('"')
        if ' to ' in body:
            lo, hi = body.split(' to ')
        else:
            lo = hi = body
        i = lo.rfind('_')
        plo, slo = (lo[:i + 1], lo[i + 1:]) if i >= 0 else ('', lo)
        j = hi.rfind('_')
        phi, shi = (hi[:j + 1], hi[j + 1:]) if j >= 0 else ('', hi)
        if plo != phi or len(slo) != len(shi):
            return None
        for v in range(int(slo), int(shi) + 1):
            s.add(plo + str(v).zfill(len(slo)))
    return s


class O:
    pass


for case in range(N):
    k = rnd.randint(0, 60 if rnd.random() < 0.2 else 8)
    prefixes = rnd.sample(['r_', 'lat_int_', '', 'a_b_', '_', 'x_'], rnd.randint(1, 3))
    ids = []
    if case % 2:
        # dense collections: few distinct numbers drawn with replacement from a short span (duplicates around gaps), one width
        k = rnd.randint(2, 24)
        for p in prefixes:
            lo = rnd.randint(0, 40)
            span = rnd.randint(1, 8)
            pool = rnd.sample(range(lo, lo + span + 1), rnd.randint(1, min(span + 1, 5)))
            ids += [p + str(rnd.choice(pool)).zfill(4) for _ in range(rnd.randint(1, k))]
        rnd.shuffle(ids)
    else:
        for _ in range(k):
            p = rnd.choice(prefixes)
            v = rnd.choice([rnd.randint(0, 30), rnd.randint(0, 99999)])
            w = rnd.choice([4, 4, 4, 1, 2, 5, 0])
            ids.append(p + (str(v).zfill(w) if w else str(v)))
    objs = []
    for x in ids:
        r = rnd.random()
        if r < 0.6:
            objs.append(x)
        else:
            o = O()
            setattr(o, 'id' if r < 0.8 else 'name', x)
            objs.append(o)
    n += 1
    try:
        lst = _get_omkm_range(objs, format='list') if objs else []
        st = _get_omkm_range(objs, format='str')
    except (ValueError, TypeError):
        continue
    if not objs:
        if st != '[]':
            fails.append({'witness': {'ids': ids}, 'what': 'empty collection gives %r' % st})
        continue
    d = denoted(lst)
    if d is None or d != set(ids):
        fails.append({'witness': {'ids': ids[:12], 'n_ids': len(ids)},
                      'what': 'range items %r denote %s' % (lst[:6], 'a different set' if d is not None else 'malformed ranges')})
    if st != '[' + ', '.join(lst) + ']':
        fails.append({'witness': {'ids': ids[:12]}, 'what': 'str and list forms differ'})
out.append({'name': 'id-ranges-denote-the-same-set', 'scope': '%d seeded collections of 0-60 ids' % N, 'n': n, 'failures': fails[:10]})

fails = []
n = 0
alphabet = 'abcdefghijklmnopqrstuvwxyzABCDEFGHIJKLMNOPQRSTUVWXYZ0123456789_()*:-'
for case in range(N):
    nt = rnd.randint(0, 80 if rnd.random() < 0.3 else 10)
    toks = [''.join(rnd.choice(alphabet) for _ in range(rnd.randint(1, 30))) for _ in range(nt)]
    max_len = rnd.randint(30, 100)
    line_len = rnd.randint(30, max_len)
    n += 1
    res = obj_to_cti(toks, line_len=line_len, max_line_len=max_len)
    joined = ' '.join(toks)
    if not res.startswith('"""'):
        if res != '"%s"' % joined:
            fails.append({'witness': {'tokens': toks[:6], 'line_len': line_len}, 'what': 'single-line form altered the value'})
        continue
    indent = max_len - line_len + 3
    lines = res.split('\n')
    got = []
    for k, line in enumerate(lines):
        body = line[3:] if k == 0 else line[indent:]
        got.extend(body.split(' '))
        limit = line_len if k == 0 else max_len
        if len(line) > limit and ' ' in body:
            fails.append({'witness': {'tokens': toks[:6], 'line_len': line_len, 'max_line_len': max_len},
                          'what': 'line %d has %d > %d characters and more than one token' % (k, len(line), limit)})
            break
    if got != toks + ['"""']:
        fails.append({'witness': {'tokens': toks[:6], 'line_len': line_len, 'max_line_len': max_len},
                      'what': 'tokens not preserved in order'})
out.append({'name': 'cti-wrap-preserves-tokens', 'scope': '%d seeded token lists of 0-80 tokens, widths 30-100' % N, 'n': n, 'failures': fails[:10]})
print(json.dumps({'bounded': out}))
