"""Bounded stand-in for the energy span evaluated through the reaction network (pmutt/reaction/network.py): the graph
library (networkx) is outside the modelled subset, so the clause "span of a pathway = highest state Gibbs energy minus
the lowest (+ the overall change when the highest comes first), over the reactions' own states" is checked on seeded
random pathways with multi-species states written in any order with unequal coefficients.  LABELLED BOUNDED."""
import json, os, warnings
import numpy as np
seed = int(os.environ.get('VERIF_SEED', '0') or 0)
tier = os.environ.get('VERIF_TIER', 'quick')
rng = np.random.default_rng(seed + 1919)
N = 25 if tier == 'quick' else 400
from pmutt.statmech import StatMech
from pmutt.statmech.elec import GroundStateElec
from pmutt.reaction import Reaction, Reactions
from pmutt.reaction.network import Network, state_to_set


def span(G):
    G = list(G)
    i_max, i_min = int(np.argmax(G)), int(np.argmin(G))
    v = G[i_max] - G[i_min]
    if i_max < i_min:
        v += G[-1] - G[0]
    return v


fails = []
n = 0
NAMES = ['Zeta', 'Alpha', 'Mu', 'Beta', 'Omega', 'Gamma', 'Kappa', 'Delta']
for case in range(N):
    try:
        sp = {nm: StatMech(name=nm, elec_model=GroundStateElec, potentialenergy=float(rng.uniform(-30, -1)), spin=0.) for nm in NAMES}
        n_steps = int(rng.integers(1, 5))
        # states of the pathway: 1-3 species each, in random (not alphabetical) order, with unequal coefficients
        states = []
        for k in range(n_steps + 1):
            m = int(rng.integers(1, 4))
            names = list(rng.choice(NAMES[:6], size=m, replace=False))
            coef = [float(rng.choice([0.5, 1., 2., 3.])) for _ in names]
            if (names, coef) in states:
                continue
            states.append((names, coef))
        if len(states) < 2:
            continue
        rxns = []
        path_defs = []
        for k in range(len(states) - 1):
            (rn, rc), (pn, pc) = states[k], states[k + 1]
            ts_name = NAMES[6 + (k % 2)]
            with_ts = bool(rng.integers(0, 2))
            r = Reaction(reactants=[sp[x] for x in rn], reactants_stoich=list(rc), products=[sp[x] for x in pn], products_stoich=list(pc),
                         transition_state=[sp[ts_name], sp[rn[0]]] if with_ts else None,
                         transition_state_stoich=[1., 2.] if with_ts else None)
            rxns.append(r)
            if k == 0:
                path_defs.append((r, 'reactants'))
            if with_ts:
                path_defs.append((r, 'transition state'))
            path_defs.append((r, 'products'))
        n += 1
        T = float(rng.uniform(300, 1200))
        net = Network(reactions=rxns)
        path = []
        for r, st in path_defs:
            lst, sto = r._parse_state(st)
            path.append(state_to_set(lst, sto))
        if len(set(path)) != len(path):
            continue
        for units in (None, 'eV', 'kJ/mol'):
            if units is None:
                want = span([r.get_GoRT_state(state=st, T=T) for r, st in path_defs])
                got = net.get_E_span(path=path, T=T)
            else:
                want = span([r.get_G_state(state=st, units=units, T=T) for r, st in path_defs])
                got = net.get_E_span(path=path, units=units, T=T)
            if abs(got - want) > 1e-8 * max(1., abs(want)):
                fails.append({'witness': {'seed': seed, 'case': case, 'states': [[list(map(str, a)), b] for a, b in states], 'units': units},
                              'what': 'Network.get_E_span %r differs from the span of the reactions\' own state energies %r' % (float(got), float(want))})
                break
    except Exception as e:
        fails.append({'witness': {'seed': seed, 'case': case}, 'what': 'exception %s: %s' % (type(e).__name__, str(e)[:120])})
print(json.dumps({'bounded': [{'name': 'network-energy-span-uses-the-reactions-own-states',
                               'scope': '%d seeded pathways of 1-4 steps, states of 1-3 species in any order with coefficients 0.5-3, '
                                        'with and without transition states, dimensionless and two unit systems' % n,
                               'n': n, 'failures': fails[:10]}]}))
