#!/usr/bin/env python3
"""Audit of the bounded stand-in: run every contract of every property as if the code had left the modelled subset
(PVC_STANDIN_ONLY=1: no symbolic execution, only the native samples of the precondition domain) on the current tree.
On a tree where the properties hold the stand-in must report nothing; anything it reports here is a contract whose
precondition is too weak for native execution, a numerically delicate clause, or a genuine defect.
usage: standin_audit.py [regex] [--seeds 0,1,2] [--tier quick]"""
import json, os, re, subprocess, sys
ROOT = os.path.dirname(os.path.dirname(os.path.abspath(__file__)))
pat = sys.argv[1] if len(sys.argv) > 1 and not sys.argv[1].startswith('--') else '.'
seeds = [int(x) for x in (sys.argv[sys.argv.index('--seeds') + 1].split(',') if '--seeds' in sys.argv else '0,1,2'.split(','))]
tier = sys.argv[sys.argv.index('--tier') + 1] if '--tier' in sys.argv else 'quick'
bad = 0
for c in json.load(open(os.path.join(ROOT, 'MANIFEST.json')))['checks']:
    pid = c['property_id']
    if not re.search(pat, pid):
        continue
    for sd in seeds:
        env = dict(os.environ, PVC_STANDIN_ONLY='1', VERIF_SEED=str(sd))
        r = subprocess.run([os.path.join(ROOT, 'check'), pid, '--no-evidence', '--no-bounded', '--tier', tier],
                           capture_output=True, text=True, env=env)
        lines = [l for l in r.stdout.splitlines() if l.startswith('VIOLATION') or l.startswith('  obligation') or 'ERROR' in l]
        summ = [l for l in r.stdout.splitlines() if l.startswith(pid + ' tier=')]
        print('%s seed=%d rc=%d %s' % (pid, sd, r.returncode, summ[-1] if summ else r.stderr[-200:]), flush=True)
        for l in lines:
            print('   ' + l[:400], flush=True)
            bad += l.startswith('VIOLATION')
print('stand-in reports on this tree:', bad)
