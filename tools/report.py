#!/usr/bin/env python3
"""Markdown tables for DESIGN.md: seeded changes (tools/seeded.py run) and the text-mutation catalogue (tools/mutants.py)."""
import json, os, re, sys
ROOT = os.path.dirname(os.path.dirname(os.path.abspath(__file__)))
lr = json.load(open(os.path.join(ROOT, 'seeded', 'last_run.json')))
print('| case | changed function(s) | what the change does | caught by (first reported obligation / bounded check) |')
print('|---|---|---|---|')
for case in sorted(lr):
    m = json.load(open(os.path.join(ROOT, 'seeded', case, 'meta.json')))
    info = lr[case]['info']
    ob = ''
    if 'replay=' in info:
        ob = info.split('replay=')[1].split('/')[-1].replace('.json', '')
        ob = ob[len(case.split('_')[0]) + 1:]
    fn = ', '.join(m.get('functions', []))
    fn = re.sub(r'pmutt\.[a-z_.]*\.', '', fn)
    desc = (m.get('trigger') or m.get('description') or '').replace('\n', ' ').replace('|', '/')
    print('| %s | `%s` | %s | %s `%s` |' % (case, fn[:70], desc[:170], lr[case]['status'], ob[:110]))
