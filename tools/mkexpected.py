#!/usr/bin/env python3
"""Regenerates expected_obligations.json: the obligations that are discharged on the pinned (repaired) tree.  A
solver-refuted obligation of this list whose clause can no longer be executed natively is reported as a violation with
`no-failing-input-found` (DESIGN 2.4)."""
import json, os, subprocess, tempfile
ROOT = os.path.dirname(os.path.dirname(os.path.abspath(__file__)))
out = {}
for c in json.load(open(os.path.join(ROOT, 'MANIFEST.json')))['checks']:
    pid = c['property_id']
    fd, tmp = tempfile.mkstemp(suffix='.json')
    os.close(fd)
    subprocess.run([os.path.join(ROOT, 'check'), pid, '--no-evidence', '--no-bounded', '--dump-obligations', tmp], capture_output=True)
    out[pid] = sorted(n for n, st in json.load(open(tmp)) if st == 'discharged')
    os.remove(tmp)
    print(pid, len(out[pid]))
json.dump(out, open(os.path.join(ROOT, 'expected_obligations.json'), 'w'), indent=0)
