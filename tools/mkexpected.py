#!/usr/bin/env python3
"""Regenerates expected_obligations.json: per tier and property, the names of the obligations that the pinned (repaired)
tree generates, without the ones whose presence depends on the shape of the code rather than on the contract
(`:after-another-call:` variants are skipped above a path budget; `div-safe` exists only where the code divides).
Uses: (1) vacuity guard - a run that lacks one of these obligations (and does not report its contract as outside the
modelled subset) exits 2 with a MISSING line; (2) DESIGN 2.4 - a solver-refuted obligation of this list whose clause can no
longer be executed natively is reported as a violation with `no-failing-input-found`.
usage: mkexpected.py [quick|thorough ...]"""
import json, os, subprocess, sys, tempfile
ROOT = os.path.dirname(os.path.dirname(os.path.abspath(__file__)))
path = os.path.join(ROOT, 'expected_obligations.json')
tiers = sys.argv[1:] or ['quick', 'thorough']
try:
    out = json.load(open(path))
    if 'quick' not in out and 'thorough' not in out:
        out = {}
except Exception:
    out = {}
for tier in tiers:
    out[tier] = {}
    for c in json.load(open(os.path.join(ROOT, 'MANIFEST.json')))['checks']:
        pid = c['property_id']
        fd, tmp = tempfile.mkstemp(suffix='.json')
        os.close(fd)
        r = subprocess.run([os.path.join(ROOT, 'check'), pid, '--tier', tier, '--no-evidence', '--no-bounded', '--dump-obligations', tmp],
                           capture_output=True, text=True)
        summ = [l for l in r.stdout.splitlines() if l.startswith(pid + ' tier=')]
        print('rc=%d %s' % (r.returncode, summ[-1] if summ else r.stderr[-200:]), flush=True)
        names = [n for n, st in json.load(open(tmp)) if ':after-another-call:' not in n and not n.endswith(':div-safe')
                 and ':div-safe:' not in n and not n.endswith(':reach') and st in ('discharged', 'violation', 'violation-noinput')]
        out[tier][pid] = sorted(set(names))
        os.remove(tmp)
        print(tier, pid, len(out[tier][pid]), flush=True)
json.dump(out, open(path, 'w'), indent=0)
