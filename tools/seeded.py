#!/usr/bin/env python3
"""Seeded property-breaking changes (written by independent sub-agents that saw
only the property text): confirm each one on a scratch copy of /repo (patch
applies, demonstration exits 1 with it and 0 without, pinned tests unchanged)
and run the registered check against the changed copy.

usage: seeded.py import <dir-with-CXX_i>   copy new cases into /verif/seeded
       seeded.py run [regex] [--jobs N]     confirm + check, print a table
The scratch copies live under $TMPDIR and are removed after each case."""
import json, os, re, shutil, subprocess, sys, tempfile
from concurrent.futures import ThreadPoolExecutor
HERE = os.path.dirname(os.path.abspath(__file__))
SEEDED = os.path.join(HERE, '..', 'seeded')
PY = '/venv/bin/python'


def sh(cmd, cwd=None, env=None, timeout=3600):
    return subprocess.run(cmd, cwd=cwd, env=env, capture_output=True, text=True, timeout=timeout)


def tests(S):
    r = sh([PY, '-m', 'pytest', '-q', '-p', 'no:cacheprovider', '-x', '--deselect',
            'pmutt/tests/input_output/test_pmutt_io_gaussian.py', 'pmutt/tests'], cwd=S)
    tail = r.stdout.strip().splitlines()[-1] if r.stdout.strip() else r.stderr[-100:]
    return tail


def run(case):
    d = os.path.join(SEEDED, case)
    prop = case.split('_')[0]
    if prop.startswith('H'):
        return run_harmless(case)
    S = tempfile.mkdtemp(prefix='pvc_seed_')
    try:
        sh(['rsync', '-a', '--exclude', '.git', '--exclude', 'docs', '--exclude', '__pycache__', '/repo/', S + '/'])
        demo = os.path.join(d, 'demo.py')
        clean = sh([PY, demo], cwd=S).returncode
        a = sh(['git', 'apply', '--unsafe-paths', '--directory', S, os.path.join(d, 'patch.diff')], cwd='/')
        if a.returncode:
            a = sh(['patch', '-p1', '-i', os.path.join(d, 'patch.diff')], cwd=S)
            if a.returncode:
                return case, 'patch-failed', a.stderr[-200:] + a.stdout[-200:]
        mut = sh([PY, demo], cwd=S).returncode
        t = tests(S)
        env = dict(os.environ, PVC_REPO=S, PVC_JOBS='4')
        r = sh([os.path.join(HERE, '..', 'check'), prop, '--no-evidence'], env=env)
        v = [l for l in r.stdout.splitlines() if l.startswith('VIOLATION')]
        st = 'caught' if r.returncode == 1 and v else 'MISSED(exit %d)' % r.returncode
        info = v[0] if v else (r.stdout.strip().splitlines() or [r.stderr[-200:]])[-1]
        return case, st, 'demo %d->%d tests[%s] %s' % (clean, mut, t, info)
    finally:
        shutil.rmtree(S, ignore_errors=True)


def run_harmless(case):
    """behaviour-preserving refactoring: the check must stay silent (exit 0, no VIOLATION)"""
    d = os.path.join(SEEDED, case)
    prop = 'C' + case[1:3]
    S = tempfile.mkdtemp(prefix='pvc_seed_')
    try:
        sh(['rsync', '-a', '--exclude', '.git', '--exclude', 'docs', '--exclude', '__pycache__', '/repo/', S + '/'])
        a = sh(['git', 'apply', '--unsafe-paths', '--directory', S, os.path.join(d, 'patch.diff')], cwd='/')
        if a.returncode:
            a = sh(['patch', '-p1', '-i', os.path.join(d, 'patch.diff')], cwd=S)
            if a.returncode:
                return case, 'patch-failed', a.stderr[-200:] + a.stdout[-200:]
        t = tests(S)
        env = dict(os.environ, PVC_REPO=S, PVC_JOBS='4')
        r = sh([os.path.join(HERE, '..', 'check'), prop, '--no-evidence'], env=env)
        v = [l for l in r.stdout.splitlines() if l.startswith('VIOLATION')]
        st = 'silent' if r.returncode == 0 and not v else ('FALSE-ALARM' if v else 'NOT-SILENT(exit %d)' % r.returncode)
        info = v[0] if v else (r.stdout.strip().splitlines() or [r.stderr[-200:]])[-1]
        extra = [l for l in r.stdout.splitlines() if 'UNDECIDED' in l or 'NOT-PROVED' in l or 'ERROR' in l]
        return case, st, 'tests[%s] %s %s' % (t, info, ' | '.join(x.strip()[:160] for x in extra[:3]))
    finally:
        shutil.rmtree(S, ignore_errors=True)


def main():
    if sys.argv[1] == 'import':
        src = sys.argv[2]
        for n in sorted(os.listdir(src)):
            if re.fullmatch(r'[CH]\d\d_\d+', n) and os.path.exists(os.path.join(src, n, 'patch.diff')):
                dst = os.path.join(SEEDED, n)
                if not os.path.exists(dst):
                    shutil.copytree(os.path.join(src, n), dst)
                    print('imported', n)
        return
    pat = sys.argv[2] if len(sys.argv) > 2 and not sys.argv[2].startswith('--') else '.'
    jobs = int(sys.argv[sys.argv.index('--jobs') + 1]) if '--jobs' in sys.argv else 3
    cases = [c for c in sorted(os.listdir(SEEDED)) if re.search(pat, c) and os.path.isdir(os.path.join(SEEDED, c))]
    out = {}
    with ThreadPoolExecutor(jobs) as ex:
        for case, st, info in ex.map(run, cases):
            print('%-18s %-8s %s' % (st, case, info[:230]), flush=True)
            out[case] = {'status': st, 'info': info}
    # merge into the record of earlier runs (a partial run updates only its own cases)
    path = os.path.join(SEEDED, 'last_run.json')
    try:
        allres = json.load(open(path))
    except Exception:
        allres = {}
    allres.update(out)
    json.dump({k: allres[k] for k in sorted(allres)}, open(path, 'w'), indent=1)


if __name__ == '__main__':
    main()
