#!/bin/sh
# run every registered quick (or $1=thorough) check on /repo, one summary line each
cd "$(dirname "$0")/.."
tier=${1:-quick}
for id in $(python3 -c "import json;print(' '.join(c['property_id'] for c in json.load(open('MANIFEST.json'))['checks']))"); do
  out=$(./check $id --tier $tier 2>&1); rc=$?
  echo "rc=$rc $(echo "$out" | grep -E "^$id tier=" | tail -1)"
  echo "$out" | grep -E "VIOLATION|UNDECIDED|ERROR|NOT-PROVED" | cut -c1-220 | head -5
done
