#!/usr/bin/env python3
"""Apply one textual replacement to a scratch copy of /repo (outside /repo
and /verif), run ./check <prop> on it, delete the copy.
usage: try_mutant.py <prop>[,<prop>..] <relative file> <old> <new> [--tests]"""
import os, shutil, subprocess, sys, tempfile
props, rel, old, new = sys.argv[1:5]
S = tempfile.mkdtemp(prefix='pvc_mut_')
try:
    subprocess.run(['rsync', '-a', '--exclude', '.git', '--exclude', 'docs',
                    '/repo/', S + '/'], check=True)
    p = os.path.join(S, rel)
    s = open(p).read()
    if s.count(old) < 1:
        print('pattern not found'); sys.exit(2)
    open(p, 'w').write(s.replace(old, new, 1))
    env = dict(os.environ, PVC_REPO=S)
    for prop in props.split(','):
        r = subprocess.run(['/verif/check', prop] + [a for a in sys.argv[5:] if a != '--tests'],
                           env=env, capture_output=True, text=True)
        print('\n'.join(r.stdout.strip().splitlines()[-6:]))
        print('exit', r.returncode)
    if '--tests' in sys.argv:
        r = subprocess.run('cd %s && /venv/bin/python -m pytest -q -p no:cacheprovider -x -q 2>&1 | tail -3' % S,
                           shell=True, capture_output=True, text=True)
        print(r.stdout)
finally:
    shutil.rmtree(S, ignore_errors=True)
