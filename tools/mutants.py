#!/usr/bin/env python3
"""Mutation self-test: applies each property-breaking edit of the catalogue
to a scratch copy of /repo (under $TMPDIR, outside /repo and /verif), runs
./check <prop> on it and deletes the copy.  Reports killed / survived.
usage: mutants.py [prop-regex] [--jobs N]"""
import json, os, re, shutil, subprocess, sys, tempfile
from concurrent.futures import ThreadPoolExecutor
HERE = os.path.dirname(os.path.abspath(__file__))
CAT = json.load(open(os.path.join(HERE, 'mutants.json')))


def run(m):
    S = tempfile.mkdtemp(prefix='pvc_mut_')
    try:
        subprocess.run(['rsync', '-a', '--exclude', '.git', '--exclude', 'docs',
                        '--exclude', '__pycache__', '/repo/', S + '/'], check=True)
        p = os.path.join(S, m['file'])
        s = open(p).read()
        if s.count(m['old']) < 1:
            return m, 'pattern-not-found', ''
        open(p, 'w').write(s.replace(m['old'], m['new'], 1))
        env = dict(os.environ, PVC_REPO=S, PVC_JOBS='4')
        r = subprocess.run([os.path.join(HERE, '..', 'check'), m['prop'], '--no-evidence'],
                           env=env, capture_output=True, text=True)
        v = [l for l in r.stdout.splitlines() if l.startswith('VIOLATION')]
        return m, ('killed' if r.returncode == 1 and v else 'SURVIVED(exit %d)' % r.returncode), \
            (v[0] if v else r.stdout.strip().splitlines()[-1] if r.stdout.strip() else r.stderr[-200:])
    finally:
        shutil.rmtree(S, ignore_errors=True)


def main():
    pat = sys.argv[1] if len(sys.argv) > 1 and not sys.argv[1].startswith('--') else '.'
    jobs = 4
    if '--jobs' in sys.argv:
        jobs = int(sys.argv[sys.argv.index('--jobs') + 1])
    ms = [m for m in CAT if re.search(pat, m['prop'] + ':' + m['name'])]
    killed = 0
    with ThreadPoolExecutor(jobs) as ex:
        for m, st, info in ex.map(run, ms):
            print('%-10s %-5s %-45s %s' % (st, m['prop'], m['name'], info[:110]))
            killed += st == 'killed'
    print('killed %d / %d' % (killed, len(ms)))


if __name__ == '__main__':
    main()
