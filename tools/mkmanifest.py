#!/usr/bin/env python3
"""Regenerates MANIFEST.json from the table below (kept valid at all times)."""
import json, os
ROOT = os.path.dirname(os.path.dirname(os.path.abspath(__file__)))
props = [json.loads(l) for l in open(os.path.join(ROOT, 'properties.jsonl'))]
TECH = ('contract-based deductive verification: sidecar contracts on the real '
        'functions, VCs generated from the current source AST by pvc and '
        'discharged by a solver portfolio (z3 5.1 in process, z3 4.8.12 and cvc5 1.0.3 on the SMT-LIB dump), '
        'counterexamples replayed natively; shared helpers are under contract in every property that '
        'depends on them (contracts/helpers.py); code outside the modelled subset is checked by a labelled '
        'bounded native stand-in, never counted as proved')
BASE_NOTE = ('floats = mathematical reals, ints unbounded; pvc AST-to-term '
             'translation (cross-checked against CPython every run); unsat of z3 5.1, z3 4.8.12 or cvc5 1.0.3 trusted; '
             'assumed contracts of external numerical routines as listed in the '
             'evidence file trusted_base')
BUILT = {
 'C02': dict(level='proof', sec='4/C02',
   text='Every evaluator of pmutt.empirical.nasa/shomate is proved equal to its '
        'textbook polynomial for all coefficients and all T>0; dH/dT=Cp, '
        'T dS/dT=Cp and G=H-TS are proved as lemmas over those polynomials '
        '(structural derivative, QF_NRA); segment selection (NASA-7 break '
        'temperature, NASA-9 1-4 segments incl. refusal outside every segment) '
        'and array-equals-map-of-scalar are proved per path for array shapes '
        '1-3 with symbolic entries.',
   note=BASE_NOTE + '; array lengths enumerated 1-3 (values symbolic)'),
 'C20': dict(level='proof', sec='4/C20',
   text='Ideal gas: every solve-for is proved to satisfy PV=nRT and each of the 12 back-substitutions '
        'returns the original state for all positive states; van der Waals: get_P/get_T are proved to be the '
        'vdW equation, the coefficient list handed to np.roots is proved to be the vdW cubic (every real root, '
        'hence the selected one, satisfies get_P/get_T round trips), V = n Vm, the low-density bound '
        '|P_vdW - P_ig| Vm^2 <= 2RTb + a, critical constants and from_critical round trips.',
   note=BASE_NOTE + '; np.roots returns all complex roots (assumed contract); which real root is '
        'selected (max/min) is covered by a labelled bounded check only'),
 'C12': dict(level='proof', sec='4/C12',
   text='Generated from the live dict literals: for every ordered pair of units of one quantity type and symbolic num, '
        'inverse/reflexive/proportional (affine for temperatures) and transitivity through every third unit; every '
        'cross-type pair refused; definition relations (area/volume powers, L atm, per-mol families, R, kB, h, c, P0, T0, '
        'V0, m_e, m_p, R = kB NA) with a tolerance derived from the significant digits of the literals; spectroscopic '
        'helpers mutually inverse and triangle-consistent; element tables agree by symbol and atomic number; molar mass '
        'is the count-weighted sum.',
   note=BASE_NOTE + '; tolerance rule for definition checks: 1.5 x sum of half-units-in-the-last-place of the literals, floor 1e-7'),
 'C17': dict(level='proof', sec='4/C17',
   text='Class invariant WF (equal lengths, ascending breakpoints starting at 0, zero first intercept, continuity at every '
        'breakpoint) is established by the constructor/_set_intercepts/from_dict and preserved by insert and pop for an '
        'ARBITRARY well-formed receiver, so it holds after any edit history; insert/pop postconditions are over the whole '
        'view (all other pairs preserved in order); get_UoRT x R T is proved equal to the unique continuous piecewise-linear '
        'function of the lists (T-independent); S, Cp, Cv contributions are 0; WF determines the intercepts.',
   note=BASE_NOTE + '; list lengths enumerated 1-5 (quick) / 1-12 (thorough), all values symbolic; np.argmax modelled as first-true index'),
 'C13': dict(level='proof', sec='4/C13',
   text='Constructor invariant over phase x attached-model shapes x add_gas_P_adj: exactly one GasPressureAdj for gas species, '
        'none added otherwise, other models preserved in order; _get_mix_quantity returns one entry per model in order; '
        'Nasa/Nasa9/Shomate getters = bare polynomial + sum of every attached model (scalar and array T); '
        'S(P) - S(1 bar) = -ln P, G accordingly, H and Cp unaffected; to_dict/from_dict cycles keep exactly one adjustment.',
   note=BASE_NOTE + '; attached-model lists enumerated up to length 2 (quick) / 4 (thorough) over {pressure adjustment object, its dict form, coverage effect}'),
 'C01': dict(level='proof', sec='4/C01',
   text='Every mode getter is proved equal to its textbook expression (harmonic oscillator and quasi-RRHO for ANY number of modes '
        'via symbolic-length arrays and the map loop rule; Einstein; Debye with quad = integral; rigid rotor; Sackur-Tetrode; '
        'ground-state degeneracy); G=H-TS, F=U-TS, dU/dT=Cv, dH/dT=Cp, T dS/dT=Cp, S(P2)-S(P1)=-ln(P2/P1), H-U=RT or 0 are proved '
        'per mode and for an assembled species (structural derivative, exp/log atoms with exact relations); cached valid '
        'wavenumbers/temperatures and spin degeneracy invariants; keyword routing; species total = sum/product of verbose entries.',
   note=BASE_NOTE + '; scipy.integrate.quad is the integral; FTC/Leibniz; limits at 0+ of the two Debye by-parts boundary terms trusted; '
        'geometry-derived parameters (ASE) only by a labelled bounded check; one known finding (Debye F integrand)'),
 'C04': dict(level='proof', sec='4/C04',
   text='_get_R_adj/_get_mass_unit over every key of the live R table and every per-mass variant; every dimensional wrapper '
        '(mode objects via _ModelBase, StatMech incl. get_E, Nasa, Nasa9, Shomate, Reaction state/delta/activation/E_act forms) is '
        'proved equal to its dimensionless twin called with the SAME conditions and options (P, x, S_elements, rev, act, per-species '
        'blocks, raise_error/raise_warning) times R [times T] in the requested unit.',
   note=BASE_NOTE + '; keyword sets enumerated (P, x, S_elements, rev, act, raise flags, one per-species block) rather than a symbolic remainder; '
        'reaction species are abstract stubs (unknown pure functions of their keyword arguments)'),
 'C08': dict(level='proof', sec='4/C08',
   text='For abstract species (getters = unknown pure functions of the keywords they receive) and symbolic real stoichiometry: every '
        'state value is the stoichiometry-weighted sum (product of powers for q) with each species evaluated at the shared conditions '
        'overridden by its own block; every delta is final minus initial (ratio for q) for all (rev, act); lemmas: reversal, '
        'forward-minus-reverse activation = reaction change, q ratios, Keq = exp(-dG/RT), Kf*Kr = 1, locality of per-species blocks; '
        'caller-supplied blocks are unmodified. Reaction and ChemkinReaction.',
   note=BASE_NOTE + '; shapes (reactants, products, TS) enumerated: (1,1,0),(2,1,1),(2,2,1) quick; exp/log laws'),
 'C09': dict(level='proof', sec='4/C09',
   text='Clamped activation enthalpy/Gibbs energy of ChemkinReaction and SurfaceReaction: >= 0, >= barrier through the TS, >= reaction '
        'change, equal to one of them, in both directions; dimensional twins use the same direction; BEP: adjusted slope for 8 descriptors x '
        '2 directions, descriptor values, forward - reverse barrier = reaction enthalpy/energy for delta descriptors, TS-enthalpy route = '
        'relation route, U and H offsets use the same barrier; pre-exponential factors: (kT/h)exp(dS+m), q route, positivity, kB/h per unit '
        'temperature without TS, site-density power (n_surf - 1) for sum/min/max/mean.',
   note=BASE_NOTE + '; integer surface stoichiometries 1-3 enumerated; abstract species stubs'),
 'C19': dict(level='proof', sec='4/C19',
   text='For abstract formation reactions (get_delta_GoRT an unknown pure function of the conditions): every table entry equals the '
        'reaction value / norm factor (x R T with units); the reported stable phase at every grid point has the lowest tabulated energy, '
        'for 1-D and 2-D scans, and the two agree; Reactions.get_E_span equals highest - lowest state energy plus the overall reaction '
        'energy when the highest state precedes the lowest.',
   note=BASE_NOTE + '; shapes enumerated (1-3 reactions x 1-3 grid values per axis; 1-3 step sequences); np.nanargmin/argmin/argmax first-best semantics; '
        'the energy span evaluated through the network graph (networkx, outside the modelled subset) only by a labelled bounded script'),
 'C10': dict(level='proof', sec='4/C10',
   text='get_descriptors / get_descriptors_matrix build the composition matrix; fit_HoRT_offset hands lstsq exactly that matrix and '
        'HoRT_dft - HoRT_exp, so (with the normal equations as the assumed lstsq contract) the residual is orthogonal to the composition '
        'matrix, and for uniquely determined offsets and equal reference temperatures every reference enthalpy is reproduced; get_HoRT is '
        'linear in composition, T-independent in energy units, warns on unknown descriptors; S/Cp/Cv/U contributions are 0; in StatMech the '
        'adjustment is added to H and G only and disappears exactly with use_references=False.',
   note=BASE_NOTE + '; numpy.linalg.lstsq satisfies the normal equations (assumed contract); reference-set shapes enumerated (1-3 references, 1-2 descriptors)'),
 'C03': dict(level='proof', sec='4/C03',
   text='With np.polyfit / curve_fit results treated as ARBITRARY reals: _fit_HoRT/_fit_SoR anchor the segment containing T_ref and join at '
        'T_mid (both branches); Nasa.from_data (T_mid None / scalar / list; T_ref anywhere): bounds span the data, break strictly inside, '
        'H and S anchored and continuous; NASA-9 integration constants for 1-3 intervals (anchor in the interval containing T_ref, continuity '
        'at every break) and Nasa9.from_data end to end incl. zero-Cp data; Shomate.from_data anchors for every fitting unit. '
        'Reproduction of polynomial sources and tracking of StatMech sources: bounded native check only.',
   note=BASE_NOTE + '; least-squares optimality of polyfit/curve_fit is an assumed library contract; fit quality is a labelled bounded check, never counted as proved; temperature grids concrete, data symbolic'),
 'C18': dict(level='proof', sec='4/C18',
   text='Identifiers are structured strings (literal prefix + decimal text of a SYMBOLIC integer in a field of given width): for every '
        'prefix mix the range items denote exactly the given ids (each covered verbatim with prefix and suffix width, nothing added), str '
        'and list forms agree, ids the 4-digit notation cannot reproduce are rejected; obj_to_cti with tokens of SYMBOLIC length: single-line '
        'form when short, otherwise tokens preserved in order and no line longer than its limit unless it holds a single token.',
   note=BASE_NOTE + '; exact structured-string domain (pvc/sstr.py) instead of an SMT string theory; number of ids 1-3(4) and of tokens 1-4 enumerated '
        '(integers / token lengths symbolic); larger collections by a labelled bounded check; more_itertools.consecutive_groups re-implemented from its documentation'),
 'C14': dict(level='other', sec='4/C14',
   text='Deductive (structured strings: species names are unknown words of symbolic length, coefficients symbolic reals): printing 1-3 '
        'species and parsing the text back gives the same names in order and coefficients within the printed precision for the delimiters '
        '+, " + ", >> and formats .2f/.4f; integer / omitted / repeated coefficients merge by summation; transition state iff three states; '
        'missing species raise KeyError (or warn); the balance check raises exactly when the element totals differ (with and without TS); '
        'formulas with repeats parse to summed counts. Bounded (labelled): full to_string/from_string round trips over the whole alphabet, '
        'more delimiters and whitespace, random formulas, brute-force balance comparison.',
   note=BASE_NOTE + '; structured-string domain re-implements str.split/strip and the regex ^\\d+\\.?\\d* on its pieces; np.isclose and %.Nf rounding axiomatised'),
 'C05': dict(level='other', sec='4/C05',
   text='Deductive (structured strings; names and element symbols are unknown words, counts / temperatures / coefficients symbolic numbers in '
        'printed form): records 2-4 are 80 columns + newline with the record number in column 80, are classified as their record (never as a '
        'temperature header) for every sign pattern, and every 15-column field reads back to 9 significant digits; record 1 layout (name first, '
        'phase in column 45) and read-back of name, phase, composition (1-4 elements, 1-2 letter symbols, 1-3 digit counts) and temperatures '
        'to 0.05 K per shape; whole files of 1-2 species written by write_thermdat read back to the same species in order for names that may '
        'contain THERMO / END, with and without a comment block, in list / tuple / dict form. Bounded (labelled): files of 1-30 random species.',
   note=BASE_NOTE + "; number formatting/parsing axiomatised ('{: 2.8E}', '%.1f', '%d', float, int); whole-file contracts explore non-negative coefficients (all sign patterns are covered per record)"),
 'C16': dict(level='other', sec='4/C16',
   text='Deductive: the objective is the ideal-gas mixture Gibbs energy sum x_i (g_i + ln(x_i p / sum x)) and _objective_jac is its exact gradient '
        '(structural derivative, n = 2-4 symbolic species); the constraint function is x.A - feed.A with A the element matrix built by __init__ '
        '(incl. single-element networks) and its Jacobian A^T; get_net_comp passes the Gibbs energies at T, the pressure in bar, positive lower '
        'bounds, the equality constraint and both Jacobians to the solver, returns positive amounts and mole fractions summing to one, and '
        'warns exactly when the solver reports failure. Bounded (labelled): atom conservation / non-negativity / fractions of converged results '
        'and signalling on seeded networks. NOT decided: global optimality, reaction equilibrium and order independence (assumed SLSQP contract; '
        'the bounded run measures how often it is not met).',
   note=BASE_NOTE + '; scipy.optimize.minimize (SLSQP) returns an arbitrary result respecting its bounds; nothing about optimality is proved'),
 'C11': dict(level='proof', sec='4/C11',
   text='Per serialisable class (29 classes incl. nested species inside reactions inside reaction sets): the object encodes under the JSON value '
        'model, decodes to the same class, every constructor-established attribute listed in the contract is restored, and from_dict leaves '
        'the dictionary it is given unmodified; json_to_pmutt / remove_class do not alter their argument. Four attributes that pinned '
        'to_dict tests force to be dropped are known findings.',
   note=BASE_NOTE + '; JSON value model (objects -> to_dict, tuples -> lists, keys -> str, object_hook bottom-up) in spec/jsonrt_model.py, natively the real json module; '
        'attribute lists per class are written in the contract file'),
 'C15': dict(level='other', sec='4/C15',
   text='Every special-column setter is proved against its documented effect (composition entries accumulate, vibrational / rotational / list '
        'columns append in order, dict columns merge, NASA coefficient i goes into a fresh 7-vector keeping the others, formula parsed, each '
        'documented model name resolves to its class, presets do not override); the row loop of read_excel is executed on worksheets with '
        'symbolic cell values and every pattern of empty cells of the enumerated sheets: one record per row in order, containing exactly the '
        'non-empty cells under their trimmed / special-form keys (no leak between rows, empty cells never appear).',
   note=BASE_NOTE + '; pandas.read_excel / iterrows / items / isnull are an assumed contract (DataFrame model incl. duplicate-header mangling); natively real .xlsx files are written and read'),
 'C06': dict(level='other', sec='4/C06',
   text='Deductive, on enumerated mechanism shapes (real ChemkinReaction / Reactions / CatSite objects over abstract species; symbolic T, site '
        'densities, sticking coefficients, beta, run conditions, mole fractions; numbers in printed form are the uninterpreted text '
        'format(value, spec)): every reaction line is the equation padded to the common width followed by A (or the sticking coefficient), beta '
        'and Ea = the value the activation method returns at (units, T), STICK after adsorption lines, for E/H/G methods in dimensional and '
        'dimensionless form; gas.inp = ELEMENTS (every element once), SPECIES (gas species once, in order), REACTIONS (exactly the all-gas '
        'reactions); surf.inp = SITE line with SDEN, its adsorbates with occupancy, BULK lines with density, MWON/MWOFF + unit header, exactly '
        'the other reactions; EAs/EAg = declared count, one row per reaction of the phase with the barrier at every run; T_flow rows with run '
        'numbers; tube_mole = declared count, one row per named species, 0 for a run that does not name it; gas_phase flag = all reactants '
        'gaseous (= all species gaseous for the site-balanced shapes). Bounded (labelled): random mechanisms of 1-40 reactions, 1-3 sites: '
        'read back with read_reactions, numbers parsed from the text against the model to the printed precision, sections and counts.',
   note=BASE_NOTE + '; species are abstract callees ignoring the keywords units/activation; format(x, spec) is a function of (spec, x) with exact '
        'E-format width; str(datetime.now()) is one line; mechanism shapes enumerated, larger ones only by the bounded check; one known finding (D31)'),
 'C07': dict(level='other', sec='4/C07',
   text='Deductive. _assign_yaml_val by value type x unit (float, int, bool, str, str with its own units, list, dict; omitted; label already present; '
        'no unit system): the header receives exactly the label with the value and its unit text and nothing else changes. write_yaml: the dictionary '
        'handed to yaml.dump is exactly {reactor, inlet_gas, simulation(+solver, multi_input, sensitivity), phases} with every supplied option under its '
        'key with its unit and no other key (all scalar options, multi-run inputs, user dictionaries win, sensitivity targets, phases given as list '
        'or dict, nothing given). Phases as a data structure: constructor / setter / append / extend / pop / remove / clear / copy / index specified on '
        'the whole species view, the elements union and the frame (other phases untouched; two interfaces built empty do not share a list). Emitters: '
        'IdealGas / StoichSolid / InteractingInterface to_omkm_yaml and to_cti (species, elements, density and site density converted to the requested '
        'units, id ranges), Nasa / Nasa9 / Shomate to_omkm_yaml and to_cti (name, composition, occupancy, ranges, coefficients, balanced directives), '
        'PiecewiseCovEffect (members, thresholds, strengths in the requested units), SurfaceReaction to_omkm_yaml / to_cti / get_A (equation, id, A or '
        'sticking coefficient, b, Ea = model value at T in the requested units, user A / Ea win, sticking species, Motz-Wise), BEP. Whole files '
        '(write_thermo_yaml via the dictionaries handed to yaml.dump, write_cti via its sections): sections in order, every phase / species / reaction / '
        'interaction / BEP once with its own emitter output, ids unique with user ids kept. Bounded (labelled): random models written, YAML loaded and '
        'compared with the objects, CTI executed by the bundled ctml_writer, reactor options as Python / NumPy numbers and strings.',
   note=BASE_NOTE + '; PyYAML is external: contracts are stated on the dictionaries handed to yaml.dump, the dumped text / its re-loading / the '
        'quote stripping only by the bounded check; str(x) and format(x, spec) of a float are functions of the value; model shapes enumerated; '
        'NumPy-typed inputs only in the bounded check; one known finding (D17, YAML keyword names)'),
}
REASON_PENDING = 'check not built yet (build phase in progress; see DESIGN.md section 10)'
checks = []
na = []
for p in props:
    i = p['id']
    if i in BUILT:
        b = BUILT[i]
        checks.append({
            'property_id': i,
            'quick_cmd': './check %s --tier quick' % i,
            'thorough_cmd': './check %s --tier thorough' % i,
            'evidence_file': 'evidence/%s.json' % i,
            'replay_cmd_template': './check %s --replay {path}' % i,
            'engine': 'pvc',
            'level_claimed': {'category': b['level'], 'text': b['text'],
                              'design_ref': 'DESIGN.md section ' + b['sec']},
            'level_note': b['note'],
            'technique': b.get('technique', TECH)})
    else:
        na.append({'property_id': i, 'reason': REASON_PENDING})
m = {'version': 1,
     'setup_cmd': 'python3-vt -c "import z3" && /venv/bin/python -c "import pmutt" && test -x /usr/bin/cvc5',
     'hooks': {'guard': 'PMUTT_VERIF',
               'enable': 'no source hooks: contracts are sidecar files under /verif/contracts keyed by qualified name; /repo is not annotated',
               'baseline_off_cmd': 'cd /repo && /venv/bin/python -m pytest -q -p no:cacheprovider --timeout=900',
               'source_commits': [], 'add_only': True},
     'engines': [{'name': 'pvc', 'path': 'pvc/', 'serves_properties': sorted(BUILT),
                  'kind_free_text': 'Python AST -> SMT verification-condition generator (symbolic execution per path, contracts, loop rules, structural derivative) with z3/cvc5 back ends and native replay under /venv/bin/python'}],
     'checks': checks, 'not_applicable': na,
     'notes': 'Exit codes of ./check: 0 all obligations discharged (KNOWN-FINDING lines allowed; BOUNDED-ONLY lines = contracts outside the modelled subset whose clauses held on the native stand-in, labelled bounded, never counted as proved); 1 violation (VIOLATION line); 2 undecided obligations or obligations of the pinned tree that the run no longer generates (MISSING lines); 3 checker error.  The external CLI solvers /usr/bin/z3 and /usr/bin/cvc5 are used when present (portfolio), the in-process z3 alone otherwise.'}
json.dump(m, open(os.path.join(ROOT, 'MANIFEST.json'), 'w'), indent=1)
print('checks:', len(checks), 'not_applicable:', len(na))
