#!/usr/bin/env python3
"""print docstring-stripped source of a repo module (optionally one class / function)"""
import ast, sys
path = sys.argv[1]
if not path.endswith('.py'):
    import os
    base = '/repo/' + path.replace('.', '/')
    path = base + '/__init__.py' if os.path.isdir(base) else base + '.py'
t = ast.parse(open(path).read())
class Strip(ast.NodeTransformer):
    def visit_FunctionDef(self, n):
        self.generic_visit(n)
        if n.body and isinstance(n.body[0], ast.Expr) and isinstance(n.body[0].value, ast.Constant):
            n.body = n.body[1:] or [ast.Pass()]
        return n
    visit_ClassDef = visit_FunctionDef
t = Strip().visit(t)
names = sys.argv[2:]
if not names:
    print(ast.unparse(t)); sys.exit()
for n in ast.walk(t):
    if isinstance(n, (ast.FunctionDef, ast.ClassDef)) and n.name in names:
        print(ast.unparse(n)); print()
