"""What the OpenMKM / Cantera input files have to say (property C07), written
from the property statement."""


def unit_text(units_spec, units):
    """a unit template such as '_length3/_time' in the chosen unit system"""
    out = units_spec.replace('_act_energy', units.act_energy)
    for kind in ('length', 'time', 'quantity', 'energy', 'act_energy', 'pressure', 'mass'):
        out = out.replace('_' + kind, getattr(units, kind))
    return out


def with_unit(val, units_spec, units):
    """the text '"<value> <unit>"' of a dimensional value"""
    return '"{} {}"'.format(val, unit_text(units_spec, units))


def keys(d):
    return sorted(d.keys())


def side(species, stoich):
    parts = []
    for s, nu in zip(species, stoich):
        if nu == 1:
            parts.append(s.name)
        else:
            parts.append('%d %s' % (int(nu), s.name))
    return ' + '.join(parts)


def equation(rxn):
    """reactants <=> products, integer coefficients separated from the names by a blank, no transition state"""
    return side(rxn.reactants, rxn.reactants_stoich) + ' <=> ' + side(rxn.products, rxn.products_stoich)
