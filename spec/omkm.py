"""What the OpenMKM / Cantera input files have to say (property C07), written
from the property statement."""


def unit_text(units_spec, units):
    """a unit template such as '_length3/_time' in the chosen unit system"""
    out = units_spec.replace('_act_energy', units.act_energy)
    for kind in ('length', 'time', 'quantity', 'energy', 'act_energy', 'pressure', 'mass'):
        out = out.replace('_' + kind, getattr(units, kind))
    return out


def with_unit(val, units_spec, units):
    """the text '"<value> <unit>"' of a dimensional value"""
    return '"{} {}"'.format(val, unit_text(units_spec, units))


def keys(d):
    return sorted(d.keys())


def side(species, stoich):
    parts = []
    for s, nu in zip(species, stoich):
        if nu == 1:
            parts.append(s.name)
        else:
            parts.append('%d %s' % (int(nu), s.name))
    return ' + '.join(parts)


def equation(rxn):
    """reactants <=> products, integer coefficients separated from the names by a blank, no transition state"""
    return side(rxn.reactants, rxn.reactants_stoich) + ' <=> ' + side(rxn.products, rxn.products_stoich)


RULE = '#' + '-' * 79


def cti_section(text, title):
    """the text of one titled section of a CTI file (between its header and the next header)"""
    marker = RULE + '\n# ' + title + '\n' + RULE + '\n'
    rest = text.split(marker)[1]
    return rest.split('\n\n' + RULE)[0]


def cti_titles(text):
    """section titles in file order"""
    ls = text.split('\n')
    return [ls[i][2:] for i in range(1, len(ls) - 1) if ls[i - 1] == RULE and ls[i + 1] == RULE]


def distinct(xs):
    return all(not (xs[i] == xs[j]) for i in range(len(xs)) for j in range(i + 1, len(xs)))


def balanced(text):
    """as many opening as closing parentheses and brackets"""
    return len(text.split('(')) == len(text.split(')')) and len(text.split('[')) == len(text.split(']'))
