"""Reaction state functions (properties C08 / C09)."""


def species_conditions(name, shared, blocks):
    """conditions one species is evaluated at: the shared ones, overridden by
    the block addressed to it"""
    kw = dict(shared)
    if name in blocks:
        kw.update(blocks[name])
    return kw


def state_value(species, stoich, method, shared, blocks):
    """stoichiometry-weighted sum over a state (product of powers for the
    partition function)"""
    if method == 'get_q':
        total = 1
        for s, nu in zip(species, stoich):
            total = total * getattr(s, method)(**species_conditions(s.name, shared, blocks)) ** nu
        return total
    total = 0
    for s, nu in zip(species, stoich):
        total = total + getattr(s, method)(**species_conditions(s.name, shared, blocks)) * nu
    return total


def eff_site_density(reaction, operation):
    """effective site density of a Chemkin surface reaction: the site
    densities of the surface reactants (each repeated by its stoichiometric
    coefficient) combined by `operation`"""
    dens = []
    for s, nu in zip(reaction.reactants, reaction.reactants_stoich):
        if s.cat_site is None:
            continue
        if s.name == s.cat_site.bulk_specie:
            continue
        for _ in range(int(nu)):
            dens.append(s.cat_site.site_density)
    if operation == 'sum':
        return sum(dens)
    if operation == 'mean':
        return sum(dens) / len(dens)
    if operation == 'min':
        return min(dens)
    return max(dens)


def state_energies(reactions, units, T):
    """Gibbs energies of the states visited by a reaction sequence, in order
    (reactants, transition state if any, products of every step)"""
    out = []
    for r in reactions.reactions:
        for state in ('reactants', 'transition_state', 'products'):
            if getattr(r, state) is None:
                continue
            out.append(r.get_G_state(state=state, units=units, T=T))
    return out


def energy_span(G):
    """highest minus lowest state energy, plus the overall reaction energy
    when the highest state comes before the lowest"""
    n = len(G)
    hi = G[0]
    lo = G[0]
    for g in G:
        hi = g if g > hi else hi
        lo = g if g < lo else lo
    # first index attaining the maximum / minimum
    i_hi = 0
    i_lo = 0
    for k in range(n - 1, -1, -1):
        i_hi = k if G[k] == hi else i_hi
        i_lo = k if G[k] == lo else i_lo
    return (hi - lo) + ((G[n - 1] - G[0]) if i_hi < i_lo else 0)


def from_string_stoich(cls, text, species):
    r = cls.from_string(text, species)
    return (list(r.reactants_stoich), list(r.products_stoich))


def balance_outcome(reactants, products):
    """reactants / products: [(name, composition, coefficient)].  The species are NASA polynomials built by the real
    constructor (so what the constructor does to the composition counts); returns 'balanced' or 'refused'."""
    import pmutt.empirical.nasa as nasa
    import pmutt.reaction as reaction

    def species(name, comp):
        return nasa.Nasa(name=name, T_low=200., T_mid=1000., T_high=3000., a_low=[1., 0., 0., 0., 0., 0., 0.],
                         a_high=[1., 0., 0., 0., 0., 0., 0.], elements=comp, phase='S')
    rxn = reaction.Reaction(reactants=[species(n, c) for n, c, _ in reactants], reactants_stoich=[v for _, _, v in reactants],
                            products=[species(n, c) for n, c, _ in products], products_stoich=[v for _, _, v in products])
    try:
        rxn.check_element_balance()
    except ValueError:
        return 'refused'
    return 'balanced'
