"""Identifier ranges (property C18): what a range item denotes."""
from spec.util import implies


def split_id(s, delimiter='_'):
    """(prefix including the delimiter, suffix text)"""
    i = s.rfind(delimiter)
    if i == -1:
        return ('', s)
    return (s[:i + 1], s[i + 1:])


def parse_item(item, delimiter='_'):
    """a range item '"a_0001 to a_0003"' or '"a_0007"' -> (prefix, lo, hi,
    width of the suffix text)"""
    body = item.strip('"')
    if ' to ' in body:
        lo_text, hi_text = body.split(' to ')
    else:
        lo_text, hi_text = body, body
    plo, slo = split_id(lo_text, delimiter)
    phi, shi = split_id(hi_text, delimiter)
    return (plo, int(slo), phi, int(shi), len(slo), len(shi))


def denotes_exactly(items, ids, delimiter='_', max_run=4):
    """the range items denote exactly the given identifiers: every identifier
    is covered verbatim (same prefix, same suffix width, number inside the
    range) and every number of every range is one of the identifiers"""
    parsed = [parse_item(it, delimiter) for it in items]
    given = [split_id(x, delimiter) for x in ids]
    given = [(p, int(s), len(s)) for (p, s) in given]
    well_formed = all(plo == phi and wlo == whi and lo <= hi
                      for (plo, lo, phi, hi, wlo, whi) in parsed)
    covered = all(any(p == plo and w == wlo and lo <= n and n <= hi
                      for (plo, lo, phi, hi, wlo, whi) in parsed)
                  for (p, n, w) in given)
    nothing_added = all(
        all(implies(lo + k <= hi,
                    any(p == plo and w == wlo and n == lo + k for (p, n, w) in given))
            for k in range(max_run))
        and hi - lo < max_run
        for (plo, lo, phi, hi, wlo, whi) in parsed)
    return well_formed and covered and nothing_added


def wrapped_lines(text):
    """lines of a CTI multi-line string, fences and indentation removed"""
    lines = text.split('\n')
    return lines


def tokens_of_wrapped(text, indent):
    """tokens of a CTI triple-quoted multi-line value in order"""
    lines = text.split('\n')
    out = []
    for k, line in enumerate(lines):
        body = line
        if k == 0:
            body = body[3:]               # opening fence
        else:
            body = body[indent:]
        for t in body.split(' '):
            out.append(t)
    return out


class WithId:
    """anything that carries an identifier"""

    def __init__(self, id):
        self.id = id


def ids_of(objs):
    return [o.id for o in objs]


def two_default_beps():
    """two OpenMKM BEP relations built without member lists (the usual way: reactions register themselves later);
    members are then registered: OH_0001 (cleavage) and OH_0003 (synthesis) with the first, CH_0007 (cleavage) with the second"""
    from pmutt.omkm.reaction import BEP
    a = BEP(name='OH', slope=0.5, intercept=10., direction='cleavage', descriptor='delta_H')
    b = BEP(name='CH', slope=0.4, intercept=20., direction='cleavage', descriptor='delta_H')
    a.cleavage_reactions.append(WithId('OH_0001'))
    a.synthesis_reactions.append(WithId('OH_0003'))
    b.cleavage_reactions.append(WithId('CH_0007'))
    return (a, b)


class PhaseSpecies:
    def __init__(self, name, phase):
        self.name = name
        self.phase = phase


class PlainReaction:
    """a reaction as get_reactions_phases sees it: an id (possibly None) and its species"""

    def __init__(self, id, species):
        self.id = id
        self.species = species

    def get_species(self, include_TS=True, key='name'):
        return {s.name: s for s in self.species}


def phases_of_reactions(ids):
    """reactions r_k (k-th has the k-th id of `ids`, None = not numbered yet) that all involve one gas and one surface species:
    {phase: positions of the reactions listed for it}"""
    from pmutt.io.omkm import get_reactions_phases
    gas = PhaseSpecies('H2', 'gas')
    rxs = [PlainReaction(i, [gas, PhaseSpecies('A%d(S)' % k, 'terrace')]) for k, i in enumerate(ids)]
    out = get_reactions_phases(rxs)
    return {ph: [rxs.index(r) for r in lst] for ph, lst in out.items()}
