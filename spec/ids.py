"""Identifier ranges (property C18): what a range item denotes."""
from spec.util import implies


def split_id(s, delimiter='_'):
    """(prefix including the delimiter, suffix text)"""
    i = s.rfind(delimiter)
    if i == -1:
        return ('', s)
    return (s[:i + 1], s[i + 1:])


def parse_item(item, delimiter='_'):
    """a range item '"a_0001 to a_0003"' or '"a_0007"' -> (prefix, lo, hi,
    width of the suffix text)"""
    body = item.strip('"')
    if ' to ' in body:
        lo_text, hi_text = body.split(' to ')
    else:
        lo_text, hi_text = body, body
    plo, slo = split_id(lo_text, delimiter)
    phi, shi = split_id(hi_text, delimiter)
    return (plo, int(slo), phi, int(shi), len(slo), len(shi))


def denotes_exactly(items, ids, delimiter='_', max_run=4):
    """the range items denote exactly the given identifiers: every identifier
    is covered verbatim (same prefix, same suffix width, number inside the
    range) and every number of every range is one of the identifiers"""
    parsed = [parse_item(it, delimiter) for it in items]
    given = [split_id(x, delimiter) for x in ids]
    given = [(p, int(s), len(s)) for (p, s) in given]
    well_formed = all(plo == phi and wlo == whi and lo <= hi
                      for (plo, lo, phi, hi, wlo, whi) in parsed)
    covered = all(any(p == plo and w == wlo and lo <= n and n <= hi
                      for (plo, lo, phi, hi, wlo, whi) in parsed)
                  for (p, n, w) in given)
    nothing_added = all(
        all(implies(lo + k <= hi,
                    any(p == plo and w == wlo and n == lo + k for (p, n, w) in given))
            for k in range(max_run))
        and hi - lo < max_run
        for (plo, lo, phi, hi, wlo, whi) in parsed)
    return well_formed and covered and nothing_added


def wrapped_lines(text):
    """lines of a CTI multi-line string, fences and indentation removed"""
    lines = text.split('\n')
    return lines


def tokens_of_wrapped(text, indent):
    """tokens of a CTI triple-quoted multi-line value in order"""
    lines = text.split('\n')
    out = []
    for k, line in enumerate(lines):
        body = line
        if k == 0:
            body = body[3:]               # opening fence
        else:
            body = body[indent:]
        for t in body.split(' '):
            out.append(t)
    return out
