"""NASA-7, NASA-9 and Shomate polynomial forms (property C02)."""
from numpy import log


def nasa7_CpoR(a, T):
    return a[0] + a[1] * T + a[2] * T**2 + a[3] * T**3 + a[4] * T**4


def nasa7_HoRT(a, T):
    return (a[0] + a[1] * T / 2 + a[2] * T**2 / 3 + a[3] * T**3 / 4
            + a[4] * T**4 / 5 + a[5] / T)


def nasa7_SoR(a, T):
    return (a[0] * log(T) + a[1] * T + a[2] * T**2 / 2 + a[3] * T**3 / 3
            + a[4] * T**4 / 4 + a[6])


def nasa9_CpoR(a, T):
    return (a[0] / T**2 + a[1] / T + a[2] + a[3] * T + a[4] * T**2
            + a[5] * T**3 + a[6] * T**4)


def nasa9_HoRT(a, T):
    return (-a[0] / T**2 + a[1] * log(T) / T + a[2] + a[3] * T / 2
            + a[4] * T**2 / 3 + a[5] * T**3 / 4 + a[6] * T**4 / 5 + a[7] / T)


def nasa9_SoR(a, T):
    return (-a[0] / T**2 / 2 - a[1] / T + a[2] * log(T) + a[3] * T
            + a[4] * T**2 / 2 + a[5] * T**3 / 3 + a[6] * T**4 / 4 + a[8])


def shomate_CpoR(a, t):
    """Cp/R with t = T/1000 and coefficients already divided by R"""
    return a[0] + a[1] * t + a[2] * t**2 + a[3] * t**3 + a[4] / t**2


def shomate_HoRT(a, t):
    """H/RT: coefficients in kJ/mol -> factor 1000/T = 1/t"""
    return (a[0] * t + a[1] * t**2 / 2 + a[2] * t**3 / 3 + a[3] * t**4 / 4
            - a[4] / t + a[5]) / t


def shomate_SoR(a, t):
    return (a[0] * log(t) + a[1] * t + a[2] * t**2 / 2 + a[3] * t**3 / 3
            - a[4] / (2 * t**2) + a[6])
