"""Attached correction models (property C13)."""
from numpy import log


def is_adj(m):
    return type(m).__name__ == 'GasPressureAdj'


def count_adj(models):
    if models is None:
        return 0
    return sum(1 for m in models if is_adj(m))


def others(models):
    """the attached models that are not pressure adjustments, in order"""
    if models is None:
        return []
    return [m for m in models if not is_adj(m)
            and not (type(m).__name__ == 'dict')]


def contribution(m, q, T, P, x):
    """what one attached model adds to quantity q at the given conditions"""
    if is_adj(m):
        if q == 'SoR':
            return -log(P)
        if q == 'GoRT':
            return log(P)
        return 0
    # coverage effect: energies only
    if q in ('HoRT', 'GoRT'):
        return m.get_HoRT(x=x, T=T)
    return 0


def total(models, q, T, P, x):
    tot = 0
    if models is None:
        return tot
    for m in models:
        tot = tot + contribution(m, q, T, P, x)
    return tot


def build_default(kind, phase):
    """a species of the given class built the way users do: no misc_models argument"""
    import pmutt.empirical.nasa as nasa
    import pmutt.empirical.shomate as shomate
    if kind == 'Nasa':
        return nasa.Nasa(name='A', T_low=200., T_mid=1000., T_high=3000., a_low=[1., 0., 0., 0., 0., 0., 0.],
                         a_high=[1., 0., 0., 0., 0., 0., 0.], phase=phase)
    if kind == 'Nasa9':
        return nasa.Nasa9(name='A', phase=phase,
                          nasas=[nasa.SingleNasa9(T_low=200., T_high=3000., a=[0., 0., 1., 0., 0., 0., 0., 0., 0.])])
    if kind == 'Shomate':
        return shomate.Shomate(name='A', T_low=200., T_high=3000., a=[1., 0., 0., 0., 0., 0., 0., 0.], phase=phase)
    raise ValueError(kind)


def built_after(kind, first_phase, phase):
    """the species of `phase` built after another species of `first_phase` was built in the same process"""
    build_default(kind, first_phase)
    return build_default(kind, phase)
