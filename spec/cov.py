"""Coverage-effect piecewise-linear function (property C17)."""
from spec.util import eq, implies


def wf(p):
    """well-formedness (class invariant) of a PiecewiseCovEffect"""
    n = len(p.intervals)
    return (n >= 1 and len(p.slopes) == n and len(p._intercepts) == n
            and p.intervals[0] == 0
            and all(p.intervals[k - 1] <= p.intervals[k] for k in range(1, n))
            and p._intercepts[0] == 0
            and all(eq(p._intercepts[k] + p.slopes[k] * p.intervals[k],
                       p._intercepts[k - 1] + p.slopes[k - 1] * p.intervals[k])
                    for k in range(1, n)))


def valid_input(intervals, slopes):
    n = len(intervals)
    return (n >= 1 and len(slopes) == n and intervals[0] == 0
            and all(intervals[k - 1] <= intervals[k] for k in range(1, n)))


def pwl(intervals, slopes, x):
    """the unique continuous piecewise-linear function that is zero at zero
    coverage and has slope slopes[k] on [intervals[k], intervals[k+1]) (the
    last piece extends to infinity), evaluated at x >= 0"""
    n = len(intervals)
    total = 0
    for k in range(n):
        lo = intervals[k]
        if k + 1 < n:
            hi = intervals[k + 1]
            top = x if x <= hi else hi
        else:
            top = x
        seg = (top - lo) if top >= lo else 0
        total = total + slopes[k] * seg
    return total


def inserted(old_xs, old_ys, x, y, new_xs, new_ys):
    """new lists are the old ones with the pair (x, y) inserted at one common
    position; every other pair preserved in order"""
    n = len(old_xs)
    return (len(new_xs) == n + 1 and len(new_ys) == n + 1 and
            any(all(new_xs[j] == old_xs[j] and new_ys[j] == old_ys[j]
                    for j in range(i))
                and new_xs[i] == x and new_ys[i] == y
                and all(new_xs[j + 1] == old_xs[j] and new_ys[j + 1] == old_ys[j]
                        for j in range(i, n))
                for i in range(n + 1)))


def removed(old_xs, old_ys, i, new_xs, new_ys):
    """new lists are the old ones without the pair at index i"""
    n = len(old_xs)
    return (len(new_xs) == n - 1 and len(new_ys) == n - 1 and
            all(implies(j < i, new_xs[j] == old_xs[j] and new_ys[j] == old_ys[j])
                and implies(j >= i, new_xs[j] == old_xs[j + 1]
                            and new_ys[j] == old_ys[j + 1])
                for j in range(n - 1)))


def evaluate_edit_evaluate(p, i, b, s, x, T):
    """history: evaluate, remove breakpoint i, insert (b, s), evaluate again"""
    p.get_UoRT(x=x, T=T)
    p.pop(i)
    p.insert(b, s)
    return p.get_UoRT(x=x, T=T)


def edit_copy_of(p, b, s):
    """history: round trip through to_dict / from_dict, then edit the COPY"""
    q = type(p).from_dict(p.to_dict())
    q.insert(b, s)
    return q


def edit_copy_keeps_original(p, b, s):
    """history: reload through to_dict / from_dict, edit the copy; is the original object left as it was?"""
    xs = list(p.intervals)
    ys = list(p.slopes)
    ic = list(p._intercepts)
    edit_copy_of(p, b, s)
    return xs == p.intervals and ys == p.slopes and ic == p._intercepts


def reload_twice_with_an_edit_between(p, b, s):
    """history: decode what p writes with the JSON hook, edit that copy, write p again and decode again:
    the second copy (must be p as it is)"""
    from pmutt.io.json import json_to_pmutt
    first = json_to_pmutt(p.to_dict())
    first.insert(b, s)
    return json_to_pmutt(p.to_dict())


def from_gaps(gaps, slopes):
    """coverage effect with breakpoints 0, g0, g0+g1, ... (len(slopes) == len(gaps) + 1)"""
    from pmutt.mixture.cov import PiecewiseCovEffect
    xs = [0.]
    for g in gaps:
        xs.append(xs[-1] + g)
    return PiecewiseCovEffect(name_i='A', name_j='B', intervals=xs, slopes=list(slopes))


def breakpoints(gaps):
    xs = [0.]
    for g in gaps:
        xs.append(xs[-1] + g)
    return xs


def reloaded(p):
    from pmutt.io.json import json_to_pmutt
    return json_to_pmutt(p.to_dict())
