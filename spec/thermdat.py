"""Thermdat helper predicates (property C05)."""


def same_composition(read, written):
    """the composition read back has exactly the written elements with a
    positive count, with the same counts"""
    w = [(k, v) for k, v in written.items() if v > 0]
    return len(read) == len(w) and all(any(k == k2 and v == v2 for k2, v2 in read.items()) for k, v in w)
