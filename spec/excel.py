"""Spreadsheet reader helpers (property C15)."""
import numpy as np
from spec.util import eq


def same_record(got, expected):
    """same keys; values equal (lists / arrays element-wise, dicts key-wise)"""
    if len(got) != len(expected):
        return False
    for k in expected:
        if k not in got:
            return False
        a, b = got[k], expected[k]
        if isinstance(b, dict):
            if not isinstance(a, dict) or len(a) != len(b):
                return False
            for kk in b:
                if kk not in a or not eq(a[kk], b[kk]):
                    return False
        elif isinstance(b, list):
            if len(a) != len(b):
                return False
            for x, y in zip(a, b):
                if not eq(x, y):
                    return False
        elif not eq(a, b):
            return False
    return True
