"""Equations of state (property C20)."""


def ideal_PV(P_bar, V, n, T, R):
    """residual of P V = n R T with R in m3 bar / mol / K"""
    return P_bar * V - n * R * T


def vdw_residual(P_Pa, Vm, T, a, b, R):
    """(P + a/Vm^2)(Vm - b) - R T"""
    return (P_Pa + a / Vm**2) * (Vm - b) - R * T


def reloaded(eos):
    """the object decoded from its own dictionary form"""
    from pmutt.io.json import json_to_pmutt
    return json_to_pmutt(eos.to_dict())
