"""Equations of state (property C20)."""


def ideal_PV(P_bar, V, n, T, R):
    """residual of P V = n R T with R in m3 bar / mol / K"""
    return P_bar * V - n * R * T


def vdw_residual(P_Pa, Vm, T, a, b, R):
    """(P + a/Vm^2)(Vm - b) - R T"""
    return (P_Pa + a / Vm**2) * (Vm - b) - R * T
