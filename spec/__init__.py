"""Specification functions: the textbook expressions named in the property
statements, written in the Python subset that both pvc (symbolically) and
CPython (natively, on replay) evaluate.  They are specification, not a model
of the code: each real function is proved equal to its spec function."""
from spec import nasa, eos, cov, mix, statmech, rxn, ids, thermdat, jsonrt, excel, chemkin, omkm
