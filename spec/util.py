"""Helpers shared by the spec functions.  Natively `eq` is equality of reals
up to floating-point rounding (relative 1e-9) and `implies` is material
implication; pvc treats both names as special forms (exact equality of
mathematical reals / implication evaluated under its antecedent)."""


def implies(a, b):
    return (not a) or bool(b)


def eq(a, b, rtol=1e-9):
    if isinstance(a, (list, tuple)) or isinstance(b, (list, tuple)):
        if not (hasattr(a, '__len__') and hasattr(b, '__len__')):
            return False
        return len(a) == len(b) and all(eq(x, y, rtol) for x, y in zip(a, b))
    try:
        a = float(a)
        b = float(b)
    except (TypeError, ValueError):
        return a == b
    scale = max(abs(a), abs(b))
    return abs(a - b) <= rtol * scale + 1e-12


def call_edit_call(f, arg, key):
    """call f(arg), change one entry of the dictionary it returned, and call
    f(arg) again: the second result"""
    first = f(arg)
    first[key] = first[key] - 1
    return f(arg)


def probe(a, b='default'):
    """a callee with named parameters only (no **kwargs): returns what it received"""
    return (a, b)


def unchanged_by(snapshot, action):
    """snapshot() before and after action(): True iff equal"""
    before = snapshot()
    action()
    return snapshot() == before


def keys_and_ids(d):
    return [(k, id(v)) for k, v in d.items()]


def list_to_dict_after_edit(f, lst, i, new):
    """f(lst), then replace lst[i] in place, then f(lst) again: the second result"""
    f(lst)
    lst[i] = new
    return f(lst)


def after(action, query):
    """run action(), then return query()"""
    action()
    return query()


def shift_offset_then_HoRT(refs, species, key, d, T):
    """edit the offset of the reference object the species was built with,
    then ask the species: the value after the edit"""
    refs.offset[key] = refs.offset[key] + d
    return species.get_HoRT(T=T)
