"""Helpers shared by the spec functions.  Natively `eq` is equality of reals
up to floating-point rounding (relative 1e-9) and `implies` is material
implication; pvc treats both names as special forms (exact equality of
mathematical reals / implication evaluated under its antecedent)."""


def implies(a, b):
    return (not a) or bool(b)


def eq(a, b, rtol=1e-9):
    if isinstance(a, (list, tuple)) or isinstance(b, (list, tuple)):
        if not (hasattr(a, '__len__') and hasattr(b, '__len__')):
            return False
        return len(a) == len(b) and all(eq(x, y, rtol) for x, y in zip(a, b))
    try:
        a = float(a)
        b = float(b)
    except (TypeError, ValueError):
        return a == b
    scale = max(abs(a), abs(b))
    return abs(a - b) <= rtol * scale + 1e-12


def call_edit_call(f, arg, key):
    """call f(arg), change one entry of the dictionary it returned, and call
    f(arg) again: the second result"""
    first = f(arg)
    first[key] = first[key] - 1
    return f(arg)
