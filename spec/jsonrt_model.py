"""pvc-side model of spec.jsonrt (same names; executed symbolically)."""
from pmutt.io.json import json_to_pmutt
from spec.util import eq


def _encode(v):
    if isinstance(v, dict):
        return {str(k): _encode(x) for k, x in v.items()}
    if isinstance(v, (list, tuple)):
        return [_encode(x) for x in v]
    if v is None or isinstance(v, (bool, int, float, str)):
        return v
    if hasattr(v, 'to_dict'):
        return _encode(v.to_dict())
    raise TypeError('Object is not JSON serializable')


def _decode(v):
    if isinstance(v, dict):
        return json_to_pmutt({k: _decode(x) for k, x in v.items()})
    if isinstance(v, list):
        return [_decode(x) for x in v]
    return v


def roundtrip(obj):
    return _decode(_encode(obj))


def encodes(obj):
    try:
        _encode(obj)
    except TypeError:
        return False
    return True


def same(a, b):
    if hasattr(a, 'to_dict') and hasattr(b, 'to_dict'):
        return type(a).__name__ == type(b).__name__ and same(a.to_dict(), b.to_dict())
    if isinstance(a, dict) and isinstance(b, dict):
        return len(a) == len(b) and all((str(k) in [str(j) for j in b]) for k in a) and all(
            same(a[k], [b[j] for j in b if str(j) == str(k)][0]) for k in a)
    if isinstance(a, (list, tuple)) and isinstance(b, (list, tuple)):
        return len(a) == len(b) and all(same(x, y) for x, y in zip(a, b))
    return eq(a, b)


def unchanged_by_decode(obj):
    d = obj.to_dict()
    snap = obj.to_dict()
    type(obj).from_dict(d)
    return same(d, snap)
