"""`integral(f, a, b)`: natively scipy.integrate.quad; for pvc an integral
atom (assumed contract of quad)."""
from scipy.integrate import quad


def integral(f, a, b):
    return quad(f, a, b)[0]
