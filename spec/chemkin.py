"""What a Chemkin mechanism file has to say (property C06), written from the
property statement: equations, rate-parameter lines, sections."""
G_METHODS = ('get_GoRT_act', 'get_G_act', 'get_delta_GoRT', 'get_delta_G')


def side(species, stoich, species_delimiter):
    """one side of an equation; integer stoichiometry, a coefficient of 1 is
    not written"""
    parts = []
    for s, nu in zip(species, stoich):
        if nu == 1:
            parts.append(s.name)
        else:
            parts.append('%d%s' % (int(nu), s.name))
    return species_delimiter.join(parts)


def equation(rxn, species_delimiter='+', reaction_delimiter='='):
    return side(rxn.reactants, rxn.reactants_stoich, species_delimiter) + reaction_delimiter + \
        side(rxn.products, rxn.products_stoich, species_delimiter)


def rate_line(eq, width, A, beta, Ea, is_ads, float_format, column_delimiter):
    """equation padded to the common width, then A (or the sticking
    coefficient), beta and Ea in the float format; STICK follows an
    adsorption reaction"""
    ff = '{:%s}' % float_format
    line = column_delimiter.join([eq.ljust(width), ff.format(A), ff.format(beta), ff.format(Ea)])
    if is_ads:
        line = line + '\nSTICK'
    return line


def include_entropy(act_method_name):
    """Gibbs-energy barriers carry the activation entropy themselves"""
    return act_method_name not in G_METHODS


def body(text):
    """the lines of a file that are not comments"""
    return [l for l in text.split('\n') if not l.startswith('!')]


def between(lines, start, stop):
    """lines strictly between the first line equal to `start` and the next
    line equal to `stop`"""
    i = lines.index(start)
    j = i + 1
    while lines[j] != stop:
        j = j + 1
    return lines[i + 1:j]


def all_gas(rxn):
    out = True
    for s in list(rxn.reactants) + list(rxn.products):
        out = out and s.phase.upper() == 'G'
    return out


def species_in_order(reactions):
    """species of the mechanism (without transition states) in order of first appearance"""
    out = []
    for r in reactions.reactions:
        for s in list(r.reactants) + list(r.products):
            if not any(s is q for q in out):
                out.append(s)
    return out


def sites_in_order(reactions):
    out = []
    for s in species_in_order(reactions):
        if s.phase.upper() != 'G' and not any(s.cat_site is q for q in out):
            out.append(s.cat_site)
    return out


def surface_section(reactions, column_delimiter):
    """SITE line with the site density, its adsorbates with their occupancy
    (gas and bulk species excluded), then one BULK line per site with the
    bulk density"""
    lines = []
    sites = sites_in_order(reactions)
    for site in sites:
        lines.append('SITE/{:<14}SDEN/{:.5E}/'.format(site.name + '/', site.site_density))
        lines.append('')
        for s in species_in_order(reactions):
            if s.phase.upper() != 'G' and s.cat_site is site and s.name != site.bulk_specie:
                lines.append('%s%s/%d/' % (column_delimiter, s.name, int(s.n_sites)))
        lines.append('')
    for site in sites:
        lines.append('BULK {}/{:.1f}/'.format(site.bulk_specie, site.density))
    return lines


def ea_rows(reactions, conditions, act, ads_act, float_format, column_delimiter, species_delimiter, reaction_delimiter):
    """one row per reaction: the equation padded to the common width, then the
    dimensionless barrier the model gives at every run condition"""
    eqs = [equation(r, species_delimiter, reaction_delimiter) for r in reactions]
    width = (max(len(e) for e in eqs) if eqs else 0) + len(column_delimiter)
    ff = '{:%s}' % float_format
    rows = []
    for r, e in zip(reactions, eqs):
        cells = [e.ljust(width)]
        for cond in conditions:
            m = getattr(r, ads_act if r.is_adsorption else act)
            cells.append(ff.format(m(**cond)))
        rows.append(column_delimiter.join(cells))
    return rows


def t_flow_rows(T, P, Q, abyv, float_format, column_delimiter):
    ff = '{:%s}' % float_format
    return [column_delimiter.join([ff.format(T[i]), ff.format(P[i]), ff.format(Q[i]), ff.format(abyv[i])]) +
            '  !' + str(i + 1).ljust(3) for i in range(len(T))]


def species_label(s):
    return "'" + s.name + '/' + ('GAS' if s.phase.upper() == 'G' else s.cat_site.name) + "/'"


def tube_mole_rows(conditions, species, float_format, column_delimiter):
    """one row per species that is named in some run; a run that does not
    name it gets 0"""
    named = [s for s in species if any(s.name in c for c in conditions)]
    width = max(len(species_label(s)) for s in named) + len(column_delimiter)
    ff = '{:%s}' % float_format
    rows = []
    for s in named:
        row = species_label(s).ljust(width)
        for c in conditions:
            row = row + column_delimiter + ff.format(c[s.name] if s.name in c else 0.0)
        rows.append(row)
    return rows


def enthalpy_barrier_oRT(rxn, T):
    """dimensionless enthalpy barrier of a Chemkin reaction: the enthalpy of
    the transition state (of the products, if there is none) above the
    reactants, never below the reaction enthalpy and never negative"""
    change = rxn.get_delta_HoRT(act=False, T=T)
    if rxn.transition_state is None:
        return max(0, change)
    return max(0, rxn.get_delta_HoRT(act=True, T=T), change)
