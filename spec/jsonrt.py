"""JSON value model (property C11): what json.dumps(obj, cls=pmuttEncoder)
followed by json.loads(text, object_hook=json_to_pmutt) does to a value.
Natively the real json module is used; the functions below are the model pvc
executes (encoder: objects -> to_dict(), tuples -> lists, keys -> str,
anything else must be a JSON leaf; decoder: object_hook applied bottom-up)."""
import json
import numpy as np
from pmutt.io.json import pmuttEncoder, json_to_pmutt


def roundtrip(obj):
    text = json.dumps(obj, cls=pmuttEncoder)
    return json.loads(text, object_hook=json_to_pmutt)


def encodes(obj):
    try:
        json.dumps(obj, cls=pmuttEncoder)
    except TypeError:
        return False
    return True


def same(a, b):
    """approximate equality of attribute values (arrays vs lists, ints vs
    floats, nested objects by their to_dict)"""
    if hasattr(a, 'to_dict') and hasattr(b, 'to_dict'):
        return type(a).__name__ == type(b).__name__ and same(a.to_dict(), b.to_dict())
    if isinstance(a, dict) and isinstance(b, dict):
        return set(map(str, a)) == set(map(str, b)) and all(
            same(a[k], b[k] if k in b else b[str(k)]) for k in a)
    if isinstance(a, (list, tuple, np.ndarray)) and isinstance(b, (list, tuple, np.ndarray)):
        return len(a) == len(b) and all(same(x, y) for x, y in zip(a, b))
    if isinstance(a, (int, float)) and isinstance(b, (int, float)) and not isinstance(a, bool):
        return abs(a - b) <= 1e-9 * max(1.0, abs(a))
    return a == b


def unchanged_by_decode(obj):
    """decoding (from_dict) leaves the dictionary it is given unmodified"""
    import copy
    d = obj.to_dict()
    snap = copy.deepcopy(d)
    type(obj).from_dict(d)
    return same(d, snap)
