"""Textbook statistical-mechanical expressions (property C01), dimensionless.
u = Theta / T throughout."""
from numpy import log, exp, sqrt, pi
from spec.util import eq, implies


# ---- harmonic oscillator (one mode) ----------------------------------------
def ho_U(u):
    """U/RT = u/2 + u / (e^u - 1)"""
    return u / 2 + u / (exp(u) - 1)


def ho_Cv(u):
    """Cv/R = u^2 e^u / (e^u - 1)^2"""
    return u**2 * exp(u) / (exp(u) - 1)**2


def ho_S(u):
    """S/R = u / (e^u - 1) - ln(1 - e^-u)"""
    return u / (exp(u) - 1) - log(1 - exp(-u))


def ho_q(u, include_ZPE):
    if include_ZPE:
        return exp(-u / 2) / (1 - exp(-u))
    return 1 / (1 - exp(-u))


# ---- Einstein crystal (3 identical oscillators + interaction energy) --------
def einstein_U(thetaE, u0_over_kT, T):
    return u0_over_kT + 3 * ho_U(thetaE / T)


def einstein_Cv(thetaE, T):
    return 3 * ho_Cv(thetaE / T)


def einstein_S(thetaE, T):
    return 3 * ho_S(thetaE / T)


# ---- quasi-RRHO (Grimme / Head-Gordon) ---------------------------------------
def qrrho_weight(nu, v0, alpha):
    return 1 / (1 + (v0 / nu)**alpha)


def qrrho_U(u, w):
    return w * ho_U(u) + (1 - w) / 2


def qrrho_Cv(u, w):
    return w * ho_Cv(u) + (1 - w) / 2


def free_rotor_S(mu, T, kB, h):
    """S/R of a free rotor with moment of inertia mu"""
    return 1 / 2 + log(sqrt(8 * pi**3 * mu * kB * T / h**2))


def qrrho_S(u, w, mu, T, kB, h):
    return w * ho_S(u) + (1 - w) * free_rotor_S(mu, T, kB, h)


# ---- rigid rotor ------------------------------------------------------------------
def rotor_q_linear(T, sigma, theta):
    return T / (sigma * theta)


def rotor_q_nonlinear(T, sigma, tA, tB, tC):
    return sqrt(pi) / sigma * sqrt(T**3 / (tA * tB * tC))


# ---- ideal-gas translation (Sackur-Tetrode) --------------------------------------
def trans_q(n, m, kB, h, T, V):
    """(2 pi m kB T / h^2)^(n/2) V with V the volume per molecule"""
    return sqrt(2 * pi * m * kB * T / h**2)**n * V


def sackur_tetrode_S(n, m, kB, h, T, V):
    return 1 + n / 2 + log(trans_q(n, m, kB, h, T, V))


def valid_wavenumbers(ws, sub):
    """wavenumbers actually used: positive ones kept, imaginary (<= 0) ones
    replaced by `sub` when it is given, dropped otherwise"""
    out = []
    for w in ws:
        if w > 0:
            out.append(w)
        elif sub is not None:
            out.append(sub)
    return out


# ---- Debye crystal ------------------------------------------------------------------
def debye_f(x):
    """integrand of the Debye function D3: x^3 / (e^x - 1)"""
    return x**3 / (exp(x) - 1)


def debye_g(x):
    """x^2 ln(1 - e^-x)"""
    return x**2 * log(1 - exp(-x))


def debye_k(x):
    """x^4 e^x / (e^x - 1)^2"""
    return x**4 * exp(x) / (exp(x) - 1)**2
