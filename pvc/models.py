"""Models of builtins, of the methods of native containers/strings, and of the
external libraries (numpy, math, warnings, inspect, copy, collections ...).

Every model is either exact for the values it accepts or raises Unsupported.
External numerical routines without a contract (np.polyfit, lstsq, roots,
quad, minimize) are *not* modelled here; the contract layer supplies their
assumed contracts explicitly (DESIGN section 7).
"""
import ast
import math
import z3
from fractions import Fraction
from .values import (Sym, NDArr, GenArr, SumV, Opaque, Obj, PyClass, FuncV,
                     BoundMethod, PropertyV, Builtin, ExcClass, ExcObj,
                     PyRaise, raise_, ModuleV, Unsupported, mk, to_frac,
                     is_num, is_concrete_num, z3real, z3int, z3bool, z3str)
from .ops import map_arr, zip_arr, _flatten, _hk, _isstr, _is_scalar, _is_int

ADD, SUB, MUL, DIV = ast.Add(), ast.Sub(), ast.Mult(), ast.Div()


class TypeV:
    """A builtin / numpy type used with isinstance() or as a constructor."""

    def __init__(self, name, check, construct=None):
        self.name = name
        self.check = check
        self.construct = construct

    def sym_call(self, interp, args, kwargs):
        if self.construct is None:
            raise Unsupported('constructor %s' % self.name)
        return self.construct(interp, *args, **kwargs)

    def sym_getattr(self, name, interp):
        if name == '__name__':
            return self.name
        if self.name == 'dict' and name == 'fromkeys':
            return Builtin('dict.fromkeys',
                           lambda ks, v=None: {_hk(k): v
                                               for k in interp.iterate(ks)})
        raise_('AttributeError', name)

    def __repr__(self):
        return "<class '%s'>" % self.name


class CodeV:
    def __init__(self, fv):
        self.fv = fv

    def sym_getattr(self, name, interp):
        a = self.fv.node.args
        pos = [p.arg for p in a.posonlyargs + a.args]
        if name == 'co_argcount':
            return len(pos)
        if name == 'co_varnames':
            names = list(pos) + [p.arg for p in a.kwonlyargs]
            if a.vararg:
                names.append(a.vararg.arg)
            if a.kwarg:
                names.append(a.kwarg.arg)
            # locals follow; callers only ever slice [:co_argcount]
            return tuple(names)
        raise Unsupported('CodeV.%s (no model)' % name)


class OpaqueStr(Opaque):
    """some string whose text is not modelled (message text)"""


# ------------------------------------------------------------------ kwargs

def make_kwargs(interp, kwargs):
    return dict(kwargs)


def merge_kwargs(interp, kwargs, d):
    if hasattr(d, 'sym_kwitems'):
        return d.sym_kwitems(interp, kwargs)
    if not isinstance(d, dict):
        raise_('TypeError', 'argument after ** must be a mapping')
    for k, v in d.items():
        if not isinstance(k, str):
            raise_('TypeError', 'keywords must be strings')
        if k in kwargs:
            raise_('TypeError', "got multiple values for keyword argument "
                   "'%s'" % k)
        kwargs[k] = v


def first_key(kwargs):
    for k in kwargs:
        return k


# ------------------------------------------------------------------ numbers

def to_float(interp, x=0):
    if isinstance(x, bool):
        return Fraction(int(x))
    if isinstance(x, (int, Fraction)):
        return Fraction(x)
    if isinstance(x, Sym):
        if x.kind == 'real':
            return x
        if x.kind == 'int':
            return mk(z3.ToReal(x.t))
        if x.kind == 'bool':
            return mk(z3real(x))
        raise Unsupported('float() of symbolic string')
    if isinstance(x, str):
        try:
            f = float(x.strip())
        except ValueError:
            raise_('ValueError', 'could not convert string to float')
        if f != f or f in (float('inf'), float('-inf')):
            return InfV(f)
        return to_frac(f)
    if isinstance(x, NDArr):
        fl = _flatten(x.data)
        if len(fl) == 1:
            return to_float(interp, fl[0])
        raise_('TypeError', 'only length-1 arrays can be converted')
    if isinstance(x, InfV):
        return x
    if type(x).__name__ == 'SStr':
        from . import sstr
        return sstr.to_float(x, interp.ops)
    if x is None:
        raise_('TypeError', 'float() argument must be a string or a number')
    if isinstance(x, (list, tuple, dict)):
        raise_('TypeError', 'float() argument must be a string or a number')
    raise Unsupported('float(%r)' % type(x))


def to_int(interp, x=0, base=None):
    if isinstance(x, bool):
        return int(x)
    if isinstance(x, int):
        return x
    if isinstance(x, Fraction):
        return math.trunc(x)
    if isinstance(x, Sym):
        if x.kind == 'int':
            return x
        if x.kind == 'real':
            t = x.t
            return mk(z3.If(t >= 0, z3.ToInt(t), -z3.ToInt(-t)))
        if x.kind == 'bool':
            return mk(z3int(x))
        if x.kind == 'str':
            return interp.strings.str_to_int(x)
    if type(x).__name__ == 'SStr':
        from . import sstr
        return sstr.to_int(x, interp.ops)
    if isinstance(x, str):
        try:
            return int(x.strip()) if base is None else int(x.strip(), base)
        except ValueError:
            raise_('ValueError', 'invalid literal for int()')
    if isinstance(x, NDArr):
        fl = _flatten(x.data)
        if len(fl) == 1:
            return to_int(interp, fl[0])
        raise_('TypeError', 'only length-1 arrays can be converted')
    if x is None or isinstance(x, (list, tuple, dict)):
        raise_('TypeError', 'int() argument must be a string or a number')
    raise Unsupported('int(%r)' % type(x))


class InfV:
    """+-inf / nan as produced by np.inf or float('inf'); only comparisons
    against it and passing it around are modelled."""

    def __init__(self, f):
        self.f = f

    def __repr__(self):
        return 'InfV(%r)' % self.f


def py_abs(interp, x):
    if is_concrete_num(x):
        return abs(x)
    if isinstance(x, Sym):
        if x.kind == 'int':
            return mk(z3.If(x.t >= 0, x.t, -x.t))
        return mk(z3.If(x.t >= 0, x.t, -x.t))
    if isinstance(x, NDArr):
        return NDArr(map_arr(lambda e: py_abs(interp, e), x.data))
    if isinstance(x, GenArr):
        return GenArr(x.n, lambda i: py_abs(interp, x.elem(i)))
    raise Unsupported('abs(%r)' % type(x))


def py_round(interp, x, nd=None):
    if is_concrete_num(x):
        if nd is None:
            return _round_half_even(Fraction(x))
        q = Fraction(10) ** nd
        return Fraction(_round_half_even(Fraction(x) * q)) / q
    if isinstance(x, Sym) and x.kind == 'real' and nd is None:
        # round-half-even on reals
        t = x.t
        fl = z3.ToInt(t)
        frac = t - z3.ToReal(fl)
        even = fl % 2 == 0
        r = z3.If(frac < z3.RealVal('1/2'), fl,
                  z3.If(frac > z3.RealVal('1/2'), fl + 1,
                        z3.If(even, fl, fl + 1)))
        return mk(r)
    if isinstance(x, Sym) and x.kind == 'int':
        return x
    raise Unsupported('round(%r, %r)' % (x, nd))


def _round_half_even(q):
    fl = math.floor(q)
    fr = q - fl
    if fr < Fraction(1, 2):
        return fl
    if fr > Fraction(1, 2):
        return fl + 1
    return fl if fl % 2 == 0 else fl + 1


def py_len(interp, x):
    if isinstance(x, (list, tuple, dict, str, set, frozenset, range)):
        return len(x)
    if type(x).__name__ == 'SStr':
        return x.length(interp.ops)
    if isinstance(x, NDArr):
        if x.ndim == 0:
            raise_('TypeError', 'len() of unsized object')
        return len(x.data)
    if isinstance(x, GenArr):
        return mk(x.n)
    if isinstance(x, Sym) and x.kind == 'str':
        return mk(z3.Length(x.t))
    if hasattr(x, 'sym_len'):
        return x.sym_len(interp)
    if isinstance(x, Obj):
        f, _ = x.cls.lookup('__len__')
        if f is not None:
            return interp.call(BoundMethod(x, f), [], {})
    if isinstance(x, (DataFrameV, RowV)):
        return len(x.rows) if isinstance(x, DataFrameV) else len(x.cells)
    if hasattr(x, 'sym_getattr') or hasattr(x, 'sym_iter'):
        # an object of an external-library model: not a TypeError of the
        # program under verification
        raise Unsupported('len() of %s (no model)' % type(x).__name__)
    raise_('TypeError', "object of type '%s' has no len()"
           % type(x).__name__)


def py_sum(interp, xs, start=0):
    if isinstance(xs, GenArr):
        return np_sum(interp, xs)
    return interp.ops.sum_list(interp.iterate(xs), start)


def py_max(interp, *args, **kw):
    if kw:
        raise Unsupported('max with key/default')
    xs = list(interp.iterate(args[0])) if len(args) == 1 else list(args)
    if not xs:
        raise_('ValueError', 'max() arg is an empty sequence')
    acc = xs[0]
    for x in xs[1:]:
        # python keeps the first maximal element
        acc = interp.ops.ite(interp.ops.compare(ast.Gt(), x, acc), x, acc)
    return acc


def py_min(interp, *args, **kw):
    if kw:
        raise Unsupported('min with key/default')
    xs = list(interp.iterate(args[0])) if len(args) == 1 else list(args)
    if not xs:
        raise_('ValueError', 'min() arg is an empty sequence')
    acc = xs[0]
    for x in xs[1:]:
        acc = interp.ops.ite(interp.ops.compare(ast.Lt(), x, acc), x, acc)
    return acc


def py_sorted(interp, xs, key=None, reverse=False):
    xs = list(interp.iterate(xs))
    if key is not None:
        ks = [interp.call(key, [x], {}) for x in xs]
    else:
        ks = xs
    if all(is_concrete_num(k) or isinstance(k, str) or
           (isinstance(k, tuple) and all(is_concrete_num(e) or
                                         isinstance(e, str) for e in k))
           for k in ks):
        order = sorted(range(len(xs)), key=lambda i: ks[i], reverse=reverse)
        return [xs[i] for i in order]
    if all(is_num(k) for k in ks) and len(ks) <= 5:
        # stable insertion sort by case split on the comparisons
        out = []
        for x, k in zip(xs, ks):
            pos = len(out)
            for j in range(len(out) - 1, -1, -1):
                c = interp.ops.compare(ast.Gt() if not reverse else ast.Lt(),
                                       out[j][1], k)
                if interp.ops.truth(c):
                    pos = j
                else:
                    break
            out.insert(pos, (x, k))
        return [x for x, _ in out]
    raise Unsupported('sorted() of symbolic keys')


def py_isinstance(interp, v, cls):
    return interp.isinstance_(v, cls)


def py_getattr(interp, obj, name, *default):
    if not isinstance(name, str):
        raise Unsupported('getattr with symbolic name')
    if default:
        from .interp import UNBOUND
        return interp.getattr(obj, name, default[0])
    return interp.getattr(obj, name)


def py_type(interp, v):
    if isinstance(v, Obj):
        return v.cls
    for nm, t in TYPES.items():
        if nm in ('float', 'int', 'str', 'list', 'dict', 'tuple', 'bool',
                  'set', 'NoneType') and t.check(v):
            return t
    if isinstance(v, NDArr):
        return TYPES['ndarray']
    raise Unsupported('type(%r)' % type(v))


def py_str(interp, v=''):
    if isinstance(v, str):
        return v
    if isinstance(v, bool) or v is None:
        return str(v)
    if isinstance(v, int):
        return str(v)
    if isinstance(v, Fraction):
        return repr(float(v))
    if isinstance(v, Obj):
        f, _ = v.cls.lookup('__str__')
        if f is not None:
            return interp.call(BoundMethod(v, f), [], {})
    if isinstance(v, PyClass):
        return "<class '%s.%s'>" % (v.module.name, v.name)
    if isinstance(v, TypeV):
        return "<class '%s'>" % v.name
    if isinstance(v, Sym) and v.kind == 'str':
        return v
    if type(v).__name__ == 'SStr':
        return v
    if isinstance(v, Sym) and v.kind == 'int':
        from . import sstr
        return sstr.int_text(v, '', interp)
    if isinstance(v, (list, tuple, dict)) and _all_concrete(v):
        return str(_to_native(v))
    return OpaqueStr('str(%s)' % type(v).__name__)


def _all_concrete(v):
    if isinstance(v, (list, tuple, set)):
        return all(_all_concrete(x) for x in v)
    if isinstance(v, dict):
        return all(_all_concrete(k) and _all_concrete(x)
                   for k, x in v.items())
    return v is None or isinstance(v, (bool, int, str, Fraction))


def _to_native(v):
    if isinstance(v, list):
        return [_to_native(x) for x in v]
    if isinstance(v, tuple):
        return tuple(_to_native(x) for x in v)
    if isinstance(v, dict):
        return {_to_native(k): _to_native(x) for k, x in v.items()}
    if isinstance(v, Fraction):
        return float(v)
    return v


def _chk(pred):
    return lambda v: pred(v)


TYPES = {}


def _init_types():
    T = TYPES
    T['float'] = TypeV('float', lambda v: isinstance(v, Fraction) or
                       isinstance(v, InfV) or
                       (isinstance(v, Sym) and v.kind == 'real'), to_float)
    T['int'] = TypeV('int', lambda v: isinstance(v, int) or
                     (isinstance(v, Sym) and v.kind in ('int', 'bool')),
                     to_int)
    T['bool'] = TypeV('bool', lambda v: isinstance(v, bool) or
                      (isinstance(v, Sym) and v.kind == 'bool'),
                      lambda interp, v=False: _tobool(interp, v))
    T['str'] = TypeV('str', lambda v: _isstr(v) or isinstance(v, OpaqueStr)
                     or type(v).__name__ == 'SStr',
                     py_str)
    T['list'] = TypeV('list', lambda v: isinstance(v, list),
                      lambda interp, v=(): list(interp.iterate(v)))
    T['tuple'] = TypeV('tuple', lambda v: isinstance(v, tuple),
                       lambda interp, v=(): tuple(interp.iterate(v)))
    T['dict'] = TypeV('dict', lambda v: isinstance(v, dict), _mkdict)
    T['set'] = TypeV('set', lambda v: isinstance(v, (set, frozenset)),
                     lambda interp, v=(): set(_hk(x)
                                              for x in interp.iterate(v)))
    T['NoneType'] = TypeV('NoneType', lambda v: v is None)
    T['object'] = TypeV('object', lambda v: True,
                        construct=lambda it: Opaque('object'))
    T['ndarray'] = TypeV('ndarray', lambda v: isinstance(v, (NDArr, GenArr)))
    T['np.floating'] = TypeV('floating', lambda v: getattr(
        v, 'np_scalar', None) == 'floating')
    T['np.integer'] = TypeV('integer', lambda v: getattr(
        v, 'np_scalar', None) == 'integer')
    T['np.double'] = TypeV('float64', lambda v: False, to_float)
    T['np.generic'] = TypeV('generic', lambda v: getattr(
        v, 'np_scalar', None) is not None)


def _tobool(interp, v):
    t = interp.ops.truth_value(v)
    return t


def _mkdict(interp, *args, **kw):
    d = {}
    if args:
        src = args[0]
        if isinstance(src, dict):
            d.update(src)
        elif hasattr(src, 'sym_todict'):
            d.update(src.sym_todict(interp))
        else:
            for pair in interp.iterate(src):
                k, v = interp.iterate(pair)
                d[_hk(k)] = v
    d.update(kw)
    return d


_init_types()


def builtins(interp):
    B = {}

    def reg(name, fn, pi=True):
        B[name] = Builtin(name, fn, pass_interp=pi)

    reg('len', py_len)
    reg('abs', py_abs)
    reg('round', py_round)
    reg('sum', py_sum)
    reg('max', py_max)
    reg('min', py_min)
    reg('sorted', py_sorted)
    reg('isinstance', py_isinstance)
    reg('getattr', py_getattr)
    reg('hasattr', lambda it, o, n: it.hasattr(o, n))
    reg('setattr', lambda it, o, n, v: it.setattr(o, n, v))
    reg('type', py_type)
    reg('print', lambda it, *a, **k: it.ctx.event('print'))
    reg('range', lambda it, *a: _range(it, *a))
    reg('zip', lambda it, *a: _zip(it, *a))
    reg('enumerate', lambda it, xs, start=0: _enumerate(it, xs, start))
    reg('reversed', lambda it, xs: list(reversed(list(it.iterate(xs)))))
    reg('any', lambda it, xs: it.ops.any_(
        [it.ops.truth_value(x) for x in it.iterate(xs)]))
    reg('all', lambda it, xs: it.ops.all_(
        [it.ops.truth_value(x) for x in it.iterate(xs)]))
    reg('callable', lambda it, f: isinstance(f, (FuncV, BoundMethod, Builtin,
                                                 PyClass, TypeV)))
    reg('iter', lambda it, xs: _Iter(list(it.iterate(xs))))
    reg('next', lambda it, i, *d: i.next(*d))
    reg('id', lambda it, o: id(o))
    reg('repr', lambda it, v: py_str(it, v) if not isinstance(v, str)
        else repr(v))
    reg('issubclass', lambda it, a, b: isinstance(a, PyClass) and
        isinstance(b, PyClass) and a.issubclass(b))
    reg('open', lambda it, *a, **k: it.open_file(*a, **k))
    reg('map', lambda it, f, xs: [it.call(f, [x], {})
                                  for x in it.iterate(xs)])
    reg('filter', lambda it, f, xs: [x for x in it.iterate(xs) if it.ops.truth(
        it.call(f, [x], {}) if f is not None else x)])
    reg('vars', lambda it, o: o.fields)
    reg('divmod', lambda it, a, b: (it.ops.binop(ast.FloorDiv(), a, b),
                                    it.ops.binop(ast.Mod(), a, b)))
    reg('pow', lambda it, a, b: it.ops.power(a, b))
    reg('ord', lambda it, c: ord(c))
    reg('chr', lambda it, c: chr(c))
    reg('frozenset', lambda it, v=(): frozenset(_hk(x)
                                                for x in it.iterate(v)))
    for nm in ('float', 'int', 'bool', 'str', 'list', 'tuple', 'dict', 'set',
               'object'):
        B[nm] = TYPES[nm]
    for nm in ExcClass.HIER:
        B[nm] = ExcClass(nm)
    B['None'] = None
    B['True'] = True
    B['False'] = False
    B['NotImplemented'] = Opaque('NotImplemented')
    B['__name__'] = '__pvc__'
    return B


class _Iter:
    def __init__(self, items):
        self.items = items
        self.i = 0

    def next(self, *d):
        if self.i < len(self.items):
            self.i += 1
            return self.items[self.i - 1]
        if d:
            return d[0]
        raise_('StopIteration')

    def sym_iter(self, interp):
        out = self.items[self.i:]
        self.i = len(self.items)
        return out

    def live_iter(self):
        # a `for` loop pulls one item at a time: `break` leaves the rest
        while self.i < len(self.items):
            self.i += 1
            yield self.items[self.i - 1]


def _cint(x):
    if isinstance(x, bool):
        return int(x)
    if isinstance(x, int):
        return x
    if isinstance(x, Fraction) and x.denominator == 1:
        raise_('TypeError', "'float' object cannot be interpreted as an "
               "integer")
    raise Unsupported('symbolic range bound %r' % (x,))


def _range(interp, *a):
    vals = []
    for x in a:
        if isinstance(x, Sym) and x.kind == 'int':
            # a symbolic bound: case split on its value within a small range
            # determined by the path condition (loop bounds such as
            # range(i_ref + 1, len(a)) with i_ref an index)
            v = None
            for k in range(-2, 16):
                if interp.ctx.branch(mk(x.t == k)):
                    v = k
                    break
            if v is None:
                raise Unsupported('symbolic range bound outside -2..15')
            vals.append(v)
        else:
            vals.append(_cint(x))
    return range(*vals)


class SymRange:
    """range(n) for symbolic n (needs a loop rule)"""

    def __init__(self, n):
        self.n = n


def _zip(interp, *seqs):
    if any(isinstance(s, GenArr) for s in seqs):
        gs = list(seqs)
        if not all(isinstance(s, GenArr) for s in gs):
            raise Unsupported('zip of symbolic and concrete sequences')
        n = gs[0].n
        for g in gs[1:]:
            if not interp.ctx.prove(g.n == n):
                raise Unsupported('zip of GenArr with different lengths')
        return GenArr(n, lambda i: tuple(g.elem(i) for g in gs))
    lists = [list(interp.iterate(s)) for s in seqs]
    return [tuple(t) for t in zip(*lists)]


def _enumerate(interp, xs, start=0):
    if isinstance(xs, GenArr):
        return GenArr(xs.n, lambda i: (mk(i + start) if not isinstance(
            i, int) else i + start, xs.elem(i)))
    return [(i + start, x) for i, x in enumerate(interp.iterate(xs))]


# ------------------------------------------------------------------ methods

_LIST_ANY = {'append', 'insert', 'pop', 'extend', 'copy', 'clear', 'reverse'}
_LIST_CONC = {'index', 'remove', 'count', 'sort'}


def _sstr_method(interp, v, name):
    from . import sstr
    ops = interp.ops
    if name == 'rfind':
        return Builtin('rfind', lambda nd: sstr.find(v, nd, ops, True))
    if name == 'find':
        return Builtin('find', lambda nd, start=None: sstr.find(
            v, nd, ops, False) if start is None else sstr.find_from(
                v, nd, start, ops))
    if name == 'replace':
        return Builtin('replace', lambda o, n: sstr.replace(v, o, n, ops))
    if name == 'split':
        return Builtin('split', lambda sep=None: sstr.split(v, sep, ops))
    if name in ('strip', 'lstrip', 'rstrip'):
        return Builtin(name, lambda chars=None: sstr.strip(
            v, chars, ops, left=name != 'rstrip', right=name != 'lstrip'))
    if name == 'startswith':
        def sw(prefix):
            if not isinstance(prefix, str):
                raise Unsupported('startswith symbolic')
            p0 = v.pieces[0] if v.pieces else ''
            if isinstance(p0, str) and len(p0) >= len(prefix):
                return p0.startswith(prefix)
            if not isinstance(p0, str) and prefix:
                # unknown pieces are non-empty runs over a known alphabet
                a, lo, _hi = sstr._alphabet(p0)
                if lo >= 1 and prefix[0] not in a:
                    return False
            n = v.concrete_len()
            if n is not None and n < len(prefix):
                return False
            return sstr.equals(sstr.slice_(v, 0, len(prefix), ops), prefix,
                               ops)
        return Builtin('startswith', sw)
    if name == 'endswith':
        def ew(suffix):
            pl = v.pieces[-1] if v.pieces else ''
            if isinstance(suffix, str) and isinstance(pl, str) and \
                    len(pl) >= len(suffix):
                return pl.endswith(suffix)
            n = v.concrete_len()
            if n is None or not isinstance(suffix, str):
                raise Unsupported('endswith symbolic')
            if n < len(suffix):
                return False
            return sstr.equals(sstr.slice_(v, n - len(suffix), n, ops),
                               suffix, ops)
        return Builtin('endswith', ew)
    if name == 'join':
        def join(xs):
            out = []
            for i, part in enumerate(interp.iterate(xs)):
                if i:
                    out.append(v)
                out.append(part)
            return sstr.simplify(sstr.SStr(out))
        return Builtin('join', join)
    if name in ('ljust', 'rjust', 'center'):
        def just(width, fill=' ', _n=name):
            if not isinstance(width, int):
                raise Unsupported('%s with symbolic width' % _n)
            return sstr.pad_text(v, '%s%s%d' % (
                fill, {'ljust': '<', 'rjust': '>', 'center': '^'}[_n], width))
        return Builtin(name, just)
    if name == 'format':
        raise Unsupported('structured string used as a format string')
    return None


def method(interp, v, name):
    if type(v).__name__ == 'SStr':
        return _sstr_method(interp, v, name)
    if isinstance(v, list):
        return _list_method(interp, v, name)
    if isinstance(v, dict):
        return _dict_method(interp, v, name)
    if isinstance(v, str):
        return _str_method(interp, v, name)
    if isinstance(v, tuple):
        if name in ('index', 'count'):
            return _list_method(interp, list(v), name)
        return None
    if isinstance(v, (set, frozenset)):
        if name in ('add', 'discard', 'remove', 'update', 'union',
                    'intersection', 'difference', 'copy', 'issubset',
                    'issuperset', 'pop', 'clear', 'symmetric_difference'):
            def m(*a, _n=name):
                a = [set(_hk(x) for x in interp.iterate(y))
                     if isinstance(y, (list, tuple, set, frozenset, dict))
                     else _hk(y) for y in a]
                return getattr(v, _n)(*a)
            return Builtin('set.' + name, m)
        return None
    if isinstance(v, NDArr):
        return _nd_method(interp, v, name)
    if isinstance(v, GenArr):
        if name == 'sum':
            return Builtin('sum', lambda: np_sum(interp, v))
        return None
    if isinstance(v, Sym) and v.kind == 'str':
        return interp.strings.method(v, name)
    if is_num(v):
        if name == 'item':
            return Builtin('item', lambda *a: v)
        if name == 'is_integer' and isinstance(v, Fraction):
            return Builtin('is_integer', lambda: v.denominator == 1)
        if name == 'real':
            return v
        return None
    if isinstance(v, OpaqueStr):
        if name in ('format', 'strip', 'lower', 'upper', 'join'):
            return Builtin(name, lambda *a, **k: OpaqueStr('derived'))
        return None
    return None


def _list_method(interp, lst, name):
    ops = interp.ops
    if name in _LIST_ANY or name in ('remove', 'sort'):
        interp.mutlog.append(lst)
    if name == 'append':
        return Builtin('append', lambda x: lst.append(x))
    if name == 'extend':
        return Builtin('extend', lambda xs: lst.extend(interp.iterate(xs)))
    if name == 'copy':
        return Builtin('copy', lambda: list(lst))
    if name == 'clear':
        return Builtin('clear', lambda: lst.clear())
    if name == 'reverse':
        return Builtin('reverse', lambda: lst.reverse())
    if name == 'insert':
        def ins(i, x):
            if isinstance(i, Sym):
                n = len(lst)
                # list.insert clamps; enumerate the effective position
                for k in range(n + 1):
                    if interp.ctx.branch(mk(z3.Or(
                            i.t == k, i.t == k - n - 1) if k <= n and k - n - 1 < 0
                            else i.t == k)):
                        lst.insert(k, x)
                        return None
                if interp.ctx.branch(mk(i.t > n)):
                    lst.append(x)
                else:
                    lst.insert(0, x)
                return None
            lst.insert(_cint(i), x)
        return Builtin('insert', ins)
    if name == 'pop':
        def pop(i=-1):
            if not lst:
                raise_('IndexError', 'pop from empty list')
            k = interp.concretize_index(i, len(lst))
            try:
                return lst.pop(k)
            except IndexError:
                raise_('IndexError', 'pop index out of range')
        return Builtin('pop', pop)
    if name == 'index':
        def index(x, *rest):
            if rest:
                raise Unsupported('list.index with start')
            for k, e in enumerate(lst):
                if ops.truth(ops.equals(e, x)):
                    return k
            raise_('ValueError', 'value is not in list')
        return Builtin('index', index)
    if name == 'remove':
        def remove(x):
            for k, e in enumerate(lst):
                if ops.truth(ops.equals(e, x)):
                    del lst[k]
                    return None
            raise_('ValueError', 'list.remove(x): x not in list')
        return Builtin('remove', remove)
    if name == 'count':
        return Builtin('count', lambda x: ops.sum_list(
            [ops.ite(ops.equals(e, x), 1, 0)
             if isinstance(ops.equals(e, x), Sym)
             else int(ops.equals(e, x)) for e in lst]))
    if name == 'sort':
        def sort(key=None, reverse=False):
            lst[:] = py_sorted(interp, lst, key, reverse)
        return Builtin('sort', sort)
    return None


class PairDict:
    """a dict whose keys are structured strings (unknown words): an ordered
    list of (key, value) pairs; lookups compare keys symbolically"""

    def __init__(self, pairs):
        self.pairs = list(pairs)

    def sym_getattr(self, name, interp):
        if name == 'items':
            return Builtin('items', lambda: list(self.pairs))
        if name == 'keys':
            return Builtin('keys', lambda: [k for k, _ in self.pairs])
        if name == 'values':
            return Builtin('values', lambda: [v for _, v in self.pairs])
        if name == 'get':
            def get(k, default=None):
                try:
                    return self.sym_getitem(k, interp)
                except PyRaise as e:
                    if e.exc.cls.isa('KeyError'):
                        return default
                    raise
            return Builtin('get', get)
        raise_('AttributeError', name)

    def sym_iter(self, interp):
        return [k for k, _ in self.pairs]

    def sym_len(self, interp):
        return len(self.pairs)

    def sym_getitem(self, key, interp):
        for k, v in self.pairs:
            if interp.ops.truth(interp.ops.equals(k, key)):
                return v
        raise_('KeyError', key)

    def sym_setitem(self, key, val, interp):
        for i, (k, v) in enumerate(self.pairs):
            if interp.ops.truth(interp.ops.equals(k, key)):
                self.pairs[i] = (k, val)
                return
        self.pairs.append((key, val))

    def sym_contains(self, item, ops):
        return ops.any_([ops.equals(k, item) for k, _ in self.pairs])

    def sym_truth(self, ops):
        return len(self.pairs) > 0


class OptResultV:
    def __init__(self, x, success):
        self.x = x
        self.success = success

    def sym_getattr(self, name, interp):
        if name == 'x':
            return self.x
        if name == 'success':
            return self.success
        if name in ('message', 'status', 'nit', 'fun'):
            return OpaqueStr('minimize.' + name)
        raise Unsupported('OptResultV.%s (no model)' % name)


class NullCell:
    """an empty spreadsheet cell (pandas NaN)"""

    def __repr__(self):
        return 'NaN'


NULL = NullCell()


class DataFrameV:
    """assumed contract of pandas.read_excel: rows in sheet order, one
    (header, cell) pair per column in column order, NaN for an empty cell,
    duplicate headers mangled as 'h', 'h.1', 'h.2' ..."""

    def __init__(self, headers, rows):
        seen = {}
        hs = []
        for h in headers:
            if h in seen:
                seen[h] += 1
                hs.append('%s.%d' % (h, seen[h]))
            else:
                seen[h] = 0
                hs.append(h)
        self.headers = hs
        self.rows = rows

    def sym_getattr(self, name, interp):
        if name == 'iterrows':
            return Builtin('iterrows', lambda: [
                (i, RowV(self.headers, r)) for i, r in enumerate(self.rows)])
        # the rest of the pandas API is outside the modelled subset (not an
        # AttributeError of the program under verification)
        raise Unsupported('pandas DataFrame.%s (no model)' % name)

    def sym_getitem(self, idx, interp):
        raise Unsupported('pandas DataFrame[...] (no model)')

    def sym_setitem(self, idx, v, interp):
        raise Unsupported('pandas DataFrame[...] = ... (no model)')


class RowV:
    def __init__(self, headers, cells):
        self.headers = headers
        self.cells = cells

    def sym_getattr(self, name, interp):
        if name == 'items' or name == 'iteritems':
            return Builtin('items', lambda: list(zip(self.headers,
                                                     self.cells)))
        raise Unsupported('pandas Series.%s (no model)' % name)


class FileV:
    """a text file with known (structured) contents"""

    def __init__(self, text):
        self.text = text

    def lines(self, interp):
        from . import sstr
        parts = sstr.split(self.text, '\n', interp.ops)
        out = []
        for k, p in enumerate(parts):
            last = k == len(parts) - 1
            if last:
                if not (isinstance(p, str) and p == ''):
                    out.append(p)
            else:
                out.append(sstr.concat(p, '\n'))
        return out


class OpenFileV:
    def __init__(self, f, mode):
        self.f = f
        self.mode = mode

    def sym_enter(self, interp):
        return self

    def sym_iter(self, interp):
        return self.f.lines(interp)

    def sym_getattr(self, name, interp):
        if name == 'readlines':
            return Builtin('readlines', lambda: self.f.lines(interp))
        if name == 'read':
            return Builtin('read', lambda: self.f.text)
        if name == 'close':
            return Builtin('close', lambda: None)
        raise Unsupported('OpenFileV.%s (no model)' % name)


class DictView:
    """dict.keys() / items() / values(): a live view; iterating while the
    dict changes size raises RuntimeError as in CPython"""

    def __init__(self, d, kind):
        self.d = d
        self.kind = kind

    def snapshot(self):
        if self.kind == 'keys':
            return list(self.d.keys())
        if self.kind == 'values':
            return list(self.d.values())
        return [(k, v) for k, v in self.d.items()]

    def sym_iter(self, interp):
        return self.snapshot()

    def live_iter(self):
        n = len(self.d)
        for x in self.snapshot():
            if len(self.d) != n:
                raise_('RuntimeError', 'dictionary changed size during '
                       'iteration')
            yield x
        if len(self.d) != n:
            raise_('RuntimeError', 'dictionary changed size during iteration')

    def sym_len(self, interp):
        return len(self.d)

    def sym_contains(self, item, ops):
        return ops.contains(self.snapshot(), item)


def _dict_method(interp, d, name):
    if name in ('clear', 'update', 'pop', 'setdefault'):
        interp.mutlog.append(d)
    if name == 'get':
        def get(k, default=None):
            try:
                return interp.dict_get(d, k)
            except PyRaise as e:
                if e.exc.cls.isa('KeyError'):
                    return default
                raise
        return Builtin('get', get)
    if name in ('items', 'keys', 'values'):
        return Builtin(name, lambda: DictView(d, name))
    if name == 'copy':
        return Builtin('copy', lambda: dict(d))
    if name == 'clear':
        return Builtin('clear', lambda: d.clear())
    if name == 'update':
        def update(*a, **kw):
            if a:
                d.update(_mkdict(interp, a[0]))
            d.update(kw)
        return Builtin('update', update)
    if name == 'pop':
        def pop(k, *default):
            try:
                v = interp.dict_get(d, k)
            except PyRaise as e:
                if e.exc.cls.isa('KeyError') and default:
                    return default[0]
                raise
            for kk in list(d):
                if interp.ops.equals(kk, k) is True:
                    del d[kk]
                    return v
            # symbolic key equal on this path
            for kk in list(d):
                if d[kk] is v:
                    del d[kk]
                    return v
            raise Unsupported('dict.pop symbolic')
        return Builtin('pop', pop)
    if name == 'setdefault':
        def setdefault(k, default=None):
            hk = _hk(k)
            if hk not in d:
                d[hk] = default
            return d[hk]
        return Builtin('setdefault', setdefault)
    return None


_STR_SIMPLE = {'lower', 'upper', 'strip', 'lstrip', 'rstrip', 'split',
               'rsplit', 'startswith', 'endswith', 'find', 'rfind', 'replace',
               'isdigit', 'isalpha', 'isnumeric', 'isalnum', 'isupper',
               'islower', 'title', 'capitalize', 'count', 'index', 'ljust',
               'rjust', 'center', 'zfill', 'splitlines', 'partition',
               'rpartition', 'isspace', 'swapcase', 'encode', 'expandtabs'}


def _str_method(interp, s, name):
    if name in _STR_SIMPLE:
        def m(*a, _n=name, **k):
            if all(isinstance(x, (str, int, tuple)) or x is None for x in a):
                try:
                    return getattr(s, _n)(*a, **k)
                except ValueError as e:
                    raise_('ValueError', str(e))
            if any(_isstr(x) for x in a):
                return getattr(interp.strings.method(Sym(z3.StringVal(s)),
                                                     _n), 'fn')(*a, **k)
            raise Unsupported('str.%s with %r' % (_n, a))
        return Builtin('str.' + name, m)
    if name == 'format':
        return Builtin('str.format',
                       lambda *a, **k: str_format(interp, s, a, k))
    if name == 'join':
        def join(xs):
            parts = list(interp.iterate(xs))
            if all(isinstance(p, str) for p in parts):
                return s.join(parts)
            if all(isinstance(p, str) or type(p).__name__ == 'SStr'
                   for p in parts):
                from . import sstr
                out = []
                for i, part in enumerate(parts):
                    if i:
                        out.append(s)
                    out.append(part)
                return sstr.simplify(sstr.SStr(out))
            out = []
            for i, p in enumerate(parts):
                if i:
                    out.append(s)
                out.append(p)
            return concat_strs(interp, out)
        return Builtin('str.join', join)
    return None


def str_format(interp, fmt, args, kwargs):
    if _all_concrete(list(args)) and _all_concrete(kwargs):
        try:
            return fmt.format(*[_to_native(a) for a in args],
                              **{k: _to_native(v) for k, v in kwargs.items()})
        except (ValueError, KeyError, IndexError, TypeError) as e:
            raise_(type(e).__name__, str(e))
    from . import sstr
    r = sstr.format_(fmt, args, kwargs, interp)
    if r is not None:
        return r
    return OpaqueStr('format')


def str_percent(interp, fmt, arg):
    args = arg if isinstance(arg, tuple) else (arg,)
    if _all_concrete(list(args)):
        try:
            return fmt % tuple(_to_native(a) for a in args)
        except (ValueError, TypeError) as e:
            raise_(type(e).__name__, str(e))
    from . import sstr
    r = sstr.percent(fmt, args, interp)
    if r is not None:
        return r
    return OpaqueStr('percent-format')


def format_value(interp, x, spec, conv):
    if _all_concrete(x) and isinstance(spec, str):
        v = _to_native(x)
        if conv == ord('r'):
            v = repr(v)
        elif conv == ord('s'):
            v = str(v)
        return format(v, spec)
    return OpaqueStr('fstring')


def concat_strs(interp, parts):
    if all(isinstance(p, str) for p in parts):
        return ''.join(parts)
    if any(isinstance(p, OpaqueStr) for p in parts):
        return OpaqueStr('concat')
    if all(_isstr(p) for p in parts):
        return mk(z3.Concat(*[z3str(p) for p in parts])) if len(parts) > 1 \
            else parts[0]
    return OpaqueStr('concat')


# ------------------------------------------------------------------ numpy

class GenStack:
    """np.array([g1, g2, ...]) of symbolic-length rows (shape (k, n))"""

    def __init__(self, rows):
        self.rows = rows


def _asdata(interp, x):
    """array-like -> nested list data (or scalar)"""
    if isinstance(x, NDArr):
        return x.data
    if isinstance(x, GenStack):
        return x
    if isinstance(x, (list, tuple)):
        if x and all(isinstance(e, GenArr) for e in x):
            return GenStack(list(x))
        return [_asdata(interp, e) for e in x]
    if isinstance(x, range):
        return list(x)
    if isinstance(x, GenArr):
        raise Unsupported('GenArr in shaped-array context')
    return x


def np_array(interp, x, dtype=None, **kw):
    if isinstance(x, GenArr):
        return x
    d = _asdata(interp, x)
    if isinstance(d, GenStack):
        return d
    if isinstance(d, list):
        # ragged / mixed scalar+array rows: numpy would broadcast or fail
        _check_rect(d)
        return NDArr(_copy_data(d))
    return NDArr(d) if False else d if _is_scalar(d) else NDArr(d)


def _copy_data(d):
    return [_copy_data(x) for x in d] if isinstance(d, list) else d


def _check_rect(d):
    if not isinstance(d, list) or not d:
        return
    kinds = [isinstance(x, list) for x in d]
    if any(kinds) and not all(kinds):
        raise Unsupported('inhomogeneous array')
    if all(kinds):
        ln = {len(x) for x in d}
        if len(ln) > 1:
            raise_('ValueError', 'inhomogeneous shape')
        for x in d:
            _check_rect(x)


def _shape_of(interp, shape):
    if isinstance(shape, (tuple, list)):
        return tuple(_cint(s) for s in shape)
    if isinstance(shape, Sym) and shape.kind == 'int':
        return ('sym', shape)
    return (_cint(shape),)


def _full(shape, val):
    if not shape:
        return val
    return [_full(shape[1:], val) for _ in range(shape[0])]


def np_full(interp, shape, fill_value, **kw):
    sh = _shape_of(interp, shape)
    if sh and sh[0] == 'sym':
        return GenArr(sh[1].t, lambda i: fill_value)
    return NDArr(_full(sh, fill_value))


def np_like(val):
    def f(interp, a, dtype=None, fill_value=None, **kw):
        v = val if fill_value is None else fill_value
        if isinstance(a, GenArr):
            return GenArr(a.n, lambda i: v)
        d = _asdata(interp, a)
        if not isinstance(d, list):
            return v
        return NDArr(map_arr(lambda e: v, d))
    return f


def np_full_like(interp, a, fill_value, dtype=None, **kw):
    if a is None:
        raise Unsupported('full_like(None)')
    return np_like(None)(interp, a, fill_value=fill_value)


def _elementwise(fn):
    def f(interp, x, *rest, **kw):
        if isinstance(x, NDArr):
            return NDArr(map_arr(lambda e: fn(interp, e), x.data))
        if isinstance(x, (list, tuple)):
            return NDArr(map_arr(lambda e: fn(interp, e),
                                 _asdata(interp, x)))
        if isinstance(x, GenArr):
            return GenArr(x.n, lambda i: fn(interp, x.elem(i)))
        return fn(interp, x)
    return f


def _exp(interp, x):
    if is_concrete_num(x) and x == 0:
        return Fraction(1)
    return interp.ctx.exp(x)


def _log(interp, x):
    if is_concrete_num(x):
        if x <= 0:
            raise Unsupported('log of non-positive constant')
        if x == 1:
            return Fraction(0)
    return interp.ctx.log_checked(x)


def _sqrt(interp, x):
    if is_concrete_num(x):
        return interp.ops.power(Fraction(x), Fraction(1, 2))
    return interp.ctx.sqrt_checked(x)


def _sinh(interp, x):
    e1 = _exp(interp, x)
    e2 = _exp(interp, interp.ops.unary(ast.USub(), x))
    return interp.ops.binop(DIV, interp.ops.binop(SUB, e1, e2), 2)


def _cosh(interp, x):
    e1 = _exp(interp, x)
    e2 = _exp(interp, interp.ops.unary(ast.USub(), x))
    return interp.ops.binop(DIV, interp.ops.binop(ADD, e1, e2), 2)


def np_sum(interp, x, axis=None, **kw):
    if isinstance(x, GenArr):
        return SumV(x.n, x.elem, 0, 'sum')
    if isinstance(x, SumV):
        return x
    d = _asdata(interp, x)
    if isinstance(d, GenStack):
        if axis is not None:
            raise Unsupported('axis sum over symbolic-length rows')
        return interp.ops.sum_list([np_sum(interp, g) for g in d.rows[1:]],
                                   np_sum(interp, d.rows[0]))
    if not isinstance(d, list):
        return d
    if axis is None:
        return interp.ops.sum_list(_flatten(d))
    axis = _cint(axis)
    return _reduce_axis(interp, d, axis, lambda xs: interp.ops.sum_list(xs))


def np_prod(interp, x, axis=None, **kw):
    if isinstance(x, GenArr):
        return SumV(x.n, x.elem, 1, 'prod')
    d = _asdata(interp, x)
    if isinstance(d, GenStack):
        acc = np_prod(interp, d.rows[0])
        for g in d.rows[1:]:
            acc = interp.ops.binop(MUL, acc, np_prod(interp, g))
        return acc
    if not isinstance(d, list):
        return d
    if axis is None:
        return interp.ops.prod_list(_flatten(d))
    return _reduce_axis(interp, d, _cint(axis),
                        lambda xs: interp.ops.prod_list(xs))


def _reduce_axis(interp, d, axis, red):
    arr = NDArr(d)
    nd = arr.ndim
    if axis < 0:
        axis += nd
    if nd == 1:
        if axis != 0:
            raise_('ValueError', 'axis out of bounds')
        return red(d)
    if axis == 0:
        cols = list(zip(*d))
        out = [_reduce_axis(interp, list(c), 0, red) if isinstance(c[0], list)
               and False else None for c in cols]
        # general: reduce over first axis element-wise
        def comb(items):
            if isinstance(items[0], list):
                return [comb([it[k] for it in items])
                        for k in range(len(items[0]))]
            return red(list(items))
        return NDArr(comb(d)) if isinstance(comb(d), list) else comb(d)
    return NDArr([_unwrap(_reduce_axis(interp, row, axis - 1, red))
                  for row in d])


def _unwrap(x):
    return x.data if isinstance(x, NDArr) else x


def np_max(interp, x, axis=None, **kw):
    if isinstance(x, RootsV) and x.stage == 'real':
        return _select_root(interp, x)
    d = _asdata(interp, x)
    if not isinstance(d, list):
        return d
    if axis is None:
        fl = _flatten(d)
        if not fl:
            raise_('ValueError', 'zero-size array to reduction operation')
        return py_max(interp, fl)
    return _reduce_axis(interp, d, _cint(axis), lambda xs: py_max(interp, xs))


def np_min(interp, x, axis=None, **kw):
    if isinstance(x, RootsV) and x.stage == 'real':
        return _select_root(interp, x, 'min')
    d = _asdata(interp, x)
    if not isinstance(d, list):
        return d
    if axis is None:
        fl = _flatten(d)
        if not fl:
            raise_('ValueError', 'zero-size array to reduction operation')
        return py_min(interp, fl)
    return _reduce_axis(interp, d, _cint(axis), lambda xs: py_min(interp, xs))


def np_mean(interp, x, axis=None, **kw):
    d = _asdata(interp, x)
    if not isinstance(d, list):
        return d
    if axis is not None:
        raise Unsupported('mean with axis')
    fl = _flatten(d)
    if not fl:
        raise Unsupported('mean of empty')
    return interp.ops.binop(DIV, interp.ops.sum_list(fl), len(fl))


def _argbest(interp, xs, better):
    """index of the first best element (numpy argmax/argmin semantics) as a
    z3 Int expression"""
    ops = interp.ops
    best = xs[0]
    idx = 0
    for k in range(1, len(xs)):
        c = better(xs[k], best)
        idx = ops.ite(c, k, idx)
        best = ops.ite(c, xs[k], best) if not isinstance(c, bool) else (
            xs[k] if c else best)
    return idx


def np_argmax(interp, x, axis=None, **kw):
    d = _asdata(interp, x)
    if not isinstance(d, list):
        return 0
    ops = interp.ops
    if axis is None:
        fl = _flatten(d)
        if not fl:
            raise_('ValueError', 'attempt to get argmax of an empty sequence')
        if all(isinstance(e, (bool, Sym)) and (isinstance(e, bool) or
               e.kind == 'bool') for e in fl):
            # boolean mask: first True, 0 if none
            idx = 0
            for k in range(len(fl) - 1, -1, -1):
                idx = ops.ite(fl[k], k, idx)
            return idx
        return _argbest(interp, fl, lambda a, b: ops.compare(ast.Gt(), a, b))
    return _reduce_axis(interp, d, _cint(axis), lambda xs: _argbest(
        interp, xs, lambda a, b: ops.compare(ast.Gt(), a, b)))


def np_argmin(interp, x, axis=None, **kw):
    d = _asdata(interp, x)
    if not isinstance(d, list):
        return 0
    ops = interp.ops
    if axis is None:
        fl = _flatten(d)
        if not fl:
            raise_('ValueError', 'attempt to get argmin of an empty sequence')
        return _argbest(interp, fl, lambda a, b: ops.compare(ast.Lt(), a, b))
    return _reduce_axis(interp, d, _cint(axis), lambda xs: _argbest(
        interp, xs, lambda a, b: ops.compare(ast.Lt(), a, b)))


def np_squeeze(interp, x, **kw):
    d = _asdata(interp, x)

    def sq(d):
        if isinstance(d, list):
            if len(d) == 1:
                return sq(d[0])
            return [sq(e) for e in d]
        return d
    r = sq(d)
    return NDArr(r) if isinstance(r, list) else r


def np_atleast_1d(interp, x):
    if isinstance(x, GenArr):
        return x
    d = _asdata(interp, x)
    if isinstance(d, list):
        return NDArr(d)
    return NDArr([d])


def np_concatenate(interp, seqs, axis=0, **kw):
    out = []
    for s in interp.iterate(seqs):
        d = _asdata(interp, s)
        if not isinstance(d, list):
            raise_('ValueError', 'zero-dimensional arrays cannot be '
                   'concatenated')
        out.extend(d)
    return NDArr(out)


def np_size(interp, a, axis=None):
    d = _asdata(interp, a)
    sh = NDArr(d).shape if isinstance(d, list) else ()
    if axis is None:
        n = 1
        for k in sh:
            n *= k
        return n
    return sh[_cint(axis)]


def np_append(interp, arr, values, axis=None):
    if axis is not None:
        ax = _cint(axis)
        a = _asdata(interp, arr)
        v = _asdata(interp, values)
        if ax == 0:
            return NDArr(_copy_data(a) + _copy_data(v))
        if ax == 1:
            if len(a) != len(v):
                raise_('ValueError', 'all the input array dimensions except '
                       'for the concatenation axis must match exactly')
            return NDArr([list(ra) + list(rv) for ra, rv in zip(a, v)])
        raise Unsupported('np.append axis > 1')
    a = _asdata(interp, arr)
    v = _asdata(interp, values)
    a = _flatten(a) if isinstance(a, list) else [a]
    v = _flatten(v) if isinstance(v, list) else [v]
    return NDArr(a + v)


def np_isclose(interp, a, b, rtol=Fraction('1e-5'), atol=Fraction('1e-8'),
               **kw):
    ops = interp.ops

    def one(x, y):
        # |x - y| <= atol + rtol*|y|
        diff = py_abs(interp, ops.binop(SUB, x, y))
        bound = ops.binop(ADD, atol, ops.binop(MUL, rtol, py_abs(interp, y)))
        return ops.compare(ast.LtE(), diff, bound)
    if isinstance(a, NDArr) or isinstance(b, NDArr):
        da = a.data if isinstance(a, NDArr) else a
        db = b.data if isinstance(b, NDArr) else b
        return NDArr(zip_arr(one, da, db))
    return one(a, b)


def np_allclose(interp, a, b, rtol=Fraction('1e-5'), atol=Fraction('1e-8'), **kw):
    """all(|a - b| <= atol + rtol |b|) with numpy broadcasting of a scalar"""
    r = np_isclose(interp, a, b, rtol, atol)
    if isinstance(r, NDArr):
        return interp.ops.all_(_flatten(r.data))
    return r


def np_where(interp, cond, x=None, y=None):
    if x is None:
        return np_where1(interp, cond)
    ops = interp.ops
    dc = _asdata(interp, cond)
    dx = _asdata(interp, x)
    dy = _asdata(interp, y)

    def one(c, a):
        return a
    r = zip_arr(lambda c, xy: ops.ite(c, xy[0], xy[1]) if isinstance(
        c, Sym) else (xy[0] if c else xy[1]), dc,
        zip_arr(lambda a, b: (a, b), dx, dy))
    return NDArr(r) if isinstance(r, list) else r


def np_any(interp, x, **kw):
    d = _asdata(interp, x)
    fl = _flatten(d) if isinstance(d, list) else [d]
    return interp.ops.any_([interp.ops.truth_value(e) for e in fl])


def np_all(interp, x, **kw):
    d = _asdata(interp, x)
    fl = _flatten(d) if isinstance(d, list) else [d]
    return interp.ops.all_([interp.ops.truth_value(e) for e in fl])


def np_isnan(interp, x):
    if isinstance(x, InfV):
        return x.f != x.f
    if isinstance(x, NDArr):
        return NDArr(map_arr(lambda e: np_isnan(interp, e), x.data))
    return False


def np_linspace(interp, a, b, num=50, **kw):
    n = _cint(num)
    if n == 1:
        return NDArr([a])
    ops = interp.ops
    step = ops.binop(DIV, ops.binop(SUB, b, a), n - 1)
    return NDArr([ops.binop(ADD, a, ops.binop(MUL, step, k))
                  for k in range(n)])


def np_arange(interp, *a, **kw):
    if all(isinstance(x, int) for x in a):
        return NDArr(list(range(*a)))
    raise Unsupported('arange of non-integers')


def np_extract(interp, condition=None, arr=None):
    cond = condition
    dc = _flatten(_asdata(interp, cond))
    da = _flatten(_asdata(interp, arr))
    out = []
    for c, x in zip(dc, da):
        if interp.ops.truth(c):
            out.append(x)
    return NDArr(out)


def np_power(interp, a, b):
    f = lambda x, y: interp.ops.power(x, y)
    da, db = _asdata(interp, a), _asdata(interp, b)
    r = zip_arr(f, da, db)
    return NDArr(r) if isinstance(r, list) else r


def _int_dtype(dtype):
    return dtype is int or getattr(dtype, 'name', None) in ('int', 'integer', 'int64', 'int32') or \
        dtype in ('int', 'int64', 'int32', 'i8', 'i4')


def np_zeros(interp, shape, dtype=None, **kw):
    r = np_full(interp, shape, Fraction(0))
    if _int_dtype(dtype) and isinstance(r, NDArr):
        r.int_dtype = True        # values stored later are truncated towards zero
    return r


def np_ones(interp, shape, dtype=None, **kw):
    r = np_full(interp, shape, Fraction(1))
    if _int_dtype(dtype) and isinstance(r, NDArr):
        r.int_dtype = True
    return r


def _trunc(interp, v):
    """C-style conversion of a real to an integer array element"""
    if isinstance(v, bool):
        return int(v)
    if isinstance(v, (int,)):
        return v
    if isinstance(v, Fraction):
        return Fraction(int(v))
    if isinstance(v, Sym) and v.kind == 'int':
        return v
    if isinstance(v, Sym):
        t = z3real(v)
        return mk(z3.If(t >= 0, z3.ToReal(z3.ToInt(t)), -z3.ToReal(z3.ToInt(-t))))
    raise Unsupported('store of %r into an integer array' % (type(v),))


def np_array_equal(interp, a, b):
    da, db = _asdata(interp, a), _asdata(interp, b)
    if NDArr(da).shape != NDArr(db).shape if isinstance(da, list) and \
            isinstance(db, list) else False:
        return False
    return interp.ops.all_(_flatten(zip_arr(
        lambda x, y: interp.ops.equals(x, y), da, db))
        if isinstance(da, list) else [interp.ops.equals(da, db)])


def nd_getitem(interp, arr, idx):
    d = arr.data
    if not isinstance(d, list):
        raise_('IndexError', 'too many indices for array')
    if isinstance(idx, tuple):
        cur = arr
        first = idx[0]
        rest = idx[1:]
        if isinstance(first, slice):
            rows = d[interp._slice(first, len(d))]
            if not rest:
                return NDArr(rows)
            if len(rest) == 1 and isinstance(rest[0], (NDArr, list)):
                mask = _asdata(interp, rest[0])
                if mask and all(isinstance(e, bool) or (isinstance(e, Sym) and
                                                        e.kind == 'bool')
                                for e in mask):
                    if rows and len(mask) != len(rows[0]):
                        raise_('IndexError', 'boolean index did not match '
                               'indexed array')
                    keep = [k for k, c in enumerate(mask)
                            if interp.ops.truth(c)]
                    return NDArr([[r[k] for k in keep] for r in rows])
            out = [_unwrap(nd_getitem(interp, NDArr(r), rest if len(rest) > 1
                                      else rest[0])) for r in rows]
            return NDArr(out)
        sub = nd_getitem(interp, arr, first)
        if not rest:
            return sub
        if not isinstance(sub, NDArr):
            raise_('IndexError', 'too many indices for array')
        return nd_getitem(interp, sub, rest if len(rest) > 1 else rest[0])
    if isinstance(idx, slice):
        return NDArr(d[interp._slice(idx, len(d))])
    if isinstance(idx, NDArr) or isinstance(idx, list):
        ix = _asdata(interp, idx)
        if ix and all(isinstance(e, bool) or (isinstance(e, Sym) and
                                              e.kind == 'bool')
                      for e in ix):
            if len(ix) != len(d):
                raise_('IndexError', 'boolean index did not match indexed '
                       'array')
            out = []
            for c, x in zip(ix, d):
                if interp.ops.truth(c):
                    out.append(x)
            return NDArr(out)
        return NDArr([_unwrap(nd_getitem(interp, arr, k)) for k in ix])
    k = interp.concretize_index(idx, len(d))
    try:
        x = d[k]
    except IndexError:
        raise_('IndexError', 'index out of bounds')
    return NDArr(x) if isinstance(x, list) else x


def nd_setitem(interp, arr, idx, v):
    d = arr.data
    if getattr(arr, 'int_dtype', False):
        vd_ = _asdata(interp, v)
        v = NDArr(map_arr(lambda x: _trunc(interp, x), vd_)) \
            if isinstance(vd_, list) else _trunc(interp, vd_)
    if isinstance(idx, tuple):
        if len(idx) == 1:
            return nd_setitem(interp, arr, idx[0], v)
        if isinstance(idx[0], slice):
            # a[i0:i1, rest] = v: row by row; v is broadcast along the rows
            sl = interp._slice(idx[0], len(d))
            rows = list(range(*sl.indices(len(d))))
            rest = idx[1:] if len(idx) > 2 else idx[1]
            vd = _asdata(interp, v)
            if isinstance(vd, list) and all(
                    not isinstance(r, slice) for r in idx[1:]):
                if len(vd) != len(rows):
                    raise_('ValueError', 'could not broadcast input array')
                for k, x in zip(rows, vd):
                    nd_setitem(interp, NDArr(d[k]), rest, NDArr(x) if isinstance(x, list) else x)
            else:
                for k in rows:
                    nd_setitem(interp, NDArr(d[k]), rest, v)
            return
        k = interp.concretize_index(idx[0], len(d))
        sub = NDArr(d[k])
        return nd_setitem(interp, sub, idx[1:] if len(idx) > 2
                          else idx[1], v)
    if isinstance(idx, slice):
        sl = interp._slice(idx, len(d))
        rng = range(*sl.indices(len(d)))
        vd = _asdata(interp, v)
        if isinstance(vd, list):
            if len(vd) != len(rng):
                raise_('ValueError', 'could not broadcast')
            for k, x in zip(rng, vd):
                d[k] = x
        else:
            for k in rng:
                d[k] = vd
        return
    k = interp.concretize_index(idx, len(d))
    if k >= len(d) or k < -len(d):
        raise_('IndexError', 'index out of bounds')
    vd = _asdata(interp, v)
    if isinstance(d[k], list):
        if isinstance(vd, list):
            if NDArr(vd).shape != NDArr(d[k]).shape:
                raise_('ValueError', 'could not broadcast input array')
            d[k] = _copy_data(vd)
        else:
            d[k] = map_arr(lambda e: vd, d[k])
    else:
        if isinstance(vd, list):
            # numpy >= 1.25: assigning a size-1 array into a scalar slot is
            # deprecated; with ndim > 0 it raises under NumPy 2.x
            raise_('ValueError', 'setting an array element with a sequence')
        d[k] = vd


def _nd_method(interp, arr, name):
    if name == 'shape':
        return arr.shape
    if name == 'ndim':
        return arr.ndim
    if name == 'size':
        return len(_flatten(arr.data)) if isinstance(arr.data, list) else 1
    if name == 'T':
        if arr.ndim < 2:
            return arr
        return NDArr([list(c) for c in zip(*arr.data)])
    if name == 'transpose':
        def transpose(*axes):
            if len(axes) == 1 and isinstance(axes[0], (tuple, list)):
                axes = tuple(axes[0])
            shape = arr.shape
            nd = len(shape)
            if not axes:
                axes = tuple(reversed(range(nd)))
            axes = tuple(_cint(a) for a in axes)
            if sorted(axes) != list(range(nd)):
                raise_('ValueError', "axes don't match array")

            def get(idx):
                d = arr.data
                for k in idx:
                    d = d[k]
                return d
            new_shape = tuple(shape[a] for a in axes)

            def build(prefix):
                if len(prefix) == nd:
                    src = [0] * nd
                    for pos, a in enumerate(axes):
                        src[a] = prefix[pos]
                    return get(src)
                return [build(prefix + [k])
                        for k in range(new_shape[len(prefix)])]
            return NDArr(build([]))
        return Builtin('transpose', transpose)
    if name == 'tolist':
        return Builtin('tolist', lambda: _copy_data(arr.data))
    if name == 'copy':
        return Builtin('copy', lambda: NDArr(_copy_data(arr.data)))
    if name == 'flatten' or name == 'ravel':
        return Builtin(name, lambda: NDArr(_flatten(arr.data)))
    if name == 'item':
        def item(*a):
            fl = _flatten(arr.data)
            if a:
                return fl[_cint(a[0])]
            if len(fl) != 1:
                raise_('ValueError', 'can only convert an array of size 1')
            return fl[0]
        return Builtin('item', item)
    if name == 'sum':
        return Builtin('sum', lambda **k: np_sum(interp, arr, **k))
    if name == 'max':
        return Builtin('max', lambda **k: np_max(interp, arr, **k))
    if name == 'min':
        return Builtin('min', lambda **k: np_min(interp, arr, **k))
    if name == 'mean':
        return Builtin('mean', lambda **k: np_mean(interp, arr, **k))
    if name == 'dot':
        return Builtin('dot', lambda b: interp.ops.dot(arr, b))
    if name == 'astype':
        return Builtin('astype', lambda *a, **k: arr)
    if name == 'any':
        return Builtin('any', lambda: np_any(interp, arr))
    if name == 'all':
        return Builtin('all', lambda: np_all(interp, arr))
    if name == 'reshape':
        def reshape(*shape):
            if len(shape) == 1 and isinstance(shape[0], (tuple, list)):
                shape = tuple(shape[0])
            fl = _flatten(arr.data)
            shape = [_cint(s) for s in shape]
            if shape.count(-1) == 1:
                known = 1
                for s in shape:
                    if s != -1:
                        known *= s
                shape[shape.index(-1)] = len(fl) // known

            def build(fl, shape):
                if len(shape) == 1:
                    return fl[:shape[0]]
                step = len(fl) // shape[0]
                return [build(fl[i * step:(i + 1) * step], shape[1:])
                        for i in range(shape[0])]
            return NDArr(build(fl, shape))
        return Builtin('reshape', reshape)
    return None


class RootsV:
    """np.roots(coefs): assumed contract 'the returned array holds exactly
    the complex roots of the polynomial'.  Only the selection idiom
    [r for r in roots if np.isreal(r)] -> np.real -> np.max / np.min is
    modelled: the selected value is *some* real root (an arbitrary one, so
    whatever is proved holds for the largest and the smallest alike)."""

    def __init__(self, coefs, stage='roots'):
        self.coefs = coefs
        self.stage = stage

    def sym_iter(self, interp):
        if self.stage != 'roots':
            raise Unsupported('iteration over selected roots')
        return [RootElem(self)]

    def sym_getitem(self, idx, interp):
        # roots[np.isreal(roots)]: the vectorised spelling of the same idiom
        if isinstance(idx, RootMask) and idx.roots is self and \
                self.stage == 'roots':
            return RootsV(self.coefs, 'selected')
        raise Unsupported('indexing of np.roots(...)')


class RootMask:
    """np.isreal(np.roots(...))"""

    def __init__(self, roots):
        self.roots = roots


class RootElem:
    def __init__(self, roots):
        self.roots = roots


def np_roots(interp, coefs):
    cs = _flatten(_asdata(interp, coefs))
    return RootsV(cs)


def np_isreal(interp, x):
    if isinstance(x, RootElem):
        return True
    if is_num(x):
        return True
    if isinstance(x, RootsV) and x.stage == 'roots':
        return RootMask(x)
    raise Unsupported('np.isreal(%r)' % type(x))


def np_real(interp, x):
    if isinstance(x, list) and len(x) == 1 and isinstance(x[0], RootElem):
        return RootsV(x[0].roots.coefs, 'real')
    if isinstance(x, RootsV) and x.stage == 'selected':
        return RootsV(x.coefs, 'real')
    if isinstance(x, list) and any(isinstance(e, RootElem) for e in x):
        raise Unsupported('np.real of mixed roots')
    return x


def _select_root(interp, rs, kind='max'):
    """the largest / smallest real root: a function of (coefficients, kind);
    what is known: it is a root, and smallest <= largest"""
    ctx = interp.ctx
    from .dsl import _vkey
    memo = ctx.__dict__.setdefault('root_memo', {})
    ckey = _vkey(list(rs.coefs))

    def get(k):
        if (ckey, k) not in memo:
            r = Sym(ctx.fresh('root_' + k, 'real'))
            acc = 0
            for c in rs.coefs:
                acc = interp.ops.binop(ADD, interp.ops.binop(MUL, acc, r), c)
            ctx.assume(interp.ops.equals(acc, 0))
            memo[(ckey, k)] = r
        return memo[(ckey, k)]
    r = get(kind)
    other = 'min' if kind == 'max' else 'max'
    if (ckey, other) in memo:
        lo, hi = (memo[(ckey, 'min')], memo[(ckey, 'max')])
        ctx.assume(interp.ops.compare(ast.LtE(), lo, hi))
    return r


def integral_model(interp, func, a, b, **kw):
    """assumed contract of scipy.integrate.quad: the definite integral"""
    ctx = interp.ctx

    def feval(t):
        if z3.is_const(t) and str(t).startswith('x!'):
            # probe evaluation at a generic interior point: side conditions
            # belong to the integrand's own contract, not to the caller
            saved = list(ctx.side)
            try:
                with ctx.assuming(t > 0):
                    v = interp.call(func, [mk(t)], {})
            finally:
                ctx.side[:] = saved
            return z3real(v)
        v = interp.call(func, [mk(t) if not isinstance(t, (int, Fraction))
                               else t], {})
        return z3real(v)
    # identify the integrand by its term at a canonical variable
    x = z3.Real('x!int')
    if True:
        key = z3.simplify(feval(x)).sexpr()
        # atoms inside the integrand are identified by their definitions
        names = sorted(ctx.atoms.info)
        for nm in names:
            if nm in key:
                inf = ctx.atoms.info[nm]
                if inf[1] is not None and not isinstance(inf[1], tuple):
                    key = key.replace(nm, '%s(%s)' % (inf[0], inf[1].sexpr()))
    return ctx.integral(feval, a, b, key)


def np_lstsq(interp, A, b, rcond=None):
    """assumed contract of numpy.linalg.lstsq: x minimises |Ax - b|, i.e. it
    satisfies the normal equations A^T (A x - b) = 0 (any such x when the
    minimiser is not unique)"""
    ops = interp.ops
    Ad = _asdata(interp, A)
    bd = _asdata(interp, b)
    if not isinstance(Ad, list) or not Ad or not isinstance(Ad[0], list):
        raise Unsupported('lstsq of a non-matrix')
    n, k = len(Ad), len(Ad[0])
    if not isinstance(bd, list) or len(bd) != n:
        raise_('ValueError', 'lstsq: incompatible dimensions')
    ctx = interp.ctx
    x = [Sym(ctx.fresh('lstsq_x%d' % j, 'real')) for j in range(k)]
    resid = []
    for i in range(n):
        acc = 0
        for j in range(k):
            acc = ops.binop(ADD, acc, ops.binop(MUL, Ad[i][j], x[j]))
        resid.append(ops.binop(SUB, acc, bd[i]))
    for j in range(k):
        acc = 0
        for i in range(n):
            acc = ops.binop(ADD, acc, ops.binop(MUL, Ad[i][j], resid[i]))
        ctx.assume(ops.equals(acc, 0))
    return (NDArr(x), NDArr(resid), k, None)


def np_polyfit(interp, x, y, deg, **kw):
    """assumed contract of numpy.polyfit: deg+1 coefficients, highest power
    first; nothing is assumed about their values here (callers that need the
    least-squares property state it as an explicit assumption)"""
    xd = _flatten(_asdata(interp, x))
    yd = _flatten(_asdata(interp, y))
    if len(xd) != len(yd):
        raise_('TypeError', 'expected x and y to have same length')
    if len(xd) == 0:
        raise_('TypeError', 'expected non-empty vector for x')
    n = _cint(deg) + 1
    ctx = interp.ctx
    interp.ext_calls.append(('np.polyfit', xd, yd, n - 1))
    return NDArr([Sym(ctx.fresh('polyfit_c%d' % k, 'real')) for k in range(n)])


def np_polyval(interp, p, x):
    ops = interp.ops
    pd = _flatten(_asdata(interp, p))

    def one(v):
        acc = 0
        for c in pd:
            acc = ops.binop(ADD, ops.binop(MUL, acc, v), c)
        return acc
    xd = _asdata(interp, x)
    if isinstance(xd, list):
        return NDArr(map_arr(one, xd))
    return one(xd)


def _np_pair(fn):
    """elementwise binary function with scalar broadcasting (1-D)"""
    def g(interp, a, b):
        A = isinstance(a, (NDArr, list, tuple))
        Bq = isinstance(b, (NDArr, list, tuple))
        if not A and not Bq:
            return fn(interp, a, b)
        la = list(interp.iterate(a)) if A else None
        lb = list(interp.iterate(b)) if Bq else None
        n = len(la) if A else len(lb)
        if A and Bq and len(la) != len(lb):
            if len(la) == 1:
                la = la * len(lb)
                n = len(lb)
            elif len(lb) == 1:
                lb = lb * len(la)
            else:
                raise_('ValueError', 'operands could not be broadcast together')
        out = []
        for k in range(n):
            x = la[k] if A else a
            y = lb[k] if Bq else b
            if isinstance(x, (NDArr, list)) or isinstance(y, (NDArr, list)):
                out.append(g(interp, x, y))
            else:
                out.append(fn(interp, x, y))
        return NDArr([o.data if isinstance(o, NDArr) else o for o in out])
    return g


def _np_cmp(op):
    def f(interp, x, y):
        if op is None:
            return interp.ops.equals(x, y)
        if op == 'ne':
            return interp.ops.unary(ast.Not(), interp.ops.equals(x, y))
        return interp.ops.compare(op, x, y)
    return _np_pair(f)


def np_flatnonzero(interp, a):
    """indices of the true / non-zero entries (entries must be decidable on
    the current path: each test forks the path)"""
    xs = list(interp.iterate(a))
    return NDArr([k for k, x in enumerate(xs) if interp.ops.truth(x)])


def np_cumsum(interp, a, **kw):
    out, acc = [], 0
    for k, x in enumerate(interp.iterate(a)):
        acc = x if k == 0 else interp.ops.binop(ADD, acc, x)
        out.append(acc)
    return NDArr(out)


def np_diff(interp, a, **kw):
    xs = list(interp.iterate(a))
    return NDArr([interp.ops.binop(SUB, xs[k + 1], xs[k]) for k in range(len(xs) - 1)])


def np_where1(interp, cond):
    dc = _flatten(_asdata(interp, cond))
    idx = [k for k, c in enumerate(dc) if interp.ops.truth(c)]
    return (NDArr(idx),)


def external_modules(interp):
    E = {}

    def B(name, fn):
        return Builtin(name, fn, pass_interp=True)

    np_tab = {
        'array': B('array', np_array), 'asarray': B('asarray', np_array),
        'zeros': B('zeros', np_zeros), 'ones': B('ones', np_ones),
        'full': B('full', np_full),
        'zeros_like': B('zeros_like', np_like(Fraction(0))),
        'ones_like': B('ones_like', np_like(Fraction(1))),
        'full_like': B('full_like', np_full_like),
        'dot': B('dot', lambda it, a, b: it.ops.dot(a, b)),
        'matmul': B('matmul', lambda it, a, b: it.ops.dot(a, b)),
        'sum': B('sum', np_sum), 'prod': B('prod', np_prod),
        'exp': B('exp', _elementwise(_exp)),
        'log': B('log', _elementwise(_log)),
        'sqrt': B('sqrt', _elementwise(_sqrt)),
        'sinh': B('sinh', _elementwise(_sinh)),
        'cosh': B('cosh', _elementwise(_cosh)),
        'abs': B('abs', py_abs), 'absolute': B('absolute', py_abs),
        'squeeze': B('squeeze', np_squeeze),
        'isclose': B('isclose', np_isclose), 'allclose': B('allclose', np_allclose),
        'argmax': B('argmax', np_argmax), 'argmin': B('argmin', np_argmin),
        'nanargmin': B('nanargmin', np_argmin),
        'nanargmax': B('nanargmax', np_argmax),
        'max': B('max', np_max), 'amax': B('amax', np_max),
        'min': B('min', np_min), 'amin': B('amin', np_min),
        'mean': B('mean', np_mean),
        'concatenate': B('concatenate', np_concatenate),
        'append': B('append', np_append), 'size': B('size', np_size),
        'atleast_1d': B('atleast_1d', np_atleast_1d),
        'where': B('where', np_where), 'any': B('any', np_any),
        'all': B('all', np_all), 'isnan': B('isnan', np_isnan),
        'linspace': B('linspace', np_linspace),
        'arange': B('arange', np_arange),
        'extract': B('extract', np_extract),
        'power': B('power', np_power),
        'array_equal': B('array_equal', np_array_equal),
        'float64': TYPES['np.double'], 'double': TYPES['np.double'],
        'float_': TYPES['np.double'],
        'ndarray': TYPES['ndarray'], 'floating': TYPES['np.floating'],
        'integer': TYPES['np.integer'], 'generic': TYPES['np.generic'],
        'pi': SymConst.pi(interp), 'inf': InfV(float('inf')),
        'nan': InfV(float('nan')),
        'real': B('real', np_real), 'roots': B('roots', np_roots),
        'polyfit': B('polyfit', np_polyfit), 'polyval': B('polyval', np_polyval),
        'isreal': B('isreal', np_isreal),
        'equal': B('equal', _np_cmp(None)),
        'not_equal': B('not_equal', _np_cmp('ne')),
        'less': B('less', _np_cmp(ast.Lt())),
        'less_equal': B('less_equal', _np_cmp(ast.LtE())),
        'greater': B('greater', _np_cmp(ast.Gt())),
        'greater_equal': B('greater_equal', _np_cmp(ast.GtE())),
        'flatnonzero': B('flatnonzero', np_flatnonzero),
        'logical_not': B('logical_not', _elementwise(lambda it, x: it.ops.unary(ast.Not(), x))),
        'maximum': B('maximum', _np_pair(lambda it, a, b: it.ops.max2(a, b))),
        'minimum': B('minimum', _np_pair(lambda it, a, b: it.ops.min2(a, b))),
        'cumsum': B('cumsum', np_cumsum), 'diff': B('diff', np_diff),
    }
    np_tab['linalg'] = _mod('numpy.linalg', {'lstsq': B('lstsq', np_lstsq)})
    E['numpy'] = np_mod = _mod('numpy', np_tab)
    E['numpy.linalg'] = np_tab['linalg']
    E['math'] = _mod('math', {
        'exp': B('exp', lambda it, x: _exp(it, x)),
        'log': B('log', lambda it, x: _log(it, x)),
        'sqrt': B('sqrt', lambda it, x: _sqrt(it, x)),
        'pi': np_tab['pi'], 'inf': InfV(float('inf')),
        'floor': B('floor', lambda it, x: _floor(it, x)),
        'isclose': B('isclose', lambda it, a, b, rel_tol=Fraction('1e-9'),
                     abs_tol=Fraction(0): _math_isclose(it, a, b, rel_tol,
                                                        abs_tol)),
    })
    E['warnings'] = _mod('warnings', {
        'warn': B('warn', lambda it, *a, **k: it.ctx.event('warn', a[1:])),
        'filterwarnings': B('filterwarnings', lambda it, *a, **k: None),
        'simplefilter': B('simplefilter', lambda it, *a, **k: None),
    })
    E['inspect'] = _mod('inspect', {
        'isclass': B('isclass', lambda it, x: isinstance(x, (PyClass,
                                                             TypeV))),
        'signature': B('signature', lambda it, f: _Signature(it, f)),
        'getfullargspec': B('getfullargspec',
                            lambda it, f: _Signature(it, f)),
    })
    E['copy'] = _mod('copy', {
        'copy': B('copy', lambda it, x: shallow_copy(it, x)),
        'deepcopy': B('deepcopy', lambda it, x: deep_copy(it, x, {})),
    })
    E['collections'] = _mod('collections', {
        'namedtuple': B('namedtuple', _namedtuple),
        'Counter': B('Counter', lambda it, *a, **k: CounterV(it, *a, **k)),
        'OrderedDict': TYPES['dict'],
        'defaultdict': B('defaultdict', _defaultdict),
    })
    E['numbers'] = _mod('numbers', {
        'Real': TypeV('Real', lambda v: is_num(v) or isinstance(v, bool) or
                      getattr(v, 'np_scalar', None) is not None),
        'Number': TypeV('Number', lambda v: is_num(v) or isinstance(v, bool)
                        or getattr(v, 'np_scalar', None) is not None),
        'Integral': TypeV('Integral', lambda v: isinstance(v, int) or
                          (isinstance(v, Sym) and v.kind == 'int') or
                          getattr(v, 'np_scalar', None) == 'integer'),
    })
    def curve_fit(it, f, xdata, ydata, *a, **kw):
        """assumed contract of scipy.optimize.curve_fit: one value per free
        parameter of f (nothing assumed about the values)"""
        from .values import FuncV
        if not isinstance(f, FuncV):
            raise Unsupported('curve_fit of a non-function')
        npar = len(f.node.args.args) - 1
        it.ext_calls.append(('curve_fit', f, xdata, ydata))
        return [NDArr([Sym(it.ctx.fresh('curve_fit_p%d' % k, 'real'))
                       for k in range(npar)]), Opaque('pcov')]
    def minimize(it, fun, x0, args=(), **kw):
        """assumed contract of scipy.optimize.minimize (SLSQP): an arbitrary
        result object; x has the shape of x0 and respects the bounds it was
        given; `success` may be False"""
        n = len(list(it.iterate(x0)))
        ctx = it.ctx
        xs = [Sym(ctx.fresh('minimize_x%d' % k, 'real')) for k in range(n)]
        bounds = kw.get('bounds')
        if bounds is not None:
            for x, b in zip(xs, it.iterate(bounds)):
                lo, hi = list(it.iterate(b))
                ctx.assume(it.ops.compare(ast.GtE(), x, lo))
                ctx.assume(it.ops.compare(ast.LtE(), x, hi))
        succ = Sym(z3.Bool('minimize.success'))
        res = OptResultV(NDArr(xs), succ)
        it.ext_calls.append(('minimize', dict(kw, fun=fun, x0=x0, args=args,
                                              result=res)))
        return res
    E['scipy.optimize'] = _mod('scipy.optimize', {'curve_fit': B('curve_fit', curve_fit),
                                                  'minimize': B('minimize', minimize)})
    E['scipy.integrate'] = _mod('scipy.integrate', {
        'quad': B('quad', lambda it, func, a, b, **kw:
                  (integral_model(it, func, a, b), Fraction(0))),
    })
    E['scipy'] = _mod('scipy', {'integrate': E['scipy.integrate'],
                                'optimize': E['scipy.optimize']})
    def consecutive_groups(it, iterable, ordering=None):
        """more_itertools.consecutive_groups: maximal runs in which each item
        is its predecessor + 1 (exact reimplementation of the documented
        groupby(enumerate, key=index - value) behaviour)"""
        xs = list(it.iterate(iterable))
        groups = []
        for k, x in enumerate(xs):
            if k and it.ops.truth(it.ops.equals(
                    x, it.ops.binop(ADD, xs[k - 1], 1))):
                groups[-1].append(x)
            else:
                groups.append([x])
        return groups
    E['more_itertools'] = _mod('more_itertools', {
        'consecutive_groups': B('consecutive_groups', consecutive_groups)})
    def read_excel(it, io=None, skiprows=None, header=0, **kw):
        # assumed contract of pandas.read_excel(io, skiprows, header=0): the
        # first sheet row is the header; `skiprows` (None or a list of
        # 0-based sheet row numbers) removes rows before parsing
        if not isinstance(io, DataFrameV):
            raise Unsupported('pandas.read_excel of a real file')
        if header != 0:
            raise Unsupported('pandas.read_excel with header != 0')
        if skiprows is None:
            skip = set()
        elif isinstance(skiprows, (list, tuple)) and all(
                isinstance(k, int) and not isinstance(k, bool) for k in skiprows):
            skip = set(skiprows)
        else:
            raise Unsupported('pandas.read_excel skiprows=%r' % (skiprows,))
        if 0 in skip:
            raise Unsupported('pandas.read_excel skipping the header row')
        sheet = ([[OpaqueStr('comment')] * len(io.headers)]
                 if getattr(io, 'comment_row', False) else []) + list(io.rows)
        kept = [r for k, r in enumerate(sheet, start=1) if k not in skip]
        out = DataFrameV([], kept)
        out.headers = io.headers
        return out
    E['pandas'] = _mod('pandas', {
        'read_excel': B('read_excel', read_excel),
        'isnull': B('isnull', lambda it, v: isinstance(v, NullCell)),
        'isna': B('isna', lambda it, v: isinstance(v, NullCell)),
    })
    E['os.path'] = _mod('os.path', {
        'dirname': B('dirname', lambda it, p: '' if not isinstance(p, str)
                     else __import__('os').path.dirname(p)),
        'join': B('join', lambda it, *a: __import__('os').path.join(*a)),
    })
    E['os'] = _mod('os', {'path': E['os.path']})

    def now(it):
        # str(datetime.now()): an unknown single-line text (19 or 26 chars)
        from . import sstr as _s
        L = it.ctx.fresh('nowlen', 'int')
        it.ctx.atoms.facts.append(z3.Or(L == 19, L == 26))
        return _s.SStr([_s.Tok('now', mk(L), excl='\n\r!\'"', first_nondigit=False)])
    def yaml_dump(it, data=None, stream=None, **kw):
        # PyYAML is an external dependency: the text it produces is opaque
        # (one unknown piece per call); what is handed to it is recorded
        from . import sstr as _s
        n = len([c for c in it.ext_calls if c[0] == 'yaml.dump'])
        it.ext_calls.append(('yaml.dump', dict(kw, data=data, args=[data])))
        L = it.ctx.fresh('yamllen', 'int')
        it.ctx.atoms.facts.append(L >= 1)
        return _s.SStr([_s.Tok('yaml!%d' % n, mk(L), excl="'\n",
                               first_nondigit=True)])
    E['yaml'] = _mod('yaml', {'dump': B('dump', yaml_dump)})
    E['datetime.datetime'] = _mod('datetime.datetime', {'now': B('now', now)})
    E['datetime'] = _mod('datetime', {'datetime': E['datetime.datetime']})
    E['re'] = _mod('re', _re_table(interp))
    E['itertools'] = _mod('itertools', _itertools_table(interp))
    E['operator'] = _mod('operator', _operator_table(interp))
    E['functools'] = _mod('functools', _functools_table(interp))
    return E


class DefaultDictV(dict):
    """collections.defaultdict: a dict whose missing keys are created by the factory on item access"""
    default_factory = None


def _defaultdict(interp, factory=None, *args, **kw):
    d = DefaultDictV()
    d.default_factory = factory
    if args or kw:
        d.update(_mkdict(interp, *args, **kw))
    return d


class CallableNS:
    """callable with attributes (itertools.chain / chain.from_iterable)"""

    def __init__(self, name, fn, attrs):
        self.name = name
        self.fn = fn
        self.attrs = attrs

    def sym_call(self, it, args, kwargs):
        return self.fn(it, *args, **kwargs)

    def sym_getattr(self, name, it):
        if name in self.attrs:
            return self.attrs[name]
        raise_('AttributeError', '%s has no attribute %s' % (self.name, name))


def _itertools_table(interp):
    def B(name, fn):
        return Builtin(name, fn, pass_interp=True)

    def chain(it, *seqs):
        return _Iter([x for s in seqs for x in it.iterate(s)])

    def from_iterable(it, seqs):
        return _Iter([x for s in it.iterate(seqs) for x in it.iterate(s)])

    def repeat(it, x, times=None):
        if times is None:
            raise Unsupported('itertools.repeat without a count')
        return _Iter([x] * max(0, _cint(times)))

    def accumulate(it, iterable, func=None, initial=None):
        xs = list(it.iterate(iterable))
        out = []
        if initial is not None:
            acc = initial
            out.append(acc)
        elif xs:
            acc = xs.pop(0)
            out.append(acc)
        for x in xs:
            acc = it.ops.binop(ADD, acc, x) if func is None else \
                it.call(func, [acc, x], {})
            out.append(acc)
        return _Iter(out)

    def islice(it, iterable, *a):
        xs = list(it.iterate(iterable))
        a = [None if v is None else _cint(v) for v in a]
        return _Iter(xs[slice(*a)])

    def starmap(it, f, iterable):
        return _Iter([it.call(f, list(it.iterate(t)), {})
                      for t in it.iterate(iterable)])

    def zip_longest(it, *seqs, fillvalue=None):
        ls = [list(it.iterate(s)) for s in seqs]
        n = max([len(l) for l in ls] or [0])
        return _Iter([tuple(l[k] if k < len(l) else fillvalue for l in ls)
                      for k in range(n)])

    def pairwise(it, iterable):
        xs = list(it.iterate(iterable))
        return _Iter(list(zip(xs, xs[1:])))

    def takewhile(it, pred, iterable):
        out = []
        for x in it.iterate(iterable):
            if not it.ops.truth(it.call(pred, [x], {})):
                break
            out.append(x)
        return _Iter(out)

    def dropwhile(it, pred, iterable):
        xs = list(it.iterate(iterable))
        k = 0
        while k < len(xs) and it.ops.truth(it.call(pred, [xs[k]], {})):
            k += 1
        return _Iter(xs[k:])

    def count(it, start=0, step=1):
        raise Unsupported('itertools.count (unbounded)')

    def combinations(it, iterable, r):
        import itertools
        return _Iter([tuple(t) for t in itertools.combinations(
            list(it.iterate(iterable)), _cint(r))])

    def permutations(it, iterable, r=None):
        import itertools
        xs = list(it.iterate(iterable))
        return _Iter([tuple(t) for t in itertools.permutations(
            xs, None if r is None else _cint(r))])

    return {
        'product': B('product', lambda it, *seqs, **k: _Iter(_product(it, seqs, k))),
        'chain': CallableNS('itertools.chain', chain,
                            {'from_iterable': B('from_iterable', from_iterable)}),
        'repeat': B('repeat', repeat),
        'accumulate': B('accumulate', accumulate),
        'islice': B('islice', islice), 'starmap': B('starmap', starmap),
        'zip_longest': B('zip_longest', zip_longest),
        'pairwise': B('pairwise', pairwise),
        'takewhile': B('takewhile', takewhile),
        'dropwhile': B('dropwhile', dropwhile), 'count': B('count', count),
        'combinations': B('combinations', combinations),
        'permutations': B('permutations', permutations),
    }


def _operator_table(interp):
    def B(name, fn):
        return Builtin(name, fn, pass_interp=True)
    t = {}
    for nm, op in (('add', ast.Add()), ('sub', ast.Sub()), ('mul', ast.Mult()),
                   ('truediv', ast.Div()), ('floordiv', ast.FloorDiv()),
                   ('mod', ast.Mod()), ('pow', ast.Pow()),
                   ('matmul', ast.MatMult())):
        def f(it, a, b, _op=op):
            if isinstance(a, str) and isinstance(_op, ast.Mod):
                return str_percent(it, a, b)
            return it.ops.binop(_op, a, b)
        t[nm] = B(nm, f)
        # in-place forms: same protocol as the augmented assignment statement
        t['i' + nm] = B('i' + nm, lambda it, a, b, _op=op: it.aug(_op, a, b))
    for nm, op in (('lt', ast.Lt()), ('le', ast.LtE()), ('gt', ast.Gt()),
                   ('ge', ast.GtE())):
        t[nm] = B(nm, lambda it, a, b, _op=op: it.ops.compare(_op, a, b))
    t['eq'] = B('eq', lambda it, a, b: it.ops.equals(a, b))
    t['ne'] = B('ne', lambda it, a, b: it.ops.unary(ast.Not(), it.ops.equals(a, b)))
    t['neg'] = B('neg', lambda it, a: it.ops.unary(ast.USub(), a))
    t['pos'] = B('pos', lambda it, a: it.ops.unary(ast.UAdd(), a))
    t['abs'] = B('abs', py_abs)
    t['not_'] = B('not_', lambda it, a: it.ops.unary(ast.Not(), a))
    t['truth'] = B('truth', lambda it, a: it.ops.truth_value(a))
    t['is_'] = B('is_', lambda it, a, b: it.ops.is_(a, b))
    t['is_not'] = B('is_not', lambda it, a, b: it.ops.unary(ast.Not(), it.ops.is_(a, b)))
    t['contains'] = B('contains', lambda it, a, b: it.ops.contains(a, b))
    t['getitem'] = B('getitem', lambda it, a, b: it.getitem(a, b))
    t['index'] = B('index', lambda it, a: to_int(it, a))

    def itemgetter(it, *keys):
        if len(keys) == 1:
            return B('itemgetter', lambda it2, o: it2.getitem(o, keys[0]))
        return B('itemgetter', lambda it2, o: tuple(it2.getitem(o, k) for k in keys))

    def attrgetter(it, *names):
        def one(it2, o, nm):
            for part in nm.split('.'):
                o = it2.getattr(o, part)
            return o
        if len(names) == 1:
            return B('attrgetter', lambda it2, o: one(it2, o, names[0]))
        return B('attrgetter', lambda it2, o: tuple(one(it2, o, n) for n in names))

    def methodcaller(it, name, *a, **k):
        return B('methodcaller', lambda it2, o: it2.call(it2.getattr(o, name), list(a), dict(k)))
    t['itemgetter'] = B('itemgetter', itemgetter)
    t['attrgetter'] = B('attrgetter', attrgetter)
    t['methodcaller'] = B('methodcaller', methodcaller)
    return t


class PartialV:
    def __init__(self, f, args, kwargs):
        self.f, self.args, self.kwargs = f, list(args), dict(kwargs)

    def sym_call(self, it, args, kwargs):
        kw = dict(self.kwargs)
        kw.update(kwargs)
        return it.call(self.f, self.args + list(args), kw)


def _functools_table(interp):
    def B(name, fn):
        return Builtin(name, fn, pass_interp=True)

    def reduce(it, function, iterable, *initial):
        xs = list(it.iterate(iterable))
        if initial:
            acc = initial[0]
        elif xs:
            acc = xs.pop(0)
        else:
            raise_('TypeError', 'reduce() of empty iterable with no initial value')
        for x in xs:
            acc = it.call(function, [acc, x], {})
        return acc
    return {'reduce': B('reduce', reduce),
            'partial': B('partial', lambda it, f, *a, **k: PartialV(f, a, k))}


def _unsup(name):
    raise Unsupported(name)


def _product(it, seqs, k):
    import itertools
    rep = _cint(k.get('repeat', 1))
    return [tuple(t) for t in itertools.product(
        *[list(it.iterate(s)) for s in seqs], repeat=rep)]


def _floor(it, x):
    if is_concrete_num(x):
        return math.floor(x)
    return mk(z3.ToInt(z3real(x)))


def _math_isclose(it, a, b, rel_tol, abs_tol):
    ops = it.ops
    diff = py_abs(it, ops.binop(SUB, a, b))
    m = ops.max2(py_abs(it, a), py_abs(it, b))
    bound = ops.max2(ops.binop(MUL, rel_tol, m), abs_tol)
    return ops.compare(ast.LtE(), diff, bound)


class SymConst:
    """irrational constants as named reals with tight rational bounds"""
    _pi = None

    @staticmethod
    def pi(interp):
        return PiV()


class PiV:
    """placeholder resolved per context (atoms are per path context)"""


def resolve_const(interp, v):
    if isinstance(v, PiV):
        at = interp.ctx.atoms
        key = ('const', 'pi')
        if key not in at.table:
            p = z3.Real('pi!const')
            at.table[key] = p
            at.info[str(p)] = ('pi', None)
            at.facts.append(p > z3.RealVal('3.14159265358979'))
            at.facts.append(p < z3.RealVal('3.14159265358980'))
        return Sym(at.table[key])
    return v


def _mod(name, table):
    from .interp import ExtModule
    return ExtModule(name, table)


class _Signature:
    def __init__(self, interp, f):
        self.stub = False
        if isinstance(f, Builtin) and getattr(f, 'stub', False):
            self.stub = True
            self.skip = 0
            self.fv = None
            return
        if isinstance(f, BoundMethod):
            f = f.func
            self.skip = 1
        else:
            self.skip = 0
        if isinstance(f, PyClass):
            init, _ = f.lookup('__init__')
            f = init
            self.skip = 1
        if not isinstance(f, FuncV):
            raise Unsupported('signature of %r' % (f,))
        self.fv = f

    def sym_getattr(self, name, interp):
        if self.stub:
            if name == 'parameters':
                return {'kw': ParamV('kw', 'VAR_KEYWORD')}
            raise Unsupported('_Signature.%s (no model)' % name)
        a = self.fv.node.args
        if name == 'parameters':
            out = {}
            pos = a.posonlyargs + a.args
            for p in pos[self.skip:]:
                out[p.arg] = ParamV(p.arg, 'POSITIONAL_OR_KEYWORD')
            if a.vararg:
                out[a.vararg.arg] = ParamV(a.vararg.arg, 'VAR_POSITIONAL')
            for p in a.kwonlyargs:
                out[p.arg] = ParamV(p.arg, 'KEYWORD_ONLY')
            if a.kwarg:
                out[a.kwarg.arg] = ParamV(a.kwarg.arg, 'VAR_KEYWORD')
            return out
        if name == 'args':
            return [p.arg for p in a.posonlyargs + a.args]
        if name == 'varkw':
            return a.kwarg.arg if a.kwarg else None
        raise Unsupported('_Signature.%s (no model)' % name)


class ParamV:
    KINDS = ('POSITIONAL_ONLY', 'POSITIONAL_OR_KEYWORD', 'VAR_POSITIONAL',
             'KEYWORD_ONLY', 'VAR_KEYWORD')

    def __init__(self, name, kind):
        self.name = name
        self.kind = kind

    def sym_getattr(self, name, interp):
        if name == 'kind':
            return self.kind
        if name == 'name':
            return self.name
        if name in self.KINDS:
            return name
        raise Unsupported('ParamV.%s (no model)' % name)


def _namedtuple(interp, typename, fields, **kw):
    if isinstance(fields, str):
        fields = fields.replace(',', ' ').split()
    fields = list(fields)
    from .interp import SrcModule
    mod = interp.load_module('pmutt')
    cls = PyClass(typename, mod, None, [])
    cls.nt_fields = fields

    def init(it, self, *args, **kwargs):
        vals = list(args)
        for f in fields[len(vals):]:
            if f not in kwargs:
                raise_('TypeError', 'missing field %s' % f)
            vals.append(kwargs[f])
        for f, v in zip(fields, vals):
            self.fields[f] = v
    cls.attrs['__init__'] = Builtin('nt.__init__', init, pass_interp=True)

    def replace_(it, self, **kwargs):
        for k in kwargs:
            if k not in fields:
                raise_('ValueError', 'Got unexpected field names: %r' % k)
        o = Obj(cls)
        for f in fields:
            o.fields[f] = kwargs.get(f, self.fields[f])
        return o
    cls.attrs['_replace'] = Builtin('nt._replace', replace_, pass_interp=True)
    cls.attrs['_replace'].bind_self = True
    return cls


class CounterV:
    """collections.Counter over concrete keys with symbolic real counts.
    `+=` keeps only positive counts (exact Counter semantics)."""

    def __init__(self, interp, src=None, **kw):
        self.d = {}
        if isinstance(src, CounterV):
            self.d.update(src.d)
        elif isinstance(src, dict):
            self.d.update(src)
        elif src is not None:
            for x in interp.iterate(src):
                self.d[_hk(x)] = interp.ops.binop(ADD, self.d.get(_hk(x), 0),
                                                  1)
        self.d.update(kw)

    def sym_getitem(self, k, interp):
        return self.d.get(_hk(k), 0)

    def sym_setitem(self, k, v, interp):
        self.d[_hk(k)] = v

    def sym_iter(self, interp):
        return list(self.d.keys())

    def sym_len(self, interp):
        return len(self.d)

    def sym_contains(self, item, ops):
        return _hk(item) in self.d

    def sym_getattr(self, name, interp):
        if name == 'items':
            return Builtin('items', lambda: list(self.d.items()))
        if name == 'keys':
            return Builtin('keys', lambda: list(self.d.keys()))
        if name == 'values':
            return Builtin('values', lambda: list(self.d.values()))
        if name == 'copy':
            return Builtin('copy', lambda: CounterV(interp, self))
        raise Unsupported('CounterV.%s (no model)' % name)

    def sym_equals(self, other, ops):
        if isinstance(other, CounterV):
            od = other.d
        elif isinstance(other, dict):
            od = other
        else:
            return False
        keys = list(self.d.keys()) + [k for k in od if k not in self.d]
        return ops.all_([ops.equals(self.d.get(k, 0), od.get(k, 0))
                         for k in keys])

    def sym_iadd(self, other, interp):
        ops = interp.ops
        if not isinstance(other, CounterV):
            raise Unsupported('Counter += non-Counter')
        keys = list(self.d.keys()) + [k for k in other.d if k not in self.d]
        new = {}
        for k in keys:
            tot = ops.binop(ADD, self.d.get(k, 0), other.d.get(k, 0))
            if ops.truth(ops.compare(ast.Gt(), tot, 0)):
                new[k] = tot
        self.d = new
        return self


def shallow_copy(interp, x):
    if isinstance(x, list):
        return list(x)
    if isinstance(x, dict):
        return dict(x)
    if isinstance(x, NDArr):
        return NDArr(_copy_data(x.data))
    if isinstance(x, Obj):
        o = Obj(x.cls, dict(x.fields))
        return o
    if isinstance(x, set):
        return set(x)
    if hasattr(x, 'sym_copy'):
        return x.sym_copy(interp)
    return x


def deep_copy(interp, x, memo):
    if id(x) in memo:
        return memo[id(x)]
    if isinstance(x, list):
        r = []
        memo[id(x)] = r
        r.extend(deep_copy(interp, e, memo) for e in x)
        return r
    if isinstance(x, tuple):
        return tuple(deep_copy(interp, e, memo) for e in x)
    if isinstance(x, dict):
        r = {}
        memo[id(x)] = r
        for k, v in x.items():
            r[k] = deep_copy(interp, v, memo)
        return r
    if isinstance(x, NDArr):
        return NDArr(_copy_data(x.data))
    if isinstance(x, Obj):
        o = Obj(x.cls)
        memo[id(x)] = o
        for k, v in x.fields.items():
            o.fields[k] = deep_copy(interp, v, memo)
        return o
    if isinstance(x, set):
        return set(x)
    if hasattr(x, 'sym_deepcopy'):
        return x.sym_deepcopy(interp, memo)
    return x


# ------------------------------------------------------------------ re

class MatchV:
    def __init__(self, m):
        self.m = m

    def sym_getattr(self, name, interp):
        if name in ('group', 'groups', 'start', 'end', 'span', 'groupdict'):
            return Builtin('match.' + name,
                           lambda *a: getattr(self.m, name)(*a))
        raise Unsupported('MatchV.%s (no model)' % name)


class GroupV:
    """match object whose whole-match text is known"""

    def __init__(self, text, interp=None):
        self.text = text

    def sym_getattr(self, name, interp):
        if name == 'group':
            return Builtin('group', lambda *a: self.text)
        if name == 'start':
            return Builtin('start', lambda *a: 0)
        if name == 'end':
            return Builtin('end', lambda *a: py_len(interp, self.text))
        if name == 'span':
            return Builtin('span', lambda *a: (0, py_len(interp, self.text)))
        raise Unsupported('GroupV.%s (no model)' % name)


def _re_table(interp):
    import re as _re

    def conc(*xs):
        return all(isinstance(x, (str, int)) or x is None for x in xs)

    def wrap(fn, is_match=False):
        def f(it, pattern, *args, **kw):
            if not conc(pattern, *args):
                from . import sstr
                if ((fn == 'search' and pattern == '^\\d+\\.?\\d*') or
                    (fn == 'match' and pattern in ('\\d+\\.?\\d*', '^\\d+\\.?\\d*'))) \
                        and len(args) == 1:
                    r = sstr.number_prefix(args[0], it)
                    return None if r is None else GroupV(r, it)
                raise Unsupported('re.%s on symbolic strings' % fn)
            try:
                r = getattr(_re, fn)(pattern, *args, **kw)
            except _re.error as e:
                raise Unsupported('re error %s' % e)
            if is_match:
                return MatchV(r) if r is not None else None
            if isinstance(r, list):
                return [tuple(x) if isinstance(x, tuple) else x for x in r]
            return r
        return Builtin('re.' + fn, f, pass_interp=True)
    def finditer(it, pattern, string, flags=0):
        if not conc(pattern, string):
            raise Unsupported('re.finditer on symbolic strings')
        try:
            return _Iter([MatchV(m) for m in _re.finditer(pattern, string, flags)])
        except _re.error as e:
            raise Unsupported('re error %s' % e)

    def compile_(it, pattern, flags=0):
        if not isinstance(pattern, str):
            raise Unsupported('re.compile of a symbolic pattern')
        tab = _re_table(it)
        return CallableNS('re.Pattern', lambda it2, *a, **k: _unsup('calling a compiled pattern'),
                          {nm: Builtin('pattern.' + nm, (lambda f: (lambda it2, *a, **k: f.fn(it2, pattern, *a, **k)))(tab[nm]), pass_interp=True)
                           for nm in ('findall', 'split', 'sub', 'match', 'search', 'fullmatch', 'finditer')}
                          | {'pattern': pattern})
    return {'finditer': Builtin('re.finditer', finditer, pass_interp=True),
            'compile': Builtin('re.compile', compile_, pass_interp=True),
            'findall': wrap('findall'), 'split': wrap('split'),
            'sub': wrap('sub'), 'match': wrap('match', True),
            'search': wrap('search', True), 'fullmatch': wrap('fullmatch',
                                                              True)}
