"""Operators on pvc values."""
import ast
import z3
from fractions import Fraction
from .values import (Sym, NDArr, GenArr, SumV, Opaque, Obj, Unsupported, mk,
                     z3real, z3int, z3bool, z3str, is_num, is_concrete_num,
                     to_frac, raise_, ExcObj, PyClass, ExcClass)


def _is_int(v):
    return (isinstance(v, int) and not isinstance(v, bool)) or \
        (isinstance(v, Sym) and v.kind == 'int')


def _is_scalar(v):
    return isinstance(v, (bool, int, Fraction, Sym))


def map_arr(f, a):
    if isinstance(a, list):
        return [map_arr(f, x) for x in a]
    return f(a)


def zip_arr(f, a, b):
    if isinstance(a, list) and isinstance(b, list):
        if len(a) != len(b):
            if len(b) == 1:
                return [zip_arr(f, x, b[0]) for x in a]
            if len(a) == 1:
                return [zip_arr(f, a[0], y) for y in b]
            raise_('ValueError', 'operands could not be broadcast together')
        return [zip_arr(f, x, y) for x, y in zip(a, b)]
    if isinstance(a, list):
        return [zip_arr(f, x, b) for x in a]
    if isinstance(b, list):
        return [zip_arr(f, a, y) for y in b]
    return f(a, b)


def ipow_term(t, n):
    if n == 0:
        return z3.RealVal(1)
    r = t
    for _ in range(n - 1):
        r = r * t
    return r


class Ops:
    def __init__(self, ctx):
        self.ctx = ctx

    # ----------------------------------------------------------- arithmetic
    def binop(self, op, a, b):
        # arrays
        if isinstance(a, NDArr) or isinstance(b, NDArr):
            if isinstance(op, ast.MatMult):
                return self.dot(a, b)
            da = a.data if isinstance(a, NDArr) else (
                list(a) if isinstance(a, (list, tuple)) else a)
            db = b.data if isinstance(b, NDArr) else (
                list(b) if isinstance(b, (list, tuple)) else b)
            return NDArr(zip_arr(lambda x, y: self.binop(op, x, y), da, db))
        if isinstance(a, GenArr) or isinstance(b, GenArr):
            return self._gen_binop(op, a, b)
        if isinstance(a, SumV) or isinstance(b, SumV):
            return self._sum_binop(op, a, b)
        # sequences / strings
        if isinstance(op, ast.Add) and (_is_sstr(a) or _is_sstr(b)) and \
                (_is_sstr(a) or isinstance(a, str)) and \
                (_is_sstr(b) or isinstance(b, str)):
            from . import sstr
            return sstr.concat(a, b)
        if isinstance(op, ast.Mod) and _is_sstr(a):
            raise Unsupported('% formatting with a structured format string')
        if isinstance(op, ast.Add):
            if isinstance(a, list) and isinstance(b, list):
                return a + b
            if isinstance(a, tuple) and isinstance(b, tuple):
                return a + b
            if isinstance(a, str) and isinstance(b, str):
                return a + b
            if (isinstance(a, (str, Sym)) and isinstance(b, (str, Sym)) and
                    (_isstr(a) and _isstr(b))):
                return mk(z3.Concat(z3str(a), z3str(b)))
        if isinstance(op, ast.Mult):
            if isinstance(a, (list, tuple, str)) and isinstance(b, int):
                return a * b
            if isinstance(b, (list, tuple, str)) and isinstance(a, int):
                return a * b
        if isinstance(op, ast.Mod) and isinstance(a, str):
            return self.str_mod(a, b)
        if isinstance(op, (ast.BitAnd, ast.BitOr)) and \
                isinstance(a, (bool, Sym)) and isinstance(b, (bool, Sym)) and \
                (isinstance(a, bool) or a.kind == 'bool') and \
                (isinstance(b, bool) or b.kind == 'bool'):
            if isinstance(a, bool) and isinstance(b, bool):
                return (a and b) if isinstance(op, ast.BitAnd) else (a or b)
            f = z3.And if isinstance(op, ast.BitAnd) else z3.Or
            return mk(f(z3bool(a), z3bool(b)))
        if isinstance(a, (set, frozenset)) and isinstance(b, (set, frozenset)) \
                and all(isinstance(x, (str, int, tuple)) for x in a | b):
            # sets of concrete hashable members
            if isinstance(op, ast.BitOr):
                return a | b
            if isinstance(op, ast.BitAnd):
                return a & b
            if isinstance(op, ast.Sub):
                return a - b
            if isinstance(op, ast.BitXor):
                return a ^ b
        if not (_is_scalar(a) and _is_scalar(b)):
            raise Unsupported('binop %s on %r, %r' % (type(op).__name__,
                                                      type(a), type(b)))
        if isinstance(a, bool):
            a = int(a)
        if isinstance(b, bool):
            b = int(b)
        conc = is_concrete_num(a) and is_concrete_num(b)
        if isinstance(op, ast.Add):
            return a + b if conc else self._arith(a, b, lambda x, y: x + y)
        if isinstance(op, ast.Sub):
            return a - b if conc else self._arith(a, b, lambda x, y: x - y)
        if isinstance(op, ast.Mult):
            if conc:
                return a * b
            if is_concrete_num(a) and a == 0 or is_concrete_num(b) and b == 0:
                return 0 if (_is_int(a) and _is_int(b)) else Fraction(0)
            return self._arith(a, b, lambda x, y: x * y)
        if isinstance(op, ast.Div):
            if conc:
                if b == 0:
                    raise_('ZeroDivisionError', 'division by zero')
                return Fraction(a) / Fraction(b)
            if is_concrete_num(b) and b == 0:
                raise_('ZeroDivisionError', 'division by zero')
            self.ctx.need_nonzero(b)
            return mk(z3real(a) / z3real(b))
        if isinstance(op, ast.FloorDiv):
            if conc:
                if b == 0:
                    raise_('ZeroDivisionError', 'division by zero')
                return a // b
            if _is_int(a) and _is_int(b):
                return self._floordiv(a, b)
            raise Unsupported('floor division of reals')
        if isinstance(op, ast.Mod):
            if conc:
                return a % b
            if _is_int(a) and _is_int(b):
                q = self._floordiv(a, b)
                return mk(z3int(a) - z3int(b) * z3int(q))
            raise Unsupported('mod of reals')
        if isinstance(op, ast.Pow):
            return self.power(a, b)
        raise Unsupported('binop %s' % type(op).__name__)

    def _floordiv(self, a, b):
        # python floor division; z3 div is euclidean (rounds so that the
        # remainder is non-negative), equal to floor when divisor > 0
        za, zb = z3int(a), z3int(b)
        if is_concrete_num(b) and b > 0 or self.ctx.prove(zb > 0):
            return mk(za / zb)
        raise Unsupported('floor division by possibly non-positive divisor')

    def _arith(self, a, b, f):
        if _is_int(a) and _is_int(b):
            return mk(f(z3int(a), z3int(b)))
        return mk(f(z3real(a), z3real(b)))

    def power(self, a, b):
        if is_concrete_num(a) and is_concrete_num(b):
            if isinstance(b, int) or Fraction(b).denominator == 1:
                n = int(b)
                if n >= 0:
                    return a ** n
                if a == 0:
                    raise_('ZeroDivisionError', '0 to a negative power')
                return Fraction(a) ** n
            if a > 0 and Fraction(b) == Fraction(1, 2):
                r = _exact_sqrt(Fraction(a))
                if r is not None:
                    return r
        if is_concrete_num(b) and Fraction(b).denominator == 1:
            n = int(b)
            if _is_int(a) and n >= 0 and isinstance(b, int):
                t = z3int(a)
                r = z3.IntVal(1)
                for _ in range(n):
                    r = r * t
                return mk(r)
            t = z3real(a)
            if n >= 0:
                return mk(ipow_term(t, n))
            self.ctx.need_nonzero(a)
            return mk(z3.RealVal(1) / ipow_term(t, -n))
        if is_concrete_num(b) and Fraction(b).denominator == 2:
            # a ** (k/2) = sqrt(a) ** k
            k = Fraction(b).numerator
            s = self.ctx.sqrt_checked(a)
            return self.power(s, k)
        # general: exp(b * log(a))
        la = self.ctx.log_checked(a)
        return self.ctx.exp(self.binop(ast.Mult(), b, la))

    def unary(self, op, a):
        if isinstance(a, NDArr):
            return NDArr(map_arr(lambda x: self.unary(op, x), a.data))
        if isinstance(a, GenArr):
            return GenArr(a.n, lambda i: self.unary(op, a.elem(i)))
        if isinstance(op, ast.Not):
            t = self.truth_value(a)
            if isinstance(t, bool):
                return not t
            return mk(z3.Not(t.t))
        if isinstance(op, ast.USub):
            if isinstance(a, SumV):
                return self._sum_binop(ast.Mult(), -1, a)
            if isinstance(a, bool):
                return -int(a)
            if is_concrete_num(a):
                return -a
            if isinstance(a, Sym):
                return mk(-a.t)
        if isinstance(op, ast.UAdd):
            return a
        raise Unsupported('unary %s on %r' % (type(op).__name__, a))

    # ----------------------------------------------------------- gen arrays
    def _gen_binop(self, op, a, b):
        n = a.n if isinstance(a, GenArr) else b.n
        if isinstance(a, GenArr) and isinstance(b, GenArr):
            if not self.ctx.prove(a.n == b.n):
                raise Unsupported('GenArr length mismatch not excluded')
            return GenArr(n, lambda i: self.binop(op, a.elem(i), b.elem(i)))
        if isinstance(a, GenArr):
            if not _is_scalar(b):
                raise Unsupported('GenArr op %r' % type(b))
            return GenArr(n, lambda i: self.binop(op, a.elem(i), b))
        if not _is_scalar(a):
            raise Unsupported('GenArr op %r' % type(a))
        return GenArr(n, lambda i: self.binop(op, a, b.elem(i)))

    def _sum_binop(self, op, a, b):
        """linear arithmetic on  c + sum body  values"""
        M, A, S, D = ast.Mult, ast.Add, ast.Sub, ast.Div
        if isinstance(a, SumV) and isinstance(b, SumV):
            if a.kind != b.kind:
                raise Unsupported('sum/prod mix')
            if not self.ctx.prove(a.n == b.n):
                raise Unsupported('SumV over different ranges')
            if a.kind == 'sum' and isinstance(op, (A, S)):
                return SumV(a.n, lambda i: self.binop(op, a.body(i), b.body(i)),
                            self.binop(op, a.c, b.c))
            if a.kind == 'prod' and isinstance(op, (M, D)):
                return SumV(a.n, lambda i: self.binop(op, a.body(i), b.body(i)),
                            self.binop(op, a.c, b.c), 'prod')
            raise Unsupported('nonlinear op on sums')
        if isinstance(a, SumV):
            if not _is_scalar(b):
                raise Unsupported('SumV op %r' % type(b))
            if a.kind == 'sum':
                if isinstance(op, (A, S)):
                    return SumV(a.n, a.body, self.binop(op, a.c, b))
                if isinstance(op, (M, D)):
                    return SumV(a.n, lambda i: self.binop(op, a.body(i), b),
                                self.binop(op, a.c, b))
            else:
                if isinstance(op, (M, D)):
                    return SumV(a.n, a.body, self.binop(op, a.c, b), 'prod')
            raise Unsupported('op %s on SumV' % type(op).__name__)
        # scalar op SumV
        if not _is_scalar(a):
            raise Unsupported('%r op SumV' % type(a))
        if b.kind == 'sum':
            if isinstance(op, A):
                return SumV(b.n, b.body, self.binop(op, a, b.c))
            if isinstance(op, S):
                return SumV(b.n, lambda i: self.unary(ast.USub(), b.body(i)),
                            self.binop(op, a, b.c))
            if isinstance(op, M):
                return SumV(b.n, lambda i: self.binop(op, a, b.body(i)),
                            self.binop(op, a, b.c))
        else:
            if isinstance(op, M):
                return SumV(b.n, b.body, self.binop(op, a, b.c), 'prod')
        raise Unsupported('op %s on SumV (right)' % type(op).__name__)

    # ----------------------------------------------------------- comparison
    def compare(self, op, a, b):
        if isinstance(op, ast.Is):
            return self.is_(a, b)
        if isinstance(op, ast.IsNot):
            r = self.is_(a, b)
            return (not r) if isinstance(r, bool) else mk(z3.Not(r.t))
        if isinstance(op, ast.In):
            return self.contains(b, a)
        if isinstance(op, ast.NotIn):
            r = self.contains(b, a)
            return (not r) if isinstance(r, bool) else mk(z3.Not(r.t))
        if isinstance(a, NDArr) or isinstance(b, NDArr):
            da = a.data if isinstance(a, NDArr) else a
            db = b.data if isinstance(b, NDArr) else b
            return NDArr(zip_arr(lambda x, y: self.compare(op, x, y), da, db))
        if isinstance(a, GenArr) or isinstance(b, GenArr):
            if isinstance(a, GenArr) and not isinstance(b, GenArr):
                return GenArr(a.n, lambda i: self.compare(op, a.elem(i), b))
            if isinstance(b, GenArr) and not isinstance(a, GenArr):
                return GenArr(b.n, lambda i: self.compare(op, a, b.elem(i)))
            raise Unsupported('GenArr compare')
        if isinstance(op, (ast.Eq, ast.NotEq)):
            r = self.equals(a, b)
            if isinstance(op, ast.Eq):
                return r
            return (not r) if isinstance(r, bool) else mk(z3.Not(r.t))
        if isinstance(a, bool):
            a = int(a)
        if isinstance(b, bool):
            b = int(b)
        ia = type(a).__name__ == 'InfV'
        ib = type(b).__name__ == 'InfV'
        if ia or ib:
            fa = a.f if ia else 0.0
            fb = b.f if ib else 0.0
            if (ia and fa != fa) or (ib and fb != fb):
                return False
            if not ((ia or is_num(a)) and (ib or is_num(b))):
                raise Unsupported('comparison with inf')
            return {ast.Lt: fa < fb, ast.LtE: fa <= fb, ast.Gt: fa > fb,
                    ast.GtE: fa >= fb}[type(op)]
        if is_concrete_num(a) and is_concrete_num(b):
            return {ast.Lt: a < b, ast.LtE: a <= b, ast.Gt: a > b,
                    ast.GtE: a >= b}[type(op)]
        if isinstance(a, str) and isinstance(b, str):
            return {ast.Lt: a < b, ast.LtE: a <= b, ast.Gt: a > b,
                    ast.GtE: a >= b}[type(op)]
        if isinstance(a, (list, tuple)) and isinstance(b, (list, tuple)) and \
                all(is_concrete_num(x) or isinstance(x, str) for x in a) and \
                all(is_concrete_num(x) or isinstance(x, str) for x in b):
            return {ast.Lt: a < b, ast.LtE: a <= b, ast.Gt: a > b,
                    ast.GtE: a >= b}[type(op)]
        if is_num(a) and is_num(b):
            if _is_int(a) and _is_int(b):
                x, y = z3int(a), z3int(b)
            else:
                x, y = z3real(a), z3real(b)
            t = {ast.Lt: lambda: x < y, ast.LtE: lambda: x <= y,
                 ast.Gt: lambda: x > y, ast.GtE: lambda: x >= y}[type(op)]()
            return mk(t)
        if a is None or b is None:
            raise_('TypeError', 'ordering comparison with None')
        raise Unsupported('compare %s on %r, %r' % (type(op).__name__, a, b))

    def is_(self, a, b):
        if a is None or b is None:
            return a is b
        if isinstance(a, bool) or isinstance(b, bool):
            return a is b
        if isinstance(a, (Obj, list, dict, NDArr, Opaque, PyClass)):
            return a is b
        if isinstance(a, type) or isinstance(b, type):
            return a is b
        if isinstance(a, Sym) or isinstance(b, Sym):
            # `x is y` on numbers/strings: not meaningful symbolically
            if a is b:
                return True
            raise Unsupported('`is` on symbolic scalars')
        return a is b

    def equals(self, a, b):
        """python == as bool or Sym(bool)"""
        if a is None or b is None:
            return a is None and b is None
        if isinstance(a, bool) and isinstance(b, bool):
            return a == b
        if isinstance(a, str) and isinstance(b, str):
            return a == b
        if _is_sstr(a) or _is_sstr(b):
            if (_is_sstr(a) or isinstance(a, str)) and \
                    (_is_sstr(b) or isinstance(b, str)):
                from . import sstr
                return sstr.equals(a, b, self)
            return False
        if _isstr(a) and _isstr(b):
            return mk(z3str(a) == z3str(b))
        if _isstr(a) != _isstr(b) and (_isstr(a) or _isstr(b)):
            if isinstance(a, (Obj, Opaque)) or isinstance(b, (Obj, Opaque)):
                return self._obj_eq(a, b)
            return False
        if is_num(a) and is_num(b) or isinstance(a, bool) and is_num(b) or \
                is_num(a) and isinstance(b, bool):
            if isinstance(a, bool):
                a = int(a)
            if isinstance(b, bool):
                b = int(b)
            if is_concrete_num(a) and is_concrete_num(b):
                return a == b
            if _is_int(a) and _is_int(b):
                return mk(z3int(a) == z3int(b))
            return mk(z3real(a) == z3real(b))
        if isinstance(a, Sym) and a.kind == 'bool' or \
                isinstance(b, Sym) and b.kind == 'bool':
            if isinstance(a, (bool, Sym)) and isinstance(b, (bool, Sym)):
                return mk(z3bool(a) == z3bool(b))
        if isinstance(a, (list, tuple)) and isinstance(b, (list, tuple)):
            if type(a) is not type(b):
                return False
            if len(a) != len(b):
                return False
            return self.all_([self.equals(x, y) for x, y in zip(a, b)])
        if isinstance(a, dict) and isinstance(b, dict):
            if set(map(_hk, a)) != set(map(_hk, b)):
                return False
            bk = {_hk(k): v for k, v in b.items()}
            return self.all_([self.equals(v, bk[_hk(k)])
                              for k, v in a.items()])
        if isinstance(a, SumV) or isinstance(b, SumV):
            return self.sum_equals(a, b)
        # numpy scalar == list broadcasts element-wise (symbolic reals stem
        # from numpy computations in this code base; a plain python float
        # compared with a list would be False)
        if isinstance(a, Sym) and a.kind in ('real', 'int') and \
                isinstance(b, list) and b and all(is_num(x) for x in b):
            return NDArr([self.equals(a, x) for x in b])
        if isinstance(b, Sym) and b.kind in ('real', 'int') and \
                isinstance(a, list) and a and all(is_num(x) for x in a):
            return NDArr([self.equals(x, b) for x in a])
        if isinstance(a, NDArr) or isinstance(b, NDArr):
            da = a.data if isinstance(a, NDArr) else a
            db = b.data if isinstance(b, NDArr) else b
            if isinstance(da, tuple):
                da = list(da)
            if isinstance(db, tuple):
                db = list(db)
            return NDArr(zip_arr(lambda x, y: self.equals(x, y), da, db)) \
                if isinstance(da, list) or isinstance(db, list) else \
                self.equals(da, db)
        if hasattr(a, 'sym_equals'):
            return a.sym_equals(b, self)
        if hasattr(b, 'sym_equals'):
            return b.sym_equals(a, self)
        if isinstance(a, (Obj, Opaque)) or isinstance(b, (Obj, Opaque)):
            return self._obj_eq(a, b)
        if isinstance(a, (set, frozenset)) and isinstance(b, (set, frozenset)):
            return set(map(_hk, a)) == set(map(_hk, b))
        if type(a) is not type(b):
            if isinstance(a, (PyClass, ExcClass, type)) or \
                    isinstance(b, (PyClass, ExcClass, type)):
                return a is b
            return False
        return a is b

    def _obj_eq(self, a, b):
        if a is b and not isinstance(a, Obj):
            return True
        it = getattr(self, 'interp', None)
        for x, y in ((a, b), (b, a)):
            if isinstance(x, Obj):
                f, _ = x.cls.lookup('__eq__')
                if f is not None:
                    if it is None:
                        raise Unsupported('user __eq__')
                    from .values import BoundMethod
                    r = it.call(BoundMethod(x, f), [y], {})
                    if isinstance(r, Opaque) and r.name == 'NotImplemented':
                        continue
                    return self.truth_value(r)
        return a is b

    def sum_equals(self, a, b):
        """element-wise sufficient condition for equality of two sums over
        the same range; Unsupported if it cannot be established (never
        returns False: a failed sufficient check is *undecided*)."""
        if isinstance(a, SumV) and _is_scalar(b):
            b = SumV(a.n, lambda i: (1 if a.kind == 'prod' else 0), b, a.kind)
        elif isinstance(b, SumV) and _is_scalar(a):
            a = SumV(b.n, lambda i: (1 if b.kind == 'prod' else 0), a, b.kind)
        if not (isinstance(a, SumV) and isinstance(b, SumV)):
            raise Unsupported('SumV == non-scalar')
        if a.kind != b.kind:
            raise Unsupported('sum == prod')
        if not self.ctx.goal_mode:
            raise Unsupported('sum equality outside a proof goal')
        # generic index: a free constant, i.e. universally quantified in the
        # validity query; instances of the element facts are attached
        i = self.ctx.fresh('i', 'int')
        hyp = [i >= 0, i < a.n] + [f(i) for f in self.ctx.index_facts]
        body_eq = self.equals(a.body(i), b.body(i))
        c_eq = self.equals(a.c, b.c)
        return mk(z3.And(a.n == b.n, z3bool(c_eq),
                         z3.Implies(z3.And(*hyp), z3bool(body_eq))))

    def all_(self, bs):
        out = []
        for b in bs:
            if b is False:
                return False
            if b is True:
                continue
            if isinstance(b, NDArr):
                b = self.all_(_flatten(b.data))
                if b is False:
                    return False
                if b is True:
                    continue
            out.append(z3bool(b))
        if not out:
            return True
        return mk(z3.And(*out)) if len(out) > 1 else mk(out[0])

    def any_(self, bs):
        out = []
        for b in bs:
            if b is True:
                return True
            if b is False:
                continue
            out.append(z3bool(b))
        if not out:
            return False
        return mk(z3.Or(*out)) if len(out) > 1 else mk(out[0])

    def contains(self, container, item):
        if isinstance(container, dict):
            return self.any_([self.equals(k, item) for k in container])
        if isinstance(container, (list, tuple, set, frozenset)):
            return self.any_([self.equals(k, item) for k in container])
        if isinstance(container, NDArr):
            return self.any_([self.equals(k, item)
                              for k in _flatten(container.data)])
        if isinstance(container, str) and isinstance(item, str):
            return item in container
        if _is_sstr(container):
            from . import sstr
            return sstr.contains(container, item, self)
        if _isstr(container) and _isstr(item):
            return mk(z3.Contains(z3str(container), z3str(item)))
        if hasattr(container, 'sym_contains'):
            return container.sym_contains(item, self)
        raise Unsupported('in on %r' % type(container))

    # ----------------------------------------------------------- truthiness
    def truth_value(self, v):
        """-> python bool or Sym(bool)"""
        if v is None:
            return False
        if isinstance(v, bool):
            return v
        if isinstance(v, (int, Fraction)):
            return v != 0
        if isinstance(v, str):
            return len(v) > 0
        if isinstance(v, (list, tuple, dict, set, frozenset)):
            return len(v) > 0
        if isinstance(v, Sym):
            k = v.kind
            if k == 'bool':
                return v
            if k in ('int', 'real'):
                return mk(v.t != 0)
            if k == 'str':
                return mk(z3.Length(v.t) > 0)
        if _is_sstr(v):
            return len(v.pieces) > 0
        if isinstance(v, NDArr):
            fl = _flatten(v.data)
            if len(fl) == 1:
                return self.truth_value(fl[0])
            raise_('ValueError', 'truth value of an array is ambiguous')
        if isinstance(v, (Obj, Opaque)):
            if isinstance(v, Obj):
                f, _ = v.cls.lookup('__len__')
                g, _ = v.cls.lookup('__bool__')
                it = getattr(self, 'interp', None)
                if g is not None and it is not None:
                    from .values import BoundMethod
                    return self.truth_value(it.call(BoundMethod(v, g), [], {}))
                if f is not None and it is not None:
                    from .values import BoundMethod
                    n = it.call(BoundMethod(v, f), [], {})
                    return self.truth_value(n)
                if f is not None or g is not None:
                    raise Unsupported('user __bool__/__len__')
            return True
        if hasattr(v, 'sym_truth'):
            return v.sym_truth(self)
        return True

    def truth(self, v):
        return self.ctx.branch(self.truth_value(v))

    # ----------------------------------------------------------- numpy-ish
    def dot(self, a, b):
        da = a.data if isinstance(a, NDArr) else a
        db = b.data if isinstance(b, NDArr) else b
        if isinstance(da, tuple):
            da = list(da)
        if isinstance(db, tuple):
            db = list(db)
        if not isinstance(da, list) or not isinstance(db, list):
            return self.binop(ast.Mult(), a, b)
        a2 = da and isinstance(da[0], list)
        b2 = db and isinstance(db[0], list)
        if not a2 and not b2:
            if len(da) != len(db):
                raise_('ValueError', 'shapes not aligned')
            return self.sum_list([self.binop(ast.Mult(), x, y)
                                  for x, y in zip(da, db)])
        if a2 and not b2:
            return NDArr([self.dot(NDArr(r), NDArr(db)) for r in da])
        if not a2 and b2:
            cols = list(zip(*db))
            return NDArr([self.dot(NDArr(da), NDArr(list(c))) for c in cols])
        cols = [list(c) for c in zip(*db)]
        return NDArr([[self.dot(NDArr(r), NDArr(c)) for c in cols]
                      for r in da])

    def sum_list(self, xs, start=0):
        acc = start
        for x in xs:
            acc = self.binop(ast.Add(), acc, x)
        return acc

    def prod_list(self, xs):
        acc = 1
        for x in xs:
            acc = self.binop(ast.Mult(), acc, x)
        return acc

    def ite(self, c, a, b):
        if isinstance(c, bool):
            return a if c else b
        if is_num(a) and is_num(b):
            if _is_int(a) and _is_int(b):
                return mk(z3.If(c.t, z3int(a), z3int(b)))
            return mk(z3.If(c.t, z3real(a), z3real(b)))
        if isinstance(a, (bool, Sym)) and isinstance(b, (bool, Sym)):
            return mk(z3.If(c.t, z3bool(a), z3bool(b)))
        return a if self.ctx.branch(c) else b

    def max2(self, a, b):
        return self.ite(self.compare(ast.GtE(), a, b), a, b)

    def min2(self, a, b):
        return self.ite(self.compare(ast.LtE(), a, b), a, b)

    # ----------------------------------------------------------- strings
    def str_mod(self, fmt, arg):
        args = arg if isinstance(arg, tuple) else (arg,)
        if all(isinstance(x, (int, str)) and not isinstance(x, bool)
               for x in args):
            return fmt % args
        if all(isinstance(x, (int, str, Fraction)) for x in args):
            return fmt % tuple(float(x) if isinstance(x, Fraction) else x
                               for x in args)
        raise Unsupported('% formatting of symbolic values')


def _is_sstr(v):
    return type(v).__name__ == 'SStr'


def _isstr(v):
    return isinstance(v, str) or (isinstance(v, Sym) and v.kind == 'str') \
        or _is_sstr(v)


def _hk(k):
    """hashable key"""
    if isinstance(k, Fraction) and k.denominator == 1:
        return int(k)
    return k


def _flatten(d):
    if isinstance(d, list):
        out = []
        for x in d:
            out.extend(_flatten(x))
        return out
    return [d]


def _exact_sqrt(q):
    import math
    n, d = q.numerator, q.denominator
    rn, rd = math.isqrt(n), math.isqrt(d)
    if rn * rn == n and rd * rd == d:
        return Fraction(rn, rd)
    return None
