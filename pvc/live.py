"""Read dict / list literals out of the *current* repository source, so that
contracts enumerate the live tables (a mistyped or missing entry changes the
generated obligations)."""
import ast
import os
from .interp import REPO_ROOT


def _path(module):
    base = os.path.join(REPO_ROOT, *module.split('.'))
    if os.path.isdir(base):
        return os.path.join(base, '__init__.py')
    return base + '.py'


def _tree(module):
    with open(_path(module)) as f:
        return ast.parse(f.read())


def func_literal(module, func, var):
    """value of `var = <literal>` inside def func in module"""
    for n in ast.walk(_tree(module)):
        if isinstance(n, ast.FunctionDef) and n.name == func:
            for st in ast.walk(n):
                if isinstance(st, ast.Assign) and any(
                        isinstance(t, ast.Name) and t.id == var
                        for t in st.targets):
                    return ast.literal_eval(st.value)
    raise KeyError('%s.%s.%s' % (module, func, var))


def module_literals(module, var):
    """all top-level `var = <literal>` values, in source order"""
    out = []
    for st in _tree(module).body:
        if isinstance(st, ast.Assign) and any(
                isinstance(t, ast.Name) and t.id == var for t in st.targets):
            out.append(ast.literal_eval(st.value))
    return out


def literal_source(module, func, var):
    """source text of each value in a dict literal (for significant digits)"""
    src = open(_path(module)).read()
    tree = ast.parse(src)
    nodes = [tree] if func is None else [
        n for n in ast.walk(tree)
        if isinstance(n, ast.FunctionDef) and n.name == func]
    for root in nodes:
        body = root.body if func is None else list(ast.walk(root))
        for st in body:
            if isinstance(st, ast.Assign) and any(
                    isinstance(t, ast.Name) and t.id == var
                    for t in st.targets) and isinstance(st.value, ast.Dict):
                out = {}
                for k, v in zip(st.value.keys, st.value.values):
                    out[ast.literal_eval(k)] = ast.get_source_segment(src, v)
                return out
    raise KeyError(var)
