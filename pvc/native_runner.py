"""Native side of pvc: runs under /venv/bin/python (the interpreter that has
pMuTT's dependencies).  Reads a JSON list of jobs on stdin, writes a JSON list
of results on stdout.  Each job calls the *real* function with concrete inputs
and evaluates contract clauses natively (same clause text that pvc evaluates
symbolically)."""
import sys
import os
import json
import ast
import copy
import math
import importlib
import warnings
import traceback

RTOL = 1e-9
_CMP_LOG = None     # trace of the scalar comparisons of one clause (conditioning test)


def _import_target(qual):
    modname, _, path = qual.partition(':')
    v = importlib.import_module(modname)
    for part in path.split('.'):
        v = getattr(v, part)
    return v


_SHARED = {}
_SHEET_FIRST_ROW = {}     # written sheet -> index of its first data row (after header and comment row)


def build(desc):
    import numpy as np
    k = desc['k']
    if k == 'real':
        return float(desc['v'])
    if k == 'int':
        return int(desc['v'])
    if k == 'bool':
        return bool(desc['v'])
    if k == 'const':
        return _const(desc['v'])
    if k == 'none':
        return None
    if k == 'shared':
        if desc['key'] not in _SHARED:
            _SHARED[desc['key']] = build(desc['d'])
        return _SHARED[desc['key']]
    if k == 'ndarray':
        return np.array(_plain(desc['v']), dtype=float)
    if k == 'list':
        return [build(d) for d in desc['v']]
    if k == 'tuple':
        return tuple(build(d) for d in desc['v'])
    if k == 'dict':
        return {kk: build(d) for kk, d in desc['v']}
    if k == 'new':
        cls = _import_target(desc['cls'])
        kw = {kk: build(d) for kk, d in desc['kwargs'].items()}
        if desc.get('via'):
            return getattr(cls, desc['via'])(**kw)
        o = cls(**kw)
        for kk, d in desc.get('post', {}).items():
            setattr(o, kk, build(d))
        return o
    if k == 'fields':
        cls = _import_target(desc['cls'])
        o = cls.__new__(cls)
        for kk, d in desc['fields'].items():
            object.__setattr__(o, kk, build(d))
        return o
    if k == 'cls':
        return _import_target(desc['v'])
    if k == 'npscalar':
        return getattr(np, desc['t'])(desc['v'])
    if k == 'stub':
        return Stub(desc)
    if k == 'written_file':
        return desc            # resolved after the other arguments are built
    if k == 'excel_table':
        import tempfile
        import pandas as pd
        rows = []
        if desc.get('comment_row', True):
            rows.append(['comment'] * len(desc['headers']))
        for r in desc['rows']:
            rows.append([None if c is None else build(c) for c in r])
        df = pd.DataFrame(rows)
        fd, path = tempfile.mkstemp(prefix='pvc_sheet_', suffix='.xlsx')
        os.close(fd)
        with pd.ExcelWriter(path) as w:
            # header written as a data row so that duplicate headers survive
            pd.DataFrame([desc['headers']] + rows).to_excel(
                w, index=False, header=False)
        _TMPFILES.append(path)
        _SHEET_FIRST_ROW[path] = 2 if desc.get('comment_row', True) else 1
        return path
    raise ValueError('desc kind %r' % k)


class Stub:
    """An object whose listed getters are pure functions of their keyword
    arguments (abstract callee on the native side): a table entry from the
    solver model if one matches, else base + sum coef_k * numeric(kwarg_k)."""

    def __init__(self, desc):
        self._desc = desc
        for k, d in desc.get('attrs', {}).items():
            setattr(self, k, build(d))
        self.calls = []
        self._table = {}
        for (m, kw, val) in desc.get('table', []):
            self._table[(m, _tkey(kw))] = val
        for m, spec in desc.get('methods', {}).items():
            setattr(self, m, self._mk(m, spec))

    def __deepcopy__(self, memo):
        return self

    def _mk(self, m, spec):
        def f(**kw):
            self.calls.append((m, dict(kw)))
            kw = {k: v for k, v in kw.items()
                  if k not in self._desc.get('ignores', ())}
            key = (m, _tkey(kw))
            if key in self._table:
                return self._table[key]
            val = spec.get('base', 1.0)
            for k, c in spec.get('coef', {}).items():
                if k not in kw:
                    continue
                val = val + c * _numeric(kw[k])
            for k in kw:
                if k not in spec.get('coef', {}):
                    val = val + 0.05 * _numeric(kw[k])
            return val
        return f


def _numeric(v):
    if isinstance(v, bool):
        return 1.0 if v else 0.0
    if isinstance(v, (int, float)):
        return math.log1p(abs(float(v))) * (1 if v >= 0 else -1)
    if v is None:
        return 0.731        # a keyword given as None differs from an absent one
    if isinstance(v, dict):
        return sum(_numeric(x) for x in v.values()) + 0.01 * len(v)
    if isinstance(v, (list, tuple)):
        return sum(_numeric(x) for x in v)
    return (sum(ord(ch) for ch in str(v)) % 97) / 97.0


def _tkey(kw):
    out = []
    for k in sorted(kw):
        v = kw[k]
        if isinstance(v, float):
            v = round(v, 9)
        out.append((k, repr(v)))
    return tuple(out)


class NotEvaluable(Exception):
    """a clause cannot be judged in floating point at this input"""


def _const(v):
    return v


def _plain(v):
    if isinstance(v, list):
        return [_plain(x) for x in v]
    if isinstance(v, dict) and 'v' in v:
        return _plain(v['v'])
    return v


def approx_eq(a, b, rtol=None):
    import numpy as np
    rtol = RTOL if rtol is None else rtol
    if a is None or b is None:
        return a is None and b is None
    if isinstance(a, bool) or isinstance(b, bool):
        return bool(a) == bool(b) if isinstance(a, (bool, int, float, np.bool_)) \
            and isinstance(b, (bool, int, float, np.bool_)) else a == b
    if isinstance(a, str) or isinstance(b, str):
        if a == b or not (isinstance(a, str) and isinstance(b, str)):
            return a == b
        # texts that differ only in the last digits of printed floats (the
        # clause computes the number in another association than the code)
        import re
        num = r'[-+]?(?:\d+\.\d*|\.\d+|\d+)(?:[eE][-+]?\d+)?'
        na, nb = re.findall(num, a), re.findall(num, b)
        if len(na) != len(nb) or re.sub(num, '#', a) != re.sub(num, '#', b):
            return False
        for x, y in zip(na, nb):
            if x == y:
                continue
            if not any(ch in x + y for ch in '.eE'):
                return False        # integers are compared exactly
            if not approx_eq(float(x), float(y), rtol):
                return False
        return True
    if isinstance(a, dict) and isinstance(b, dict):
        if set(a) != set(b):
            return False
        return all(approx_eq(a[k], b[k], rtol) for k in a)
    if isinstance(a, (list, tuple, np.ndarray)) or \
            isinstance(b, (list, tuple, np.ndarray)):
        try:
            aa = list(a) if not np.isscalar(a) else None
            bb = list(b) if not np.isscalar(b) else None
        except TypeError:
            return False
        if aa is None and bb is not None:
            return all(approx_eq(a, y, rtol) for y in bb)
        if bb is None and aa is not None:
            return all(approx_eq(x, b, rtol) for x in aa)
        if len(aa) != len(bb):
            return False
        return all(approx_eq(x, y, rtol) for x, y in zip(aa, bb))
    if isinstance(a, (int, float, np.floating, np.integer)) and \
            isinstance(b, (int, float, np.floating, np.integer)):
        a = float(a)
        b = float(b)
        if math.isnan(a) or math.isnan(b) or math.isinf(a) or math.isinf(b):
            # overflow / 0*inf at a corner of the domain: the comparison says
            # nothing about the real-number clause; the sample is skipped
            raise NotEvaluable('non-finite value in a comparison (%r, %r)' % (a, b))
        else:
            ok = abs(a - b) <= rtol * max(abs(a), abs(b)) + 1e-12 * rtol / 1e-9 \
                if max(abs(a), abs(b)) > 1e-300 else True
        if _CMP_LOG is not None and len(_CMP_LOG) < 400:
            _CMP_LOG.append([a, b, bool(ok)])
        return ok
    try:
        return bool(a == b)
    except Exception:
        return False


class _Rewrite(ast.NodeTransformer):
    """== / != on values -> tolerant comparison;  D(e, x) -> finite
    difference;  old(e) -> evaluation in the pre-state."""

    def visit_Compare(self, node):
        self.generic_visit(node)
        if len(node.ops) == 1 and isinstance(node.ops[0], (ast.Eq, ast.NotEq)):
            call = ast.Call(func=ast.Name('_eq', ast.Load()),
                            args=[node.left, node.comparators[0]],
                            keywords=[])
            if isinstance(node.ops[0], ast.NotEq):
                call.func = ast.Name('_ne_eq', ast.Load())
                return ast.UnaryOp(ast.Not(), call)
            return call
        if len(node.ops) > 1 and all(isinstance(o, ast.Eq) for o in node.ops):
            items = [node.left] + node.comparators
            vals = [ast.Call(func=ast.Name('_eq', ast.Load()),
                             args=[items[i], items[i + 1]], keywords=[])
                    for i in range(len(items) - 1)]
            return ast.BoolOp(ast.And(), vals)
        return node

    def visit_Call(self, node):
        if isinstance(node.func, ast.Name) and node.func.id == 'D' and \
                len(node.args) == 2 and isinstance(node.args[1], ast.Name):
            body = self.visit(node.args[0])
            lam = ast.Lambda(
                args=ast.arguments(posonlyargs=[], args=[ast.arg(
                    node.args[1].id)], kwonlyargs=[], kw_defaults=[],
                    defaults=[]), body=body)
            return ast.Call(func=ast.Name('_D', ast.Load()),
                            args=[lam, node.args[1]], keywords=[])
        if isinstance(node.func, ast.Name) and node.func.id == 'D' and len(node.args) == 2 and \
                isinstance(node.args[1], ast.Subscript) and isinstance(node.args[1].value, ast.Name):
            # D(e, x[k]): derivative with respect to one component - inside e
            # the sequence x is replaced by a copy whose k-th entry is the
            # lambda variable
            seq = node.args[1].value.id
            idx = node.args[1].slice

            class _Sub(ast.NodeTransformer):
                def visit_Name(self, n):
                    if n.id == seq and isinstance(n.ctx, ast.Load):
                        return ast.Call(func=ast.Name('_with', ast.Load()),
                                        args=[ast.Name(seq, ast.Load()), idx, ast.Name('_dv', ast.Load())], keywords=[])
                    return n
            import copy as _copy
            body = self.visit(_Sub().visit(_copy.deepcopy(node.args[0])))
            lam = ast.Lambda(
                args=ast.arguments(posonlyargs=[], args=[ast.arg('_dv')], kwonlyargs=[], kw_defaults=[], defaults=[]), body=body)
            return ast.Call(func=ast.Name('_D', ast.Load()), args=[lam, node.args[1]], keywords=[])
        if isinstance(node.func, ast.Name) and node.func.id == 'old' and \
                len(node.args) == 1:
            src = ast.unparse(node.args[0])
            return ast.Call(func=ast.Name('_old', ast.Load()),
                            args=[ast.Constant(src)], keywords=[])
        self.generic_visit(node)
        return node


class DerivMismatch(Exception):
    pass


def _D(f, x):
    """central finite difference with Richardson check at 3 step sizes"""
    x = float(x)
    ests = []
    for rel in (1e-3, 1e-4, 1e-5):
        h = max(abs(x), 1.0) * rel
        d1 = (f(x + h) - f(x - h)) / (2 * h)
        d2 = (f(x + 2 * h) - f(x - 2 * h)) / (4 * h)
        ests.append((4 * d1 - d2) / 3)
    return DVal(ests)


class DVal:
    """a numerically estimated derivative; compares with a loose tolerance"""

    def __init__(self, ests):
        self.ests = ests
        self.v = ests[1]

    def _num(self, other):
        return other.v if isinstance(other, DVal) else other

    def __float__(self):
        return float(self.v)

    def __add__(self, o): return DVal([e + self._num(o) for e in self.ests])
    __radd__ = __add__
    def __sub__(self, o): return DVal([e - self._num(o) for e in self.ests])
    def __rsub__(self, o): return DVal([self._num(o) - e for e in self.ests])
    def __mul__(self, o): return DVal([e * self._num(o) for e in self.ests])
    __rmul__ = __mul__
    def __truediv__(self, o): return DVal([e / self._num(o) for e in self.ests])
    def __neg__(self): return DVal([-e for e in self.ests])


def clause_eq(a, b):
    if isinstance(a, DVal) or isinstance(b, DVal):
        x = a.v if isinstance(a, DVal) else float(a)
        y = b.v if isinstance(b, DVal) else float(b)
        scale = max(abs(x), abs(y), 1e-6)
        return abs(x - y) <= 2e-5 * scale + 1e-9
    return approx_eq(a, b)


def _with(seq, k, v):
    """copy of a sequence with entry k replaced (component-wise derivative)"""
    import numpy as np
    if isinstance(seq, np.ndarray):
        out = np.array(seq, dtype=float)
        out[k] = v
        return out
    out = list(seq)
    out[k] = v
    return out if isinstance(seq, list) else type(seq)(out)


def _ne_eq(a, b):
    # the equality test inside `a != b` (a guard, not an asserted equality):
    # not part of the comparison trace
    global _CMP_LOG
    saved, _CMP_LOG = _CMP_LOG, None
    try:
        return clause_eq(a, b)
    finally:
        _CMP_LOG = saved


def eval_clause(text, env, pre_env):
    tree = ast.parse(text.strip(), mode='eval')
    tree = _Rewrite().visit(tree)
    ast.fix_missing_locations(tree)
    g = dict(env)
    g['_eq'] = clause_eq
    g['_ne_eq'] = _ne_eq
    g['_D'] = _D
    g['_with'] = _with

    def _old(src):
        t2 = ast.parse(src, mode='eval')
        t2 = _Rewrite().visit(t2)
        ast.fix_missing_locations(t2)
        g2 = dict(pre_env)
        g2['_eq'] = clause_eq
        g2['_ne_eq'] = _ne_eq
        g2['_with'] = _with
        g2['_D'] = _D
        return eval(compile(t2, '<old>', 'eval'), g2)
    g['_old'] = _old
    r = eval(compile(tree, '<clause>', 'eval'), g)
    import numpy as np
    if isinstance(r, np.ndarray):
        return bool(r.all())
    return bool(r)


_SHEETS = {}


def _cell(path, i, j):
    import pandas as pd
    if path not in _SHEETS:
        _SHEETS[path] = pd.read_excel(path, header=None)
    v = _SHEETS[path].iloc[i + _SHEET_FIRST_ROW.get(path, 2), j]
    return v.strip() if isinstance(v, str) else v


def _ext_call(name, k=-1):
    calls = [c for c in _EXT_CALLS if c[0] == name]
    if not calls:
        raise NotEvaluable('no recorded call of %s on the native side' % name)
    return calls[k][1]


def clause_env(spec_root):
    import numpy as np
    if spec_root not in sys.path:
        sys.path.insert(0, spec_root)
    import spec
    import pmutt.constants as const
    from scipy.integrate import quad as _quad
    import pmutt as pm
    # submodules that clauses reach through `pm.` (pvc resolves them lazily)
    for sub in ('pmutt.cantera', 'pmutt.cantera.units', 'pmutt.cantera.phase', 'pmutt.omkm', 'pmutt.omkm.units', 'pmutt.omkm.phase',
                'pmutt.omkm.reaction', 'pmutt.io.thermdat', 'pmutt.io.json', 'pmutt.io.omkm', 'pmutt.io.cantera', 'pmutt.io.chemkin',
                'pmutt.io.excel', 'pmutt.reaction', 'pmutt.reaction.bep', 'pmutt.reaction.phasediagram', 'pmutt.eos', 'pmutt.mixture',
                'pmutt.mixture.cov', 'pmutt.empirical', 'pmutt.empirical.nasa', 'pmutt.empirical.shomate', 'pmutt.empirical.references',
                'pmutt.statmech', 'pmutt.statmech.vib', 'pmutt.statmech.rot', 'pmutt.statmech.trans', 'pmutt.statmech.elec',
                'pmutt.statmech.nucl', 'pmutt.statmech.lsr', 'pmutt.chemkin', 'pmutt.equilibrium'):
        try:
            importlib.import_module(sub)
        except Exception:
            pass
    _install_recorders()
    env = {'spec': spec, 'const': const, 'pm': pm, 'cell': _cell,
           'ext_call': _ext_call,
           'integral': lambda f, a, b: _quad(f, a, b)[0], 'np': np, 'log': np.log, 'exp': np.exp,
           'sqrt': np.sqrt, 'pi': math.pi,
           'implies': lambda a, b: (not a) or b, 'eq': approx_eq,
           'at': lambda r, i: r[i] if hasattr(r, '__len__') else r,
           'isclose': lambda a, b, tol=1e-9: approx_eq(a, b, tol)}
    return env


_EXT_CALLS = []
_RECORDERS = []


def _install_recorders():
    """record what the code under check hands to external libraries
    (native counterpart of the `ext_call` clause function)"""
    if _RECORDERS:
        return
    _RECORDERS.append(True)
    try:
        import yaml
        real_dump = yaml.dump

        def dump(data=None, stream=None, **kw):
            import copy as _c
            try:
                snap = _c.deepcopy(data)
            except Exception:
                snap = data
            _EXT_CALLS.append(('yaml.dump', dict(kw, data=snap, args=[snap])))
            return real_dump(data, stream, **kw)
        yaml.dump = dump
    except ImportError:
        pass
    try:
        import pmutt.equilibrium._equilibrium as _eq
        real_min = _eq.minimize

        def minimize(fun, x0, args=(), **kw):
            res = real_min(fun, x0, args=args, **kw)
            _EXT_CALLS.append(('minimize', dict(kw, fun=fun, x0=x0, args=args, result=res)))
            return res
        _eq.minimize = minimize
    except Exception:
        pass


def summarize(v, depth=0):
    import numpy as np
    if v is None or isinstance(v, (bool, str)):
        return v
    if isinstance(v, (int, np.integer)):
        return int(v)
    if isinstance(v, (float, np.floating)):
        f = float(v)
        if math.isnan(f) or math.isinf(f):
            return repr(f)
        return f
    if isinstance(v, np.ndarray):
        return summarize(v.tolist(), depth)
    if isinstance(v, (list, tuple)):
        return [summarize(x, depth + 1) for x in v]
    if isinstance(v, dict):
        return {str(k): summarize(x, depth + 1) for k, x in v.items()}
    if depth < 3 and hasattr(v, '__dict__'):
        return {'__class__': type(v).__name__,
                **{k: summarize(x, depth + 1) for k, x in vars(v).items()}}
    return repr(v)


_TMPFILES = []


def _invoke(target, call_args):
    call_args = dict(call_args)
    if 'self' in call_args and ':' in target and '.' in target.split(':')[1]:
        recv = call_args.pop('self')
        meth = target.split(':')[1].split('.')[-1]
        return getattr(recv, meth)(**call_args)
    fn = _import_target(target)
    extra = call_args.pop('__kwargs__', None)
    if extra:
        call_args.update(extra)
    return fn(**call_args)


def run_job(job):
    global RTOL
    out = {}
    RTOL = job.get('rtol', 1e-9)
    _SHARED.clear()
    del _EXT_CALLS[:]
    env = clause_env(job['verif_root'])
    try:
        args = {n: build(job['args'][n]) for n in job['order']}
    except Exception as e:
        return {'error': 'build: %s: %s' % (type(e).__name__, e),
                'trace': traceback.format_exc()}
    for n in job['order']:
        d = args[n]
        if isinstance(d, dict) and d.get('k') == 'written_file':
            import tempfile
            w = _import_target(d['writer'])
            kw = {k: args[v] for k, v in d['args'].items()}
            kw.update(d.get('kwargs', {}))
            text = w(**kw)
            fd, path = tempfile.mkstemp(prefix='pvc_file_', suffix='.txt')
            with os.fdopen(fd, 'w') as fh:
                fh.write(text)
            args[n] = path
            _TMPFILES.append(path)
    if job.get('warm') is not None and not job.get('lemma'):
        # history variant: the function has been called before with other arguments
        try:
            wargs = dict(args)
            wargs.update({n: build(d) for n, d in job['warm'].items()})
            _invoke(job['target'], {k: v for k, v in wargs.items() if k not in job.get('ghosts', [])})
        except Exception:
            pass
        del _EXT_CALLS[:]
    pre = copy.deepcopy(args)
    pre_env = dict(env)
    pre_env.update(pre)
    # requires
    reqs = []
    for r in job.get('requires', []):
        try:
            e0 = dict(env)
            e0.update(args)
            reqs.append(bool(eval_clause(r, e0, pre_env)))
        except Exception as e:
            reqs.append('error: %s: %s' % (type(e).__name__, e))
    out['requires'] = reqs
    target = job['target']
    call_args = {k: v for k, v in args.items()
                 if k not in job.get('ghosts', [])}
    with warnings.catch_warnings(record=True) as wlist:
        warnings.simplefilter('always')
        try:
            if job.get('lemma'):
                result = None
            elif 'self' in call_args and ':' in target and \
                    '.' in target.split(':')[1]:
                recv = call_args.pop('self')
                meth = target.split(':')[1].split('.')[-1]
                if meth == '__init__':
                    # initialise the receiver itself, so that `self` in the
                    # postcondition is the constructed object
                    cls = _import_target(target.rsplit('.', 1)[0])
                    cls.__init__(recv, **call_args)
                    result = None
                else:
                    result = getattr(recv, meth)(**call_args)
            else:
                fn = _import_target(target)
                kw = dict(call_args)
                extra = kw.pop('__kwargs__', None)
                if extra:
                    kw.update(extra)
                result = fn(**kw)
            out['outcome'] = 'return'
        except Exception as e:
            out['outcome'] = 'raise:' + type(e).__name__
            out['exc_msg'] = str(e)[:300]
            result = None
    out['warned'] = len(wlist) > 0
    out['result'] = summarize(result)
    post_env = dict(env)
    post_env.update(args)
    post_env['result'] = result
    post_env['warned'] = out['warned']
    post_env['outcome'] = out['outcome']
    cl = []
    global _CMP_LOG
    traces = []
    for c in job.get('clauses', []):
        if job.get('trace_cmp'):
            _CMP_LOG = []
        try:
            cl.append(bool(eval_clause(c, post_env, pre_env)))
        except NotEvaluable as e:
            cl.append('skip: %s' % str(e)[:120])
        except Exception as e:
            cl.append('error: %s: %s' % (type(e).__name__, str(e)[:200]))
        if job.get('trace_cmp'):
            traces.append(_CMP_LOG)
            _CMP_LOG = None
    out['clauses'] = cl
    if job.get('trace_cmp'):
        out['cmp'] = traces
    if job.get('post_state'):
        out['post_state'] = {n: summarize(args[n]) for n in job['order']}
    return out


def main():
    jobs = json.load(sys.stdin)
    res = []
    for j in jobs:
        try:
            res.append(run_job(j))
        except Exception as e:
            res.append({'error': '%s: %s' % (type(e).__name__, e),
                        'trace': traceback.format_exc()})
    json.dump(res, sys.stdout)
    for p in _TMPFILES:
        try:
            os.remove(p)
        except OSError:
            pass


if __name__ == '__main__':
    main()
