"""Sidecar contract language: argument specs, contracts, lemmas.

A spec knows how to (1) build the symbolic value (registering its leaves),
(2) sample a concrete assignment of its leaves, (3) describe the concrete
value for the native runner.
"""
import math
import z3
from fractions import Fraction
from .values import Sym, NDArr, Obj, Unsupported, mk

REGISTRY = []          # all contracts / lemmas in registration order


class Builder:
    """symbolic construction context for one run"""

    def __init__(self, interp):
        self.interp = interp
        self.ctx = interp.ctx
        self.leaves = {}      # leaf name -> (z3 const, spec)
        self.seq_leaves = {}  # name -> (n const, {key: (idx, elem const)}, spec)
        self.stubs = {}       # arg name -> StubV
        self.assumptions = [] # intrinsic constraints of the specs

    def assume(self, t):
        self.assumptions.append(t)
        self.ctx.pc.append(t)

    def leaf(self, name, sort, spec):
        if sort == 'real':
            c = z3.Real(name)
        elif sort == 'int':
            c = z3.Int(name)
        elif sort == 'bool':
            c = z3.Bool(name)
        elif sort == 'str':
            c = z3.String(name)
        else:
            raise ValueError(sort)
        self.leaves[name] = (c, spec)
        return Sym(c)


class Spec:
    def sym(self, B, name):
        raise NotImplementedError

    def sample(self, rng, name, asg):
        pass

    def desc(self, name, asg):
        raise NotImplementedError

    def leaf_names(self, name):
        return []


def _num(x):
    return float(x)


class Real(Spec):
    """a real number; (lo, hi) is the *sampling* range only (cross-check and
    native search), never an assumption"""

    def __init__(self, lo=-100.0, hi=100.0, log=False):
        self.lo, self.hi, self.log = lo, hi, log

    def sym(self, B, name):
        return B.leaf(name, 'real', self)

    def sample(self, rng, name, asg):
        r = rng.random()
        e = getattr(rng, 'edge', 0.10)
        if r < e / 2:
            v = self.lo
        elif r < e:
            v = self.hi
        elif r < 1.5 * e and e > 0.10 and self.lo <= 0 <= self.hi:
            v = 0.0
        elif self.log and self.lo > 0:
            v = math.exp(rng.uniform(math.log(self.lo), math.log(self.hi)))
        else:
            v = rng.uniform(self.lo, self.hi)
        asg[name] = float('%.6g' % v)
        if not (self.lo <= asg[name] <= self.hi):
            asg[name] = v

    def desc(self, name, asg):
        return {'k': 'real', 'v': asg[name]}

    def leaf_names(self, name):
        return [name]


class Int(Spec):
    def __init__(self, lo=0, hi=10, assume=False):
        self.lo, self.hi = lo, hi
        self.assume = assume

    def sym(self, B, name):
        v = B.leaf(name, 'int', self)
        if self.assume:
            B.assume(v.t >= self.lo)
            B.assume(v.t <= self.hi)
        return v

    def sample(self, rng, name, asg):
        asg[name] = rng.randint(self.lo, self.hi)

    def desc(self, name, asg):
        return {'k': 'int', 'v': asg[name]}

    def leaf_names(self, name):
        return [name]


class Bool(Spec):
    def sym(self, B, name):
        return B.leaf(name, 'bool', self)

    def sample(self, rng, name, asg):
        asg[name] = rng.random() < 0.5

    def desc(self, name, asg):
        return {'k': 'bool', 'v': bool(asg[name])}

    def leaf_names(self, name):
        return [name]


class Const(Spec):
    """a concrete python value (str, None, bool, int, float, list/dict of
    those)"""

    def __init__(self, v):
        self.v = v

    def sym(self, B, name):
        return _to_sym_const(self.v)

    def desc(self, name, asg):
        if self.v is None:
            return {'k': 'none'}
        return {'k': 'const', 'v': self.v}


def _to_sym_const(v):
    from .values import to_frac
    if isinstance(v, float):
        return to_frac(v)
    if isinstance(v, list):
        return [_to_sym_const(x) for x in v]
    if isinstance(v, tuple):
        return tuple(_to_sym_const(x) for x in v)
    if isinstance(v, dict):
        return {k: _to_sym_const(x) for k, x in v.items()}
    return v


class NpConst(Spec):
    """a concrete numpy array"""

    def __init__(self, values):
        self.values = values

    def sym(self, B, name):
        return NDArr(_to_sym_const(list(self.values)))

    def desc(self, name, asg):
        return {'k': 'ndarray', 'v': list(self.values)}


class RealVec(Spec):
    """numpy array of n reals"""

    def __init__(self, n, lo=-100.0, hi=100.0, log=False):
        self.n = n
        self.el = Real(lo, hi, log)

    def _names(self, name):
        return ['%s[%d]' % (name, i) for i in range(self.n)]

    def sym(self, B, name):
        return NDArr([self.el.sym(B, nm) for nm in self._names(name)])

    def sample(self, rng, name, asg):
        for nm in self._names(name):
            self.el.sample(rng, nm, asg)

    def desc(self, name, asg):
        return {'k': 'ndarray', 'v': [asg[nm] for nm in self._names(name)]}

    def leaf_names(self, name):
        return self._names(name)


class RealList(RealVec):
    """python list of n reals"""

    def sym(self, B, name):
        return [self.el.sym(B, nm) for nm in self._names(name)]

    def desc(self, name, asg):
        return {'k': 'list', 'v': [{'k': 'real', 'v': asg[nm]}
                                   for nm in self._names(name)]}


class RealSeq(Spec):
    """numpy array of *symbolic length* n >= min_len whose elements are reals
    (all indices share the element facts given by `elem_pos`).  Natively a
    random length in [min_len, max_len] is sampled."""

    def __init__(self, lo=-100., hi=100., min_len=1, max_len=5, positive=False,
                 log=False, as_list=False):
        self.el = Real(lo, hi, log)
        self.min_len, self.max_len = min_len, max_len
        self.positive = positive
        self.as_list = as_list

    def sym(self, B, name):
        from .values import GenArr
        n = z3.Int(name + '.len')
        B.assume(n >= self.min_len)
        consts = {}

        def elem(i, name=name, consts=consts):
            if isinstance(i, int):
                i = z3.IntVal(i)
            key = z3.simplify(i).sexpr()
            if key not in consts:
                c = z3.Real('%s[%s]' % (name, key))
                consts[key] = (i, c)
                if self.positive:
                    # persistent fact (must survive temporary assumptions)
                    B.ctx.atoms.facts.append(c > 0)
            return Sym(consts[key][1])
        B.seq_leaves[name] = (n, consts, self)
        return GenArr(n, elem, tag=name)

    def sample(self, rng, name, asg):
        L = rng.randint(self.min_len, self.max_len)
        vals = []
        for k in range(L):
            tmp = {}
            self.el.sample(rng, 'x', tmp)
            vals.append(tmp['x'])
        asg[name] = vals

    def desc(self, name, asg):
        if self.as_list:
            return {'k': 'list', 'v': [{'k': 'real', 'v': v}
                                       for v in asg[name]]}
        return {'k': 'ndarray', 'v': list(asg[name])}

    def leaf_names(self, name):
        return [name]


class RealMat(Spec):
    def __init__(self, n, m, lo=-100.0, hi=100.0):
        self.n, self.m = n, m
        self.el = Real(lo, hi)

    def _nm(self, name, i, j):
        return '%s[%d][%d]' % (name, i, j)

    def sym(self, B, name):
        return NDArr([[self.el.sym(B, self._nm(name, i, j))
                       for j in range(self.m)] for i in range(self.n)])

    def sample(self, rng, name, asg):
        for i in range(self.n):
            for j in range(self.m):
                self.el.sample(rng, self._nm(name, i, j), asg)

    def desc(self, name, asg):
        return {'k': 'ndarray', 'v': [[asg[self._nm(name, i, j)]
                                       for j in range(self.m)]
                                      for i in range(self.n)]}

    def leaf_names(self, name):
        return [self._nm(name, i, j) for i in range(self.n)
                for j in range(self.m)]


class ListOf(Spec):
    def __init__(self, items, as_tuple=False):
        self.items = list(items)
        self.as_tuple = as_tuple

    def _nm(self, name, i):
        return '%s[%d]' % (name, i)

    def sym(self, B, name):
        out = [s.sym(B, self._nm(name, i)) for i, s in enumerate(self.items)]
        return tuple(out) if self.as_tuple else out

    def sample(self, rng, name, asg):
        for i, s in enumerate(self.items):
            s.sample(rng, self._nm(name, i), asg)

    def desc(self, name, asg):
        return {'k': 'tuple' if self.as_tuple else 'list',
                'v': [s.desc(self._nm(name, i), asg)
                      for i, s in enumerate(self.items)]}

    def leaf_names(self, name):
        out = []
        for i, s in enumerate(self.items):
            out.extend(s.leaf_names(self._nm(name, i)))
        return out


class DictOf(Spec):
    def __init__(self, items):
        self.items = dict(items)

    def _nm(self, name, k):
        return '%s[%r]' % (name, k)

    def sym(self, B, name):
        return {k: s.sym(B, self._nm(name, k)) for k, s in self.items.items()}

    def sample(self, rng, name, asg):
        for k, s in self.items.items():
            s.sample(rng, self._nm(name, k), asg)

    def desc(self, name, asg):
        return {'k': 'dict', 'v': [[k, s.desc(self._nm(name, k), asg)]
                                   for k, s in self.items.items()]}

    def leaf_names(self, name):
        out = []
        for k, s in self.items.items():
            out.extend(s.leaf_names(self._nm(name, k)))
        return out


class New(Spec):
    """object built by the class's real constructor (symbolically: the
    constructor's AST is executed; natively: it is called)"""

    def __init__(self, cls, _via=None, _post=None, **kwargs):
        self.cls = cls
        self.kwargs = kwargs
        self.via = _via
        self.post = _post or {}

    def _nm(self, name, k):
        return '%s.%s' % (name, k)

    def sym(self, B, name):
        cls = B.interp.resolve(self.cls)
        kw = {k: s.sym(B, self._nm(name, k)) for k, s in self.kwargs.items()}
        if self.via:
            o = B.interp.call(B.interp.getattr(cls, self.via), [], kw)
        else:
            o = B.interp.call(cls, [], kw)
        for k, s in self.post.items():
            B.interp.setattr(o, k, s.sym(B, self._nm(name, k)))
        return o

    def sample(self, rng, name, asg):
        for k, s in list(self.kwargs.items()) + list(self.post.items()):
            s.sample(rng, self._nm(name, k), asg)

    def desc(self, name, asg):
        d = {'k': 'new', 'cls': self.cls,
             'kwargs': {k: s.desc(self._nm(name, k), asg)
                        for k, s in self.kwargs.items()}}
        if self.via:
            d['via'] = self.via
        if self.post:
            d['post'] = {k: s.desc(self._nm(name, k), asg)
                         for k, s in self.post.items()}
        return d

    def leaf_names(self, name):
        out = []
        for k, s in list(self.kwargs.items()) + list(self.post.items()):
            out.extend(s.leaf_names(self._nm(name, k)))
        return out


class Fields(Spec):
    """object of a class with the given fields set directly (no constructor)"""

    def __init__(self, cls, **fields):
        self.cls = cls
        self.fields = fields

    def _nm(self, name, k):
        return '%s.%s' % (name, k)

    def sym(self, B, name):
        cls = B.interp.resolve(self.cls)
        o = Obj(cls)
        for k, s in self.fields.items():
            o.fields[k] = s.sym(B, self._nm(name, k))
        return o

    def sample(self, rng, name, asg):
        for k, s in self.fields.items():
            s.sample(rng, self._nm(name, k), asg)

    def desc(self, name, asg):
        return {'k': 'fields', 'cls': self.cls,
                'fields': {k: s.desc(self._nm(name, k), asg)
                           for k, s in self.fields.items()}}

    def leaf_names(self, name):
        out = []
        for k, s in self.fields.items():
            out.extend(s.leaf_names(self._nm(name, k)))
        return out


class Shared(Spec):
    """one object referenced from several places of the input (e.g. the
    catalyst site shared by all adsorbates): built once per run under the
    canonical name '$<key>'"""

    def __init__(self, key, spec):
        self.key = key
        self.spec = spec

    def _nm(self):
        return '$' + self.key

    def sym(self, B, name):
        cache = B.__dict__.setdefault('shared', {})
        if self.key not in cache:
            cache[self.key] = self.spec.sym(B, self._nm())
        return cache[self.key]

    def sample(self, rng, name, asg):
        if ('$shared:' + self.key) not in asg:
            asg['$shared:' + self.key] = True
            self.spec.sample(rng, self._nm(), asg)

    def desc(self, name, asg):
        return {'k': 'shared', 'key': self.key,
                'd': self.spec.desc(self._nm(), asg)}

    def leaf_names(self, name):
        return self.spec.leaf_names(self._nm())


class StubV:
    """abstract callee: an object whose listed getters are *pure functions of
    their keyword arguments* and otherwise unknown.  Symbolically every
    distinct (method, arguments) pair yields one fresh real constant."""

    def __init__(self, name, attrs, methods, positive, B, ignores=()):
        self.name = name
        self.attrs = attrs
        self.methods = methods
        self.positive = positive
        self.B = B
        self.ignores = tuple(ignores)
        self.memo = {}        # key -> (method, kwargs values, const)
        self.calls = []

    def sym_getattr(self, attr, interp):
        from .values import Builtin, raise_
        if attr in self.attrs:
            return self.attrs[attr]
        if attr in self.methods:
            b = Builtin('%s.%s' % (self.name, attr),
                        lambda *a, **kw: self._call(interp, attr, a, kw))
            b.stub = True
            return b
        raise_('AttributeError', "'%s' object has no attribute '%s'"
               % (self.name, attr))

    def sym_kwargs_allowed(self):
        return True

    def _call(self, interp, method, args, kw):
        from .values import raise_
        if args:
            raise_('TypeError', 'stub getters take keyword arguments only')
        # keywords the modelled callee is assumed to swallow unread
        kw = {k: v for k, v in kw.items() if k not in self.ignores}
        key = method + '(' + ','.join('%s=%s' % (k, _vkey(kw[k]))
                                      for k in sorted(kw)) + ')'
        self.calls.append((method, dict(kw)))
        if key not in self.memo:
            c = z3.Real('%s.%s' % (self.name, key))
            self.memo[key] = (method, dict(kw), c)
            if method in self.positive:
                interp.ctx.atoms.facts.append(c > 0)
        return Sym(self.memo[key][2])


def _vkey(v):
    if isinstance(v, Sym):
        return z3.simplify(v.t).sexpr()
    if isinstance(v, dict):
        return '{' + ','.join('%s:%s' % (k, _vkey(x)) for k, x in
                              sorted(v.items(), key=lambda kv: str(kv[0]))) + '}'
    if isinstance(v, (list, tuple)):
        return '[' + ','.join(_vkey(x) for x in v) + ']'
    if isinstance(v, Obj):
        return 'obj%d' % v.oid
    if isinstance(v, StubV):
        return 'stub:' + v.name
    return repr(v)


class Stub(Spec):
    """abstract species / model (see StubV).  Natively an object whose
    getters return base[method] + sum_k coef[k] * numeric(kwargs[k]), or the
    value of a table entry taken from a solver model on replay."""
    KW = ('T', 'P', 'x', 'V', 'n', 'include_ZPE', 'S_elements', 'verbose',
          'use_references', 'raise_error', 'raise_warning', 'units', 'rev',
          'ignore_q_elec')

    def __init__(self, stub_name, methods, positive=('get_q',), ignores=(),
                 **attrs):
        self.name = stub_name
        self.methods = list(methods)
        self.positive = tuple(positive)
        self.ignores = tuple(ignores)
        self.attrs = dict(attrs)
        self.attrs.setdefault('name', stub_name)

    def sym(self, B, name):
        attrs = {k: (v.sym(B, '%s.%s' % (name, k)) if isinstance(v, Spec)
                     else _to_sym_const(v)) for k, v in self.attrs.items()}
        st = StubV(self.name, attrs, self.methods, self.positive, B,
                   self.ignores)
        B.stubs[name] = st
        return st

    def sample(self, rng, name, asg):
        for k, v in self.attrs.items():
            if isinstance(v, Spec):
                v.sample(rng, '%s.%s' % (name, k), asg)
        for m in self.methods:
            asg['%s.%s.base' % (name, m)] = round(rng.uniform(0.5, 3.0), 4)
            for k in self.KW:
                asg['%s.%s.coef.%s' % (name, m, k)] = round(
                    rng.uniform(0.01, 0.3), 4)

    def desc(self, name, asg):
        methods = {}
        for m in self.methods:
            methods[m] = {
                'base': asg.get('%s.%s.base' % (name, m), 1.0),
                'coef': {k: asg.get('%s.%s.coef.%s' % (name, m, k), 0.1)
                         for k in self.KW}}
        return {'k': 'stub', 'attrs': {
                    k: (v.desc('%s.%s' % (name, k), asg) if isinstance(v, Spec)
                        else ({'k': 'none'} if v is None else
                              {'k': 'const', 'v': v}))
                    for k, v in self.attrs.items()},
                'methods': methods, 'ignores': list(self.ignores),
                'table': asg.get(name + '.__table__', [])}

    def leaf_names(self, name):
        out = []
        for k, v in self.attrs.items():
            if isinstance(v, Spec):
                out.extend(v.leaf_names('%s.%s' % (name, k)))
        return out


class IdText(Spec):
    """an identifier  prefix + IntText(n, width):  the decimal text of a
    symbolic integer 0 <= n < 10**width, zero padded to `width` characters"""

    def __init__(self, prefix, width, lo=0, hi=None):
        self.prefix = prefix
        self.width = width
        self.lo = lo
        self.hi = (10 ** width - 1) if hi is None else hi

    def sym(self, B, name):
        from .sstr import SStr, IntText, simplify
        n = B.leaf(name + '.n', 'int', Int(self.lo, self.hi))
        B.assume(n.t >= 0)
        B.assume(n.t < 10 ** self.width)
        return simplify(SStr([self.prefix, IntText(n, self.width)]))

    def sample(self, rng, name, asg):
        asg[name + '.n'] = rng.randint(self.lo, self.hi)

    def desc(self, name, asg):
        return {'k': 'const',
                'v': self.prefix + ('%0*d' % (self.width, int(asg[name + '.n'])))}

    def leaf_names(self, name):
        return [name + '.n']


class Token(Spec):
    """an unknown separator-free word of symbolic length in [lo, hi]"""

    def __init__(self, lo=1, hi=30, alphabet=None, excl=None,
                 first_nondigit=False, may_contain=()):
        self.lo, self.hi = lo, hi
        self.alphabet = alphabet
        self.excl = excl
        self.first_nondigit = first_nondigit
        self.may_contain = tuple(may_contain)

    def sym(self, B, name):
        from .sstr import SStr, Tok
        if self.lo == self.hi:
            n = self.lo
        else:
            n = B.leaf(name + '.len', 'int', Int(self.lo, self.hi))
            B.assume(n.t >= self.lo)
            B.assume(n.t <= self.hi)
        flags = None
        if self.may_contain:
            leaves = {}
            for nd in self.may_contain:
                if len(nd) <= self.hi:
                    leaves[nd] = B.leaf('%s.has.%s' % (name, nd), 'bool', Bool())

            def flags(needle, leaves=leaves):
                if needle in leaves:
                    return leaves[needle]
                # any other needle: unknown content
                raise Unsupported('content of an unknown word (%r)' % needle)
        return SStr([Tok(name, n, self.excl, self.first_nondigit, flags)])

    def sample(self, rng, name, asg):
        if self.lo != self.hi:
            asg[name + '.len'] = rng.randint(self.lo, self.hi)
        for nd in self.may_contain:
            if len(nd) <= self.hi:
                asg['%s.has.%s' % (name, nd)] = rng.random() < 0.15

    def desc(self, name, asg):
        import hashlib
        L = int(asg.get(name + '.len', self.lo))
        alphabet = self.alphabet or ('abcdefghijklmnopqrstuvwxyzABCDEFGHIJKLMNOP'
                                     'QRSTUVWXYZ0123456789_()*-+=.')
        letters = [ch for ch in alphabet if ch.isalpha()] or list(alphabet)
        dig = hashlib.sha256(name.encode()).digest()
        while len(dig) < L + 1:
            dig += hashlib.sha256(dig).digest()
        chars = []
        for k in range(L):
            pool = letters if (k == 0 and self.first_nondigit) else alphabet
            chars.append(pool[dig[k] % len(pool)])
        txt = ''.join(chars)
        # content flags: embed / avoid the listed needles
        for nd in self.may_contain:
            if len(nd) > L:
                continue
            if asg.get('%s.has.%s' % (name, nd)):
                k = dig[-1] % (L - len(nd) + 1)
                txt = txt[:k] + nd + txt[k + len(nd):]
        for nd in self.may_contain:
            if not asg.get('%s.has.%s' % (name, nd)) and nd in txt:
                txt = txt.replace(nd[0], 'q' if nd[0] != 'q' else 'z')
        return {'k': 'const', 'v': txt}

    def leaf_names(self, name):
        return [name + '.len']


class WrittenFile(Spec):
    """a text file whose contents are produced by a real writer function
    from the other (symbolic) arguments of the contract: symbolically the
    writer's AST is executed and its text becomes the file; natively the
    writer is called and the text written to a temporary file."""

    computed = True

    def __init__(self, writer, arg_names, **const_kwargs):
        self.writer = writer
        self.arg_names = arg_names          # {writer kwarg: contract arg name}
        self.const_kwargs = const_kwargs

    def sym(self, B, name):
        from .models import FileV
        it = B.interp
        w = it.resolve(self.writer)
        kw = {k: B.built[v] for k, v in self.arg_names.items()}
        kw.update({k: _to_sym_const(v) for k, v in self.const_kwargs.items()})
        text = it.call(w, [], kw)
        return FileV(text)

    def desc(self, name, asg):
        return {'k': 'written_file', 'writer': self.writer,
                'args': dict(self.arg_names), 'kwargs': dict(self.const_kwargs)}


class Table(Spec):
    """a worksheet: header strings and rows of cell specs (None = empty
    cell).  Symbolically the DataFrame pandas would return (assumed contract);
    natively a real .xlsx file (header row, one skipped comment row, data)."""

    def __init__(self, headers, rows, comment_row=True):
        self.headers = list(headers)
        self.rows = rows
        self.comment_row = comment_row

    def _nm(self, name, i, j):
        return '%s.r%d.c%d' % (name, i, j)

    def sym(self, B, name):
        from .models import DataFrameV, NULL
        rows = []
        for i, r in enumerate(self.rows):
            cells = []
            for j, c in enumerate(r):
                cells.append(NULL if c is None else c.sym(B, self._nm(name, i, j)))
            rows.append(cells)
        df = DataFrameV(self.headers, rows)
        df.comment_row = self.comment_row
        return df

    def sample(self, rng, name, asg):
        for i, r in enumerate(self.rows):
            for j, c in enumerate(r):
                if c is not None:
                    c.sample(rng, self._nm(name, i, j), asg)

    def desc(self, name, asg):
        return {'k': 'excel_table', 'headers': self.headers,
                'comment_row': self.comment_row,
                'rows': [[None if c is None else c.desc(self._nm(name, i, j), asg)
                          for j, c in enumerate(r)] for i, r in enumerate(self.rows)]}

    def leaf_names(self, name):
        out = []
        for i, r in enumerate(self.rows):
            for j, c in enumerate(r):
                if c is not None:
                    out.extend(c.leaf_names(self._nm(name, i, j)))
        return out


class ClassRef(Spec):
    def __init__(self, cls):
        self.cls = cls

    def sym(self, B, name):
        return B.interp.resolve(self.cls)

    def desc(self, name, asg):
        return {'k': 'cls', 'v': self.cls}


# ------------------------------------------------------------------ contracts

class Contract:
    kind = 'contract'

    def __init__(self, target, prop, args, requires=(), ensures=(),
                 raises=None, warns=None, shapes=None, shapes_thorough=None,
                 label=None,
                 may_raise=(), returns=None, modular=False, note=None,
                 cross_check=True, frame=None, ghost=None, tier='quick',
                 options=None, native_only=False):
        self.target = target
        self.prop = prop
        self.args = args              # dict or callable(**shape) -> dict
        self.requires = list(requires)
        self.ensures = [_lab(e, i) for i, e in enumerate(ensures)]
        self.raises = dict(raises or {})
        self.warns = warns
        self.shapes = shapes or {}
        self.shapes_thorough = shapes_thorough
        self.label = label
        self.may_raise = tuple(may_raise)
        self.returns = returns
        self.modular = modular
        self.note = note
        self.cross_check = cross_check
        self.frame = frame
        self.ghost = ghost or {}
        self.tier = tier
        self.options = options or {}
        # declared bounded: the clauses are only run natively on samples
        # (sizes beyond the symbolic budget); never counted as proved
        self.native_only = native_only

    @property
    def name(self):
        return self.target + ((':' + self.label) if self.label else '')


class Lemma:
    kind = 'lemma'

    def __init__(self, name, prop, forall, given=(), prove=(), shapes=None,
                 shapes_thorough=None, note=None, native_only=False):
        self.name = name
        self.prop = prop
        self.forall = forall
        self.given = list(given)
        self.prove = [_lab(e, i) for i, e in enumerate(
            prove if isinstance(prove, (list, tuple)) else [prove])]
        self.shapes = shapes or {}
        self.shapes_thorough = shapes_thorough
        self.note = note
        self.native_only = native_only


def _lab(e, i):
    if isinstance(e, tuple):
        return e
    return ('post#%d' % i, e)


def contract(target, prop, **kw):
    c = Contract(target, prop, **kw)
    REGISTRY.append(c)
    return c


def lemma(name, prop, **kw):
    l = Lemma(name, prop, **kw)
    REGISTRY.append(l)
    return l
