"""Path context: decisions, path condition, transcendental atoms, events.

Path enumeration is by re-execution: `branch(cond)` follows the decision
prefix of the current run and, past it, takes True first and schedules the
False alternative (if feasible) for a later run.
"""
import time
import z3
from fractions import Fraction
from .values import (Sym, Unsupported, mk, z3real, frac_to_z3)

SOLVER_TIMEOUT_MS = 20000
FEAS_TIMEOUT_MS = 3000


class PathAbort(Exception):
    """Current path is infeasible / pruned."""


class Stats:
    def __init__(self):
        self.solver_calls = 0
        self.solver_s = 0.0
        self.by_backend = {}

    def add(self, backend, dt):
        self.solver_calls += 1
        self.solver_s += dt
        d = self.by_backend.setdefault(backend, {'queries': 0, 'seconds': 0.0})
        d['queries'] += 1
        d['seconds'] += dt


STATS = Stats()


def _run(solver, constraints, timeout_ms, want_model):
    solver.set('timeout', int(timeout_ms))
    for c in constraints:
        solver.add(c)
    # z3's own 'timeout' is not honoured inside some nonlinear stages (seen:
    # minutes in Z3_solver_check with timeout=20000); a watchdog interrupts
    # the context so that the query comes back `unknown`.
    import threading
    wd = threading.Timer(timeout_ms / 1000.0 * 1.5 + 2.0, solver.ctx.interrupt)
    wd.daemon = True
    wd.start()
    try:
        r = solver.check()
    except z3.Z3Exception:
        return 'unknown', None
    finally:
        wd.cancel()
    model = solver.model() if (r == z3.sat and want_model) else None
    return str(r), model


EXTERNAL = [('z3-4.8.12-cli', ['/usr/bin/z3', '-smt2']),
            ('cvc5-1.0.3-cli', ['/usr/bin/cvc5', '--lang=smt2'])]


def _external(constraints, timeout_ms):
    """Second opinion for queries the in-process z3 5.1 leaves open after its
    short budget: the two installed CLI solvers on the SMT-LIB dump of the
    same query, concurrently.  Only `unsat` / `sat` answers are used; parse
    errors, timeouts and crashes are `unknown`.  Returns (result, backend)."""
    import os, subprocess, tempfile
    try:
        s = z3.Solver()
        for c in constraints:
            s.add(c)
        text = s.to_smt2()
    except z3.Z3Exception:
        return 'unknown', None
    fd, path = tempfile.mkstemp(prefix='pvcq_', suffix='.smt2')
    procs = []
    try:
        with os.fdopen(fd, 'w') as f:
            f.write('(set-logic ALL)\n' + text)
        secs = max(1, int(timeout_ms / 1000))
        for name, cmd in EXTERNAL:
            if not os.path.exists(cmd[0]):
                continue
            extra = ['-T:%d' % secs] if 'z3' in name else ['--tlimit=%d' % (secs * 1000)]
            try:
                procs.append((name, subprocess.Popen(
                    cmd + extra + [path], stdout=subprocess.PIPE,
                    stderr=subprocess.DEVNULL, text=True)))
            except OSError:
                pass
        t_end = time.time() + secs + 2
        pending = list(procs)
        while pending and time.time() < t_end:
            for name, pr in list(pending):
                if pr.poll() is not None:
                    pending.remove((name, pr))
                    out = (pr.stdout.read() or '').strip().splitlines()
                    ans = out[0].strip() if out else ''
                    if ans in ('unsat', 'sat'):
                        return ans, name
            time.sleep(0.05)
        return 'unknown', None
    finally:
        for _n, pr in procs:
            if pr.poll() is None:
                pr.kill()
            try:
                pr.wait(timeout=5)
            except Exception:
                pass
        try:
            os.unlink(path)
        except OSError:
            pass


def check_sat(constraints, timeout_ms=SOLVER_TIMEOUT_MS, want_model=False,
              backend='z3'):
    """Returns ('unsat'|'sat'|'unknown', model or None).  Portfolio: in-process
    z3 (default solver) with a short budget; then the installed CLI solvers
    (z3 4.8.12, cvc5) on the SMT-LIB dump, whose `unsat` is final (and whose
    `sat` is final when no model is wanted); then the nlsat tactic (nonlinear
    real arithmetic); then the default solver with the full budget."""
    t0 = time.time()
    first = min(timeout_ms, 1500)
    res, model = _run(z3.Solver(), constraints, first, want_model)
    if res == 'unknown' and timeout_ms > first:
        r2, who = _external(constraints, min(timeout_ms, 10000))
        if r2 == 'unsat' or (r2 == 'sat' and not want_model):
            STATS.add(who, time.time() - t0)
            return r2, None
    if res == 'unknown':
        try:
            t = z3.Then('simplify', 'purify-arith', 'qfnra-nlsat')
            res, model = _run(t.solver(), constraints, timeout_ms, want_model)
        except z3.Z3Exception:
            res = 'unknown'
    if res == 'unknown' and timeout_ms > first:
        res, model = _run(z3.Solver(), constraints, timeout_ms, want_model)
    STATS.add(backend, time.time() - t0)
    return res, model


class Atoms:
    """Transcendental atoms.  Each atom is a fresh Real constant standing for
    f(arg); `facts` are exact consequences (sign, algebraic relations between
    atoms whose arguments are rational multiples of one another)."""

    def __init__(self):
        self.table = {}      # (kind, key) -> z3 const
        self.info = {}       # const name -> (kind, arg term)
        self.facts = []
        self.n = 0

    def _fresh(self, kind, arg):
        self.n += 1
        v = z3.Real('%s!%d' % (kind, self.n))
        self.info[str(v)] = (kind, arg)
        return v

    def get(self, kind, arg, ctx=None):
        arg = z3.simplify(arg)
        key = (kind, arg.sexpr())
        if key in self.table:
            return self.table[key]
        v = self._fresh(kind, arg)
        # congruence with every earlier atom of the same function
        for (k2, _k), w in list(self.table.items()):
            if k2 == kind and k2 in ('exp', 'log', 'sqrt'):
                self.facts.append(z3.Implies(arg == self.info[str(w)][1],
                                             v == w))
        self.table[key] = v
        if kind == 'exp':
            # exact facts about the real exponential
            self.facts.append(v > 0)
            self.facts.append(z3.Implies(arg > 0, v > 1))
            self.facts.append(z3.Implies(arg < 0, v < 1))
            self.facts.append(z3.Implies(arg == 0, v == 1))
            self._relate_exp(v, arg, ctx)
            self._relate_exp_sum(v, arg, ctx)
        elif kind == 'log':
            for (u, acc) in getattr(self, 'log_numerals', {}).values():
                if not z3.is_rational_value(arg):
                    self.facts.append(z3.Implies(arg == u, v == acc))
            self._relate_congruent(v, kind, arg, ctx)
            self.facts.append(z3.Implies(arg > 1, v > 0))
            self.facts.append(z3.Implies(z3.And(arg > 0, arg < 1), v < 0))
            self.facts.append(z3.Implies(arg == 1, v == 0))
        elif kind == 'sqrt':
            self.facts.append(v >= 0)
            self.facts.append(v * v == arg)
            self.facts.append(z3.Implies(arg > 0, v > 0))
        return v

    def _relate_exp_sum(self, v, arg, ctx):
        """exp(a + b) = exp(a) exp(b) between existing atoms (numeric probing,
        then solver confirmation)"""
        from . import terms
        import random
        exps = [(w, self.info[str(w)][1]) for (k, _), w in self.table.items()
                if k == 'exp']
        if len(exps) < 3 or len(exps) > 12:
            return
        pc = list(ctx.pc) if ctx is not None else []
        rnd = random.Random(777)
        cs = set()
        for w, a in exps:
            cs |= self._deep_consts(a)
        vals = []
        try:
            for _ in range(2):
                env = {c: rnd.uniform(0.5, 2.0) for c in cs}
                vals.append([terms.numeval(a, env, self) for _, a in exps])
        except terms.NumEvalError:
            return
        n = len(exps)
        new = n - 1 if exps[-1][0] is v else [i for i, e in enumerate(exps)
                                               if e[0] is v][0]
        for i in range(n):
            for j in range(i, n):
                for k in range(n):
                    if k in (i, j) or new not in (i, j, k):
                        continue
                    if all(abs(vv[i] + vv[j] - vv[k]) < 1e-9 * max(
                            1.0, abs(vv[k])) for vv in vals):
                        r, _ = check_sat(pc + [exps[i][1] + exps[j][1] !=
                                               exps[k][1]], timeout_ms=2000)
                        if r == 'unsat':
                            self.facts.append(
                                exps[i][0] * exps[j][0] == exps[k][0])

    def _deep_consts(self, t):
        """free non-atom constants of t, looking through atom arguments"""
        out = set()
        todo = [t]
        seen = set()
        while todo:
            x = todo.pop()
            for c in _free_consts(x):
                if c in seen:
                    continue
                seen.add(c)
                inf = self.info.get(c)
                if inf is None:
                    out.add(c)
                elif inf[1] is not None:
                    todo.append(inf[1])
        return out

    def _relate_congruent(self, v, kind, arg, ctx):
        """f(a) == f(b) when a == b is provable (congruence between atoms
        whose arguments are equal but syntactically different)"""
        from . import terms
        import random
        pc = list(ctx.pc) if ctx is not None else []
        rnd = random.Random(4321)
        consts = self._deep_consts(arg)
        for (k2, _k), w in list(self.table.items()):
            if k2 != kind or w is v:
                continue
            warg = self.info[str(w)][1]
            cs = consts | self._deep_consts(warg)
            same = True
            try:
                for _ in range(2):
                    env = {c: rnd.uniform(0.5, 2.0) for c in cs}
                    a = terms.numeval(arg, env, self)
                    b = terms.numeval(warg, env, self)
                    if abs(a - b) > 1e-9 * max(1.0, abs(a)):
                        same = False
                        break
            except terms.NumEvalError:
                continue
            if not same:
                continue
            r, _ = check_sat(pc + self.facts + [arg != warg], timeout_ms=2000)
            if r == 'unsat':
                self.facts.append(v == w)
                return

    _QS = [Fraction(1), Fraction(-1), Fraction(2), Fraction(-2),
           Fraction(1, 2), Fraction(-1, 2), Fraction(3), Fraction(-3),
           Fraction(1, 3), Fraction(-1, 3), Fraction(3, 2), Fraction(-3, 2),
           Fraction(4), Fraction(-4), Fraction(1, 4), Fraction(-1, 4)]

    def _relate_exp(self, v, arg, ctx):
        """exp(arg) = exp(warg)^q for an earlier atom whose argument is a
        rational multiple: candidate q found by numeric probing, confirmed
        by the solver under the path condition"""
        from . import terms
        import random
        pc = list(ctx.pc) if ctx is not None else []
        rnd = random.Random(12345)
        consts = self._deep_consts(arg)
        for (kind, _k), w in list(self.table.items()):
            if kind != 'exp' or w is v:
                continue
            warg = self.info[str(w)][1]
            cs = consts | self._deep_consts(warg)
            ratios = []
            try:
                for _ in range(2):
                    env = {c: rnd.uniform(0.5, 2.0) for c in cs}
                    a = terms.numeval(arg, env, self)
                    b = terms.numeval(warg, env, self)
                    if abs(b) < 1e-12:
                        raise terms.NumEvalError('zero')
                    ratios.append(a / b)
            except terms.NumEvalError:
                continue
            if abs(ratios[0] - ratios[1]) > 1e-9 * max(1, abs(ratios[0])):
                continue
            q = None
            for cand in self._QS:
                if abs(float(cand) - ratios[0]) < 1e-9:
                    q = cand
            if q is None:
                continue
            r, _ = check_sat(pc + [arg != frac_to_z3(q) * warg],
                             timeout_ms=2000)
            if r == 'unsat':
                # v == w ** q  with v, w > 0
                p, d = q.numerator, q.denominator
                lhs = _ipow(v, d)
                if p >= 0:
                    self.facts.append(lhs == _ipow(w, p))
                else:
                    self.facts.append(lhs * _ipow(w, -p) == 1)
                return


def _free_consts(t):
    out = set()
    seen = set()
    stack = [t]
    while stack:
        x = stack.pop()
        if x.get_id() in seen:
            continue
        seen.add(x.get_id())
        if z3.is_app(x):
            if x.num_args() == 0 and x.decl().kind() == z3.Z3_OP_UNINTERPRETED:
                out.add(str(x))
            stack.extend(x.children())
    return out


_FACTOR_CACHE = {}


def _is_prime(n):
    if n < 2:
        return False
    for p in (2, 3, 5, 7, 11, 13, 17, 19, 23, 29, 31, 37):
        if n % p == 0:
            return n == p
    d, r = n - 1, 0
    while d % 2 == 0:
        d //= 2
        r += 1
    for a in (2, 3, 5, 7, 11, 13, 17, 19, 23, 29, 31, 37):
        x = pow(a, d, n)
        if x in (1, n - 1):
            continue
        for _ in range(r - 1):
            x = x * x % n
            if x == n - 1:
                break
        else:
            return False
    return True


def _rho(n, limit=3000000):
    """Pollard rho (Brent); returns a non-trivial factor or None"""
    import math
    if n % 2 == 0:
        return 2
    for c in (1, 3, 5, 7, 11):
        y, m, g, r, q = 2, 128, 1, 1, 1
        it = 0
        while g == 1 and it < limit:
            x = y
            for _ in range(r):
                y = (y * y + c) % n
            k = 0
            while k < r and g == 1:
                ys = y
                for _ in range(min(m, r - k)):
                    y = (y * y + c) % n
                    q = q * abs(x - y) % n
                    it += 1
                g = math.gcd(q, n)
                k += m
            r *= 2
        if g == n:
            g = 1
            while g == 1:
                ys = (ys * ys + c) % n
                g = math.gcd(abs(x - ys), n)
        if 1 < g < n:
            return g
    return None


def _small_factors(n):
    """[(prime, multiplicity)]: full factorisation (trial division, then
    Pollard rho); an unfactored cofactor, if any, is returned as one factor"""
    if n in _FACTOR_CACHE:
        return _FACTOR_CACHE[n]
    n0 = n
    out = {}
    p = 2
    while p * p <= n and p < 20000:
        while n % p == 0:
            n //= p
            out[p] = out.get(p, 0) + 1
        p += 1 if p == 2 else 2
    stack = [n] if n > 1 else []
    while stack:
        m = stack.pop()
        if m == 1:
            continue
        if _is_prime(m):
            out[m] = out.get(m, 0) + 1
            continue
        f = _rho(m)
        if f is None:
            out[m] = out.get(m, 0) + 1
            continue
        stack.append(f)
        stack.append(m // f)
    res = sorted(out.items())
    _FACTOR_CACHE[n0] = res
    return res


def _ipow(t, n):
    r = z3.RealVal(1)
    for _ in range(n):
        r = r * t
    return r


class Event:
    def __init__(self, kind, data=None):
        self.kind = kind     # 'warn' | 'print' | ...
        self.data = data

    def __repr__(self):
        return 'Event(%s,%r)' % (self.kind, self.data)


class _Assuming:
    def __init__(self, ctx, b):
        self.ctx = ctx
        self.b = b

    def __enter__(self):
        self.n = len(self.ctx.pc)
        self.ctx.pc.append(self.b)
        self.ctx.temp_depth += 1

    def __exit__(self, *a):
        del self.ctx.pc[self.n:]
        self.ctx.temp_depth -= 1
        return False


class Ctx:
    """One symbolic run."""

    def __init__(self, prefix=(), atoms=None):
        self.prefix = list(prefix)
        self.decisions = []
        self.pc = []
        self.pending = []            # decision prefixes to explore later
        self.atoms = atoms if atoms is not None else Atoms()
        self.events = []
        self.fresh_n = 0
        self.obligations = []        # (kind, label, z3 bool, pc snapshot)
        self.call_depth = 0
        self.notes = []
        self.side = []               # (label, z3 bool, pc snapshot) div-safe
        self.index_facts = []        # callables i -> z3 bool, hold for all i
        self.goal_mode = False       # evaluating a proof goal (positive)
        self.temp_depth = 0          # inside a temporary assumption

    # ---------------------------------------------------------- basics
    def fresh(self, name, sort='real'):
        self.fresh_n += 1
        nm = '%s!%d' % (name, self.fresh_n)
        if sort == 'real':
            return z3.Real(nm)
        if sort == 'int':
            return z3.Int(nm)
        if sort == 'bool':
            return z3.Bool(nm)
        if sort == 'str':
            return z3.String(nm)
        raise ValueError(sort)

    def assume(self, b):
        if b is True:
            return
        if b is False:
            raise PathAbort()
        if isinstance(b, Sym):
            b = b.t
        self.pc.append(b)

    def all_constraints(self):
        return list(self.pc) + list(self.atoms.facts)

    def feasible(self, extra):
        if getattr(self, 'deadline', None) is not None and time.time() > self.deadline:
            raise Unsupported('exploration time budget exceeded')
        r, _ = check_sat(self.all_constraints() + [extra],
                         timeout_ms=FEAS_TIMEOUT_MS)
        return r != 'unsat'

    def branch(self, cond):
        """cond: python bool or Sym(bool) -> python bool for this run."""
        if isinstance(cond, bool):
            return cond
        if not isinstance(cond, Sym):
            raise Unsupported('branch on %r' % (cond,))
        c = cond.t
        k = len(self.decisions)
        if k < len(self.prefix):
            d = self.prefix[k]
        else:
            can_t = self.feasible(c)
            can_f = self.feasible(z3.Not(c))
            if can_t and can_f and self.temp_depth > 0:
                raise Unsupported('path fork under a temporary assumption '
                                  '(guarded sub-formula of a clause)')
            if can_t and can_f:
                d = True
                self.pending.append(self.decisions + [False])
            elif can_t:
                d = True
            elif can_f:
                d = False
            else:
                raise PathAbort()
        self.decisions.append(d)
        self.pc.append(c if d else z3.Not(c))
        return d

    def assuming(self, b):
        """context manager: temporary assumption while evaluating a guarded
        sub-formula"""
        return _Assuming(self, b)

    def event(self, kind, data=None):
        self.events.append(Event(kind, data))

    # ---------------------------------------------------------- proving
    def prove(self, b, timeout_ms=2000):
        """True iff pc |= b is established now (used for side conditions)."""
        if isinstance(b, bool):
            return b
        if isinstance(b, Sym):
            b = b.t
        r, _ = check_sat(self.all_constraints() + [z3.Not(b)],
                         timeout_ms=timeout_ms)
        return r == 'unsat'

    # ---------------------------------------------------------- side obls
    def _side(self, label, cond):
        if isinstance(cond, bool):
            if not cond:
                self.side.append((label, z3.BoolVal(False), list(self.pc)))
            return
        self.side.append((label, cond, list(self.pc)))

    def need_nonzero(self, v):
        self._side('div-safe:nonzero', z3real(v) != 0)

    def log_checked(self, v):
        self._side('div-safe:log-arg-positive', z3real(v) > 0)
        return self.log(v)

    def sqrt_checked(self, v):
        self._side('div-safe:sqrt-arg-nonneg', z3real(v) >= 0)
        return self.sqrt(v)

    def fresh_index(self, n):
        i = self.fresh('i', 'int')
        self.pc.append(i >= 0)
        self.pc.append(i < n)
        for f in self.index_facts:
            self.pc.append(f(i))
        return i

    def integral(self, feval, a, b, key):
        """atom for the definite integral of f over [a, b]; `feval(t)` gives
        the z3 term f(t); `key` identifies the integrand"""
        a, b = z3real(a), z3real(b)
        k = ('int', key + '|' + z3.simplify(a).sexpr() + '|' +
             z3.simplify(b).sexpr())
        at = self.atoms
        if k in at.table:
            return Sym(at.table[k])
        v = at._fresh('int', (feval, a, b))
        at.table[k] = v
        return Sym(v)

    # ---------------------------------------------------------- atoms
    def exp(self, v):
        return Sym(self.atoms.get('exp', z3real(v), self))

    def log(self, v):
        return mk(self._log_expand(z3real(v)))

    def sqrt(self, v):
        return Sym(self.atoms.get('sqrt', z3real(v), self))

    def _log_expand(self, u):
        """log(u) as a linear combination of log atoms, splitting products,
        quotients and constant integer powers whose factors are provably
        positive under the path condition."""
        u = z3.simplify(u, som=False)
        if z3.is_rational_value(u):
            # log of a positive rational: sum over its small prime factors
            # (so that log(2 c) - log(c) == log(2) is linear arithmetic)
            num, den = u.numerator_as_long(), u.denominator_as_long()
            if num <= 0:
                return self.atoms.get('log', u, self)
            acc = z3.RealVal(0)
            for val, sign in ((num, 1), (den, -1)):
                for p, k in _small_factors(val):
                    if p == 1:
                        continue
                    acc = acc + sign * k * self.atoms.get(
                        'log', z3.RealVal(p), self)
            # congruence between log(<symbolic>) atoms and this numeral
            at = self.atoms
            nums = getattr(at, 'log_numerals', None)
            if nums is None:
                nums = at.log_numerals = {}
            key = u.sexpr()
            if key not in nums:
                nums[key] = (u, acc)
                for (k2, _k), w in list(at.table.items()):
                    if k2 == 'log':
                        warg = at.info[str(w)][1]
                        if not z3.is_rational_value(warg):
                            at.facts.append(z3.Implies(warg == u, w == acc))
            return acc
        k = u.decl().kind() if z3.is_app(u) else None
        if k == z3.Z3_OP_MUL:
            fs = u.children()
            if all(self.prove(f > 0) for f in fs):
                return z3.Sum([self._log_expand(f) for f in fs])
        if k == z3.Z3_OP_DIV:
            a, b = u.children()
            if self.prove(a > 0) and self.prove(b > 0):
                return self._log_expand(a) - self._log_expand(b)
        if k == z3.Z3_OP_POWER:
            a, b = u.children()
            if z3.is_rational_value(b) and self.prove(a > 0):
                return b * self._log_expand(a)
        if k == z3.Z3_OP_UNINTERPRETED and str(u) in self.atoms.info:
            kind, arg = self.atoms.info[str(u)]
            if kind == 'exp':
                return arg
            if kind == 'sqrt' and self.prove(arg > 0):
                return z3.RealVal('1/2') * self._log_expand(arg)
        return self.atoms.get('log', u, self)
