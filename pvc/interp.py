"""Symbolic interpreter for the Python subset pMuTT uses.

It reads the *current* source files (never imports pMuTT) and executes
function ASTs over the value model of values.py.  Path forking is delegated
to Ctx.branch (re-execution).  Anything outside the modelled subset raises
`Unsupported`, which turns the obligation into "out of reach" (never into a
verdict).
"""
import ast
import os
import hashlib
import z3
from fractions import Fraction
from .values import *            # noqa: F401,F403
from .values import (Sym, NDArr, GenArr, SumV, Opaque, Obj, PyClass, FuncV,
                     BoundMethod, PropertyV, Builtin, ExcClass, ExcObj,
                     PyRaise, raise_, ModuleV, Unsupported, mk, to_frac,
                     is_num, is_concrete_num, z3real, z3int, z3bool, z3str)
from .ops import Ops, _flatten, _hk, _isstr
from .ctx import Ctx, PathAbort

REPO_ROOT = os.environ.get('PVC_REPO', '/repo')
VERIF_ROOT = os.path.dirname(os.path.dirname(os.path.abspath(__file__)))
MAX_CALL_DEPTH = 60
MAX_LOOP_UNROLL = 400


class _nullctx:
    def __enter__(self):
        return self

    def __exit__(self, *a):
        return False


class ReturnSig(Exception):
    def __init__(self, value):
        self.value = value


class BreakSig(Exception):
    pass


class ContinueSig(Exception):
    pass


class Env:
    __slots__ = ('vars', 'parent', 'module', 'func', 'globals_decl')

    def __init__(self, module, parent=None, func=None):
        self.vars = {}
        self.parent = parent
        self.module = module
        self.func = func
        self.globals_decl = set()

    def lookup(self, name):
        e = self
        while e is not None:
            if name in e.vars:
                return True, e.vars[name]
            e = e.parent
        return False, None


class _Unbound:
    pass


UNBOUND = _Unbound()


class SrcModule(ModuleV):
    """A module whose source is interpreted lazily, name by name."""

    def __init__(self, name, path, interp):
        self.name = name
        self.path = path
        self.interp = interp
        with open(path, 'rb') as f:
            raw = f.read()
        self.sha256 = hashlib.sha256(raw).hexdigest()
        self.src = raw.decode('utf-8')
        self.tree = ast.parse(self.src, filename=path)
        self.stmts = {}          # name -> [stmt]
        self.cache = {}
        self.busy = set()
        self._index(self.tree.body)

    def _index(self, body):
        for st in body:
            if isinstance(st, (ast.FunctionDef, ast.ClassDef)):
                self.stmts.setdefault(st.name, []).append(st)
            elif isinstance(st, ast.Assign):
                for t in st.targets:
                    for n in _target_names(t):
                        self.stmts.setdefault(n, []).append(st)
            elif isinstance(st, ast.AugAssign):
                for n in _target_names(st.target):
                    self.stmts.setdefault(n, []).append(st)
            elif isinstance(st, ast.AnnAssign) and st.value is not None:
                for n in _target_names(st.target):
                    self.stmts.setdefault(n, []).append(st)
            elif isinstance(st, ast.Import):
                for a in st.names:
                    nm = a.asname or a.name.split('.')[0]
                    self.stmts.setdefault(nm, []).append(st)
            elif isinstance(st, ast.ImportFrom):
                for a in st.names:
                    self.stmts.setdefault(a.asname or a.name, []).append(st)
            elif isinstance(st, ast.Expr) and isinstance(st.value, ast.Call):
                f = st.value.func
                if isinstance(f, ast.Attribute) and isinstance(f.value,
                                                               ast.Name):
                    if f.value.id in self.stmts:
                        self.stmts[f.value.id].append(st)
            elif isinstance(st, ast.Try):
                self._index(st.body)
            elif isinstance(st, ast.If):
                # `if __name__ == '__main__'` and friends are not executed
                pass

    def has(self, name):
        return name in self.stmts

    def get(self, name):
        if name in self.cache:
            return self.cache[name]
        if name not in self.stmts:
            raise KeyError(name)
        if name in self.busy:
            raise Unsupported('cyclic module-level definition of %s.%s'
                              % (self.name, name))
        self.busy.add(name)
        try:
            env = Env(self)
            for st in self.stmts[name]:
                self.interp.exec_toplevel(st, env, self, name)
            if name not in env.vars:
                raise Unsupported('module name %s.%s not bound'
                                  % (self.name, name))
            self.cache[name] = env.vars[name]
        finally:
            self.busy.discard(name)
        return self.cache[name]


def _target_names(t):
    if isinstance(t, ast.Name):
        return [t.id]
    if isinstance(t, (ast.Tuple, ast.List)):
        out = []
        for e in t.elts:
            out.extend(_target_names(e))
        return out
    return []


class ExtModule(ModuleV):
    """An external library, replaced by a model (dict of name -> value)."""

    def __init__(self, name, table):
        self.name = name
        self.table = table

    def get(self, name):
        if name in self.table:
            return self.table[name]
        return ExtValue('%s.%s' % (self.name, name))

    def has(self, name):
        return True


class ExtValue:
    """Something from an external library that has no model."""

    def __init__(self, name):
        self.name = name

    def __repr__(self):
        return '<external %s>' % self.name


class SuperV:
    def __init__(self, cls, obj):
        self.cls = cls
        self.obj = obj


class Interp:
    def __init__(self, ctx=None):
        self.ctx = ctx or Ctx()
        self.ops = Ops(self.ctx)
        self.ops.interp = self
        self.modules = {}
        self.contracts = {}        # qualname -> callable(interp, fv, args, kwargs) or None
        self.files_read = {}
        from . import models
        self.models = models
        self.ext = models.external_modules(self)
        self.builtins = models.builtins(self)
        self.trace_calls = []
        self.mutlog = []
        self.ext_calls = []

    def set_ctx(self, ctx):
        self.ctx = ctx
        self.ops.ctx = ctx
        # every run starts from freshly imported modules: module-level
        # containers that the previous run modified are re-evaluated
        mutated = set(id(o) for o in self.mutlog)
        if mutated:
            for m in self.modules.values():
                cache = getattr(m, 'cache', None)
                if not cache:
                    continue
                for nm in [n for n, v in cache.items()
                           if id(v) in mutated and isinstance(v, (dict, list, set))]:
                    del cache[nm]
        self.mutlog = []
        self.ext_calls = []
        # default values are evaluated once per function definition and
        # shared by all calls of one run (mutable defaults)
        self.default_cache = {}

    # ------------------------------------------------------------ modules
    def module_path(self, name):
        parts = name.split('.')
        if parts[0] == 'spec':
            base = os.path.join(VERIF_ROOT, *parts)
            if os.path.exists(base + '_model.py'):
                # a spec module whose native form uses libraries pvc does
                # not model has a pvc-side model next to it
                return base + '_model.py'
        elif parts[0] == 'pmutt':
            base = os.path.join(REPO_ROOT, *parts)
        else:
            return None
        if os.path.isdir(base) and os.path.exists(os.path.join(base,
                                                               '__init__.py')):
            return os.path.join(base, '__init__.py')
        if os.path.exists(base + '.py'):
            return base + '.py'
        return None

    def load_module(self, name):
        if name in self.modules:
            return self.modules[name]
        root = name.split('.')[0]
        if name in self.ext:
            m = self.ext[name]
        elif root in ('pmutt', 'spec'):
            p = self.module_path(name)
            if p is None:
                raise Unsupported('module %s not found' % name)
            m = SrcModule(name, p, self)
            self.files_read[p] = m.sha256
        else:
            m = ExtModule(name, {})
        self.modules[name] = m
        return m

    def resolve(self, qualname):
        """'pkg.mod:Class.method' -> value"""
        modname, _, path = qualname.partition(':')
        v = self.load_module(modname)
        for part in path.split('.'):
            v = self.getattr(v, part)
        return v

    def exec_toplevel(self, st, env, module, want):
        if isinstance(st, ast.Import):
            for a in st.names:
                nm = a.asname or a.name.split('.')[0]
                if nm != want:
                    continue
                target = a.name if a.asname else a.name.split('.')[0]
                env.vars[nm] = self.load_module(target)
            return
        if isinstance(st, ast.ImportFrom):
            modname = st.module or ''
            if st.level:
                pk = module.name.split('.')
                if not module.path.endswith('__init__.py'):
                    pk = pk[:-1]
                pk = pk[:len(pk) - (st.level - 1)]
                modname = '.'.join(pk + ([st.module] if st.module else []))
            for a in st.names:
                nm = a.asname or a.name
                if nm != want:
                    continue
                sub = modname + '.' + a.name
                m = self.load_module(modname)
                if isinstance(m, SrcModule) and self.module_path(sub) and \
                        (not m.has(a.name) or m is module):
                    env.vars[nm] = self.load_module(sub)
                elif isinstance(m, ExtModule) and sub in self.ext:
                    env.vars[nm] = self.ext[sub]
                else:
                    try:
                        env.vars[nm] = m.get(a.name)
                    except KeyError:
                        if self.module_path(sub):
                            env.vars[nm] = self.load_module(sub)
                        else:
                            raise Unsupported('cannot import %s from %s'
                                              % (a.name, modname))
            return
        self.exec_stmt(st, env)

    # ------------------------------------------------------------ classes
    def build_class(self, node, env):
        bases = []
        for b in node.bases:
            bases.append(self.eval(b, env))
        cls = PyClass(node.name, env.module, node, bases)
        cenv = Env(env.module, parent=env)
        for st in node.body:
            if isinstance(st, ast.FunctionDef):
                fv = FuncV(st, env.module, closure=env if env.func else None,
                           cls=cls)
                val = fv
                for d in reversed(st.decorator_list):
                    if isinstance(d, ast.Name) and d.id == 'property':
                        val = PropertyV(fv)
                    elif isinstance(d, ast.Name) and d.id == 'classmethod':
                        fv.kind = 'classmethod'
                    elif isinstance(d, ast.Name) and d.id == 'staticmethod':
                        fv.kind = 'staticmethod'
                    elif isinstance(d, ast.Attribute) and d.attr == 'setter':
                        prop = cls.attrs.get(d.value.id)
                        if not isinstance(prop, PropertyV):
                            raise Unsupported('setter without property')
                        val = PropertyV(prop.fget, fv)
                    else:
                        raise Unsupported('decorator %s' % ast.dump(d))
                cls.attrs[st.name] = val
                cenv.vars[st.name] = val
            elif isinstance(st, ast.Expr) and isinstance(st.value,
                                                         ast.Constant):
                continue
            elif isinstance(st, ast.Pass):
                continue
            elif isinstance(st, (ast.Assign, ast.AnnAssign)):
                self.exec_stmt(st, cenv)
                for k, v in cenv.vars.items():
                    cls.attrs[k] = v
            else:
                raise Unsupported('class body statement %s'
                                  % type(st).__name__)
        return cls

    def instantiate(self, cls, args, kwargs):
        obj = Obj(cls)
        init, _ = cls.lookup('__init__')
        if init is not None:
            self.call(BoundMethod(obj, init), args, kwargs)
        elif args or kwargs:
            if any(isinstance(b, ExcClass) for b in cls.mro()[-1].bases):
                obj.fields['args'] = tuple(args)
            else:
                raise_('TypeError', '%s() takes no arguments' % cls.name)
        return obj

    def isinstance_(self, v, cls):
        if isinstance(cls, tuple):
            return any(self.isinstance_(v, c) for c in cls)
        if isinstance(cls, PyClass):
            return isinstance(v, Obj) and v.cls.issubclass(cls)
        if isinstance(cls, ExcClass):
            return isinstance(v, ExcObj) and v.cls.isa(cls.name)
        if isinstance(cls, models_TypeV()):
            return cls.check(v)
        if isinstance(cls, ExtValue):
            return False
        raise Unsupported('isinstance with %r' % (cls,))

    def open_file(self, filename, mode='r', **kw):
        if isinstance(filename, self.models.FileV):
            if 'r' not in mode and mode != 'r':
                raise Unsupported('writing to a modelled file')
            return self.models.OpenFileV(filename, mode)
        raise Unsupported('open() of a real file')

    # ------------------------------------------------------------ attributes
    def getattr(self, v, name, default=UNBOUND):
        try:
            return self._getattr(v, name)
        except PyRaise as e:
            if default is not UNBOUND and e.exc.cls.isa('AttributeError'):
                return default
            raise

    def _getattr(self, v, name):
        if isinstance(v, Obj):
            if name in v.fields:
                return v.fields[name]
            if name == '__class__':
                return v.cls
            if name == '__dict__':
                return v.fields
            a, k = v.cls.lookup(name)
            if a is None:
                ga, _ = v.cls.lookup('__getattr__')
                if ga is not None:
                    return self.call(BoundMethod(v, ga), [name], {})
                raise_('AttributeError', "'%s' object has no attribute '%s'"
                       % (v.cls.name, name))
            if isinstance(a, PropertyV):
                return self.call(BoundMethod(v, a.fget), [], {})
            if isinstance(a, FuncV):
                if a.kind == 'staticmethod':
                    return a
                if a.kind == 'classmethod':
                    return BoundMethod(v.cls, a)
                return BoundMethod(v, a)
            if isinstance(a, Builtin) and getattr(a, 'bind_self', False):
                fn = a.fn
                if a.pass_interp:
                    return Builtin(a.name, lambda it, *x, **k: fn(it, v, *x, **k),
                                   pass_interp=True)
                return Builtin(a.name, lambda *x, **k: fn(v, *x, **k))
            return a
        if isinstance(v, PyClass):
            if name == '__name__':
                return v.name
            if name == '__module__':
                return v.module.name
            a, k = v.lookup(name)
            if a is None:
                raise_('AttributeError', "type object '%s' has no attribute "
                       "'%s'" % (v.name, name))
            if isinstance(a, FuncV) and a.kind == 'classmethod':
                return BoundMethod(v, a)
            return a
        if isinstance(v, ModuleV):
            try:
                return self.models.resolve_const(self, v.get(name))
            except KeyError:
                sub = v.name + '.' + name
                if self.module_path(sub) or sub in self.ext:
                    return self.load_module(sub)
                raise_('AttributeError', "module '%s' has no attribute '%s'"
                       % (v.name, name))
        if isinstance(v, SuperV):
            mro = v.obj.cls.mro() if isinstance(v.obj, Obj) else v.obj.mro()
            idx = mro.index(v.cls)
            for k in mro[idx + 1:]:
                if name in k.attrs:
                    a = k.attrs[name]
                    if isinstance(a, FuncV):
                        if a.kind == 'classmethod':
                            return BoundMethod(
                                v.obj.cls if isinstance(v.obj, Obj) else v.obj,
                                a)
                        if a.kind == 'staticmethod':
                            return a
                        return BoundMethod(v.obj, a)
                    if isinstance(a, PropertyV):
                        return self.call(BoundMethod(v.obj, a.fget), [], {})
                    return a
            if name == '__init__':
                return Builtin('object.__init__', lambda *a, **k: None)
            raise_('AttributeError', "'super' object has no attribute '%s'"
                   % name)
        if isinstance(v, FuncV):
            if name == '__name__':
                return v.name
            if name == '__code__':
                return self.models.CodeV(v)
            raise_('AttributeError', 'function attribute %s' % name)
        if isinstance(v, BoundMethod):
            if name == '__name__':
                return v.func.name
            if name == '__code__':
                return self.models.CodeV(v.func)
            if name == '__self__':
                return v.recv
            if name == '__func__':
                return v.func
            raise_('AttributeError', 'method attribute %s' % name)
        if isinstance(v, ExcObj):
            if name == 'args':
                return v.args
            raise_('AttributeError', name)
        if isinstance(v, ExtValue):
            return ExtValue(v.name + '.' + name)
        m = self.models.method(self, v, name)
        if m is not None:
            return m
        if name == '__class__':
            try:
                return self.models.py_type(self, v)
            except Unsupported:
                pass
        if hasattr(v, 'sym_getattr'):
            return v.sym_getattr(name, self)
        tn = type(v).__name__ if not isinstance(v, Sym) else v.kind
        raise_('AttributeError', "'%s' object has no attribute '%s'"
               % (tn, name))

    def hasattr(self, v, name):
        try:
            self._getattr(v, name)
            return True
        except PyRaise as e:
            if e.exc.cls.isa('AttributeError'):
                return False
            raise

    def setattr(self, v, name, val):
        self.mutlog.append(v)
        if isinstance(v, Obj):
            a, _ = v.cls.lookup(name)
            if isinstance(a, PropertyV):
                if a.fset is None:
                    raise_('AttributeError', "can't set attribute")
                self.call(BoundMethod(v, a.fset), [val], {})
                return
            v.fields[name] = val
            return
        if isinstance(v, PyClass):
            v.attrs[name] = val
            return
        if hasattr(v, 'sym_setattr'):
            return v.sym_setattr(name, val, self)
        raise Unsupported('setattr on %r' % type(v))

    # ------------------------------------------------------------ calls
    def call(self, f, args, kwargs):
        self.ctx.call_depth += 1
        try:
            if self.ctx.call_depth > MAX_CALL_DEPTH:
                raise Unsupported('call depth exceeded')
            return self._call(f, list(args), dict(kwargs))
        finally:
            self.ctx.call_depth -= 1

    def _call(self, f, args, kwargs):
        if isinstance(f, BoundMethod):
            if isinstance(f.func, FuncV):
                return self._call(f.func, [f.recv] + args, kwargs)
            return self._call(f.func, [f.recv] + args, kwargs)
        if isinstance(f, FuncV):
            hook = self.contracts.get(f.qualname)
            if hook is not None:
                r = hook(self, f, args, kwargs)
                if r is not UNBOUND:
                    return r
            return self.call_function(f, args, kwargs)
        if isinstance(f, PyClass):
            return self.instantiate(f, args, kwargs)
        if isinstance(f, Builtin):
            try:
                if f.pass_interp:
                    return f.fn(self, *args, **kwargs)
                return f.fn(*args, **kwargs)
            except TypeError as e:
                if 'argument' in str(e) and ('positional' in str(e) or
                                             'keyword' in str(e)):
                    raise Unsupported('model %s: %s' % (f.name, e))
                raise
        if isinstance(f, ExcClass):
            return ExcObj(f, args)
        if isinstance(f, ExtValue):
            raise Unsupported('call of external %s (no model)' % f.name)
        if isinstance(f, Obj):
            c, _ = f.cls.lookup('__call__')
            if c is not None:
                return self._call(BoundMethod(f, c), args, kwargs)
        if hasattr(f, 'sym_call'):
            return f.sym_call(self, args, kwargs)
        if callable(f) and not isinstance(f, (Sym,)):
            return f(*args, **kwargs)
        raise_('TypeError', '%r is not callable' % (f,))

    def bind_args(self, fv, args, kwargs):
        a = fv.node.args
        env = Env(fv.module, parent=fv.closure, func=fv)
        params = [p.arg for p in a.posonlyargs + a.args]
        defaults = a.defaults
        nd = len(defaults)
        args = list(args)
        kwargs = dict(kwargs)
        denv = Env(fv.module, parent=fv.closure)
        for i, p in enumerate(params):
            if i < len(args):
                if p in kwargs:
                    raise_('TypeError', "%s() got multiple values for "
                           "argument '%s'" % (fv.name, p))
                env.vars[p] = args[i]
            elif p in kwargs:
                env.vars[p] = kwargs.pop(p)
            else:
                di = i - (len(params) - nd)
                if di >= 0:
                    env.vars[p] = self._default(defaults[di], denv)
                else:
                    raise_('TypeError', "%s() missing required argument '%s'"
                           % (fv.name, p))
        if len(args) > len(params):
            if a.vararg:
                env.vars[a.vararg.arg] = tuple(args[len(params):])
            else:
                raise_('TypeError', '%s() takes %d positional arguments but '
                       '%d were given' % (fv.name, len(params), len(args)))
        elif a.vararg:
            env.vars[a.vararg.arg] = ()
        for p, d in zip(a.kwonlyargs, a.kw_defaults):
            if p.arg in kwargs:
                env.vars[p.arg] = kwargs.pop(p.arg)
            elif d is not None:
                env.vars[p.arg] = self._default(d, denv)
            else:
                raise_('TypeError', "%s() missing keyword-only argument '%s'"
                       % (fv.name, p.arg))
        if a.kwarg:
            env.vars[a.kwarg.arg] = self.models.make_kwargs(self, kwargs)
        elif kwargs:
            raise_('TypeError', "%s() got an unexpected keyword argument '%s'"
                   % (fv.name, self.models.first_key(kwargs)))
        return env

    def _default(self, node, denv):
        if not isinstance(node, (ast.List, ast.Dict, ast.Set)):
            return self.eval(node, denv)
        cache = self.__dict__.setdefault('default_cache', {})
        if id(node) not in cache:
            cache[id(node)] = self.eval(node, denv)
        return cache[id(node)]

    def call_function(self, fv, args, kwargs):
        if getattr(fv, 'memoized', False):
            from .dsl import _vkey
            key = (id(fv.node), _vkey(list(args)),
                   _vkey({k: kwargs[k] for k in sorted(kwargs)}))
            cache = self.__dict__.setdefault('default_cache', {})
            if key not in cache:
                fv.memoized = False
                try:
                    cache[key] = self.call_function(fv, args, kwargs)
                finally:
                    fv.memoized = True
            return cache[key]
        env = self.bind_args(fv, args, kwargs)
        if isinstance(fv.node, ast.Lambda):
            return self.eval(fv.node.body, env)
        if _is_generator(fv.node):
            # generator function: run to completion, collect the yielded
            # values (sound for generators without side effects between
            # yields, which is all pMuTT has)
            env.vars['$yield'] = []
            try:
                self.exec_block(fv.node.body, env)
            except ReturnSig:
                pass
            return self.models._Iter(list(env.vars['$yield']))
        self.trace_calls.append(fv.qualname)
        try:
            self.exec_block(fv.node.body, env)
        except ReturnSig as r:
            return r.value
        return None

    # ------------------------------------------------------------ statements
    def exec_block(self, stmts, env):
        for st in stmts:
            self.exec_stmt(st, env)

    def exec_stmt(self, st, env):
        m = getattr(self, 'st_' + type(st).__name__, None)
        if m is None:
            raise Unsupported('statement %s (line %s)'
                              % (type(st).__name__, getattr(st, 'lineno', '?')))
        return m(st, env)

    def st_Expr(self, st, env):
        if isinstance(st.value, ast.Constant):
            return
        self.eval(st.value, env)

    def st_Pass(self, st, env):
        pass

    def st_Return(self, st, env):
        raise ReturnSig(self.eval(st.value, env) if st.value else None)

    def st_Break(self, st, env):
        raise BreakSig()

    def st_Continue(self, st, env):
        raise ContinueSig()

    def st_Global(self, st, env):
        raise Unsupported('global statement')

    def st_Import(self, st, env):
        for a in st.names:
            nm = a.asname or a.name.split('.')[0]
            target = a.name if a.asname else a.name.split('.')[0]
            env.vars[nm] = self.load_module(target)

    def st_ImportFrom(self, st, env):
        for a in st.names:
            self.exec_toplevel(st, env, env.module, a.asname or a.name)

    def st_FunctionDef(self, st, env):
        memoized = False
        for d in st.decorator_list:
            # functools.lru_cache / functools.cache (with or without
            # arguments): same arguments -> the SAME result object
            t = d.func if isinstance(d, ast.Call) else d
            nm = t.attr if isinstance(t, ast.Attribute) else \
                (t.id if isinstance(t, ast.Name) else None)
            if nm in ('lru_cache', 'cache'):
                memoized = True
            else:
                raise Unsupported('decorated function %s' % st.name)
        fv = FuncV(st, env.module, closure=env if env.func else None)
        fv.memoized = memoized
        env.vars[st.name] = fv

    def st_ClassDef(self, st, env):
        env.vars[st.name] = self.build_class(st, env)

    def st_Assign(self, st, env):
        v = self.eval(st.value, env)
        for t in st.targets:
            self.assign(t, v, env)

    def st_AnnAssign(self, st, env):
        if st.value is not None:
            self.assign(st.target, self.eval(st.value, env), env)

    def st_AugAssign(self, st, env):
        t = st.target
        if isinstance(t, ast.Name):
            cur = self.eval(t, env)
            new = self.aug(st.op, cur, self.eval(st.value, env))
            self.assign(t, new, env)
        elif isinstance(t, ast.Attribute):
            obj = self.eval(t.value, env)
            cur = self.getattr(obj, t.attr)
            new = self.aug(st.op, cur, self.eval(st.value, env))
            self.setattr(obj, t.attr, new)
        elif isinstance(t, ast.Subscript):
            obj = self.eval(t.value, env)
            idx = self.eval_index(t.slice, env)
            cur = self.getitem(obj, idx)
            new = self.aug(st.op, cur, self.eval(st.value, env))
            self.setitem(obj, idx, new)
        else:
            raise Unsupported('augassign target')

    def aug(self, op, cur, val):
        if isinstance(op, ast.Add) and isinstance(cur, list):
            cur.extend(self.iterate(val))
            return cur
        if hasattr(cur, 'sym_iadd') and isinstance(op, ast.Add):
            return cur.sym_iadd(val, self)
        return self.ops.binop(op, cur, val)

    def st_Delete(self, st, env):
        for t in st.targets:
            if isinstance(t, ast.Subscript):
                obj = self.eval(t.value, env)
                idx = self.eval_index(t.slice, env)
                self.delitem(obj, idx)
            elif isinstance(t, ast.Name):
                env.vars.pop(t.id, None)
            else:
                raise Unsupported('del target')

    def st_If(self, st, env):
        if self.ops.truth(self.eval(st.test, env)):
            self.exec_block(st.body, env)
        else:
            self.exec_block(st.orelse, env)

    def st_Assert(self, st, env):
        if not self.ops.truth(self.eval(st.test, env)):
            raise_('AssertionError')

    def st_For(self, st, env):
        it = self.eval(st.iter, env)
        if isinstance(it, GenArr):
            return self._for_map_rule(st, it, env)
        items = self.iterate(it, live=True)
        n = 0
        broke = False
        for x in items:
            n += 1
            if n > MAX_LOOP_UNROLL:
                raise Unsupported('loop unrolled more than %d times'
                                  % MAX_LOOP_UNROLL)
            self.assign(st.target, x, env)
            try:
                self.exec_block(st.body, env)
            except BreakSig:
                broke = True
                break
            except ContinueSig:
                continue
        if not broke:
            self.exec_block(st.orelse, env)

    # ---- derived loop rule: map ------------------------------------------
    def _for_map_rule(self, st, it, env):
        """`acc = []; for x in xs: ...; acc.append(e(x))` over a sequence of
        symbolic length n  ==>  acc = [e(x) for x in xs]  (an instance of
        induction on n).  Side conditions, checked on a generic iteration:
        the body appends exactly once to each accumulator, writes nothing
        else that outlives the iteration, does not fork, break, continue or
        return."""
        if st.orelse:
            raise Unsupported('for/else over a symbolic-length sequence')
        accs = {k: v for k, v in env.vars.items()
                if isinstance(v, list) and len(v) == 0}
        if not accs:
            raise Unsupported('loop over a symbolic-length sequence without '
                              'an empty list accumulator (map rule)')
        before = dict(env.vars)
        pre_ids = self._reachable_ids(env)
        acc_ids = {id(v) for v in accs.values()}
        ctx = self.ctx
        i0 = ctx.fresh('i', 'int')
        m0 = len(self.mutlog)
        with ctx.assuming(z3.And(i0 >= 0, i0 < it.n)):
            self.assign(st.target, it.elem(i0), env)
            try:
                self.exec_block(st.body, env)
            except (BreakSig, ContinueSig, ReturnSig):
                raise Unsupported('break/continue/return in a loop over a '
                                  'symbolic-length sequence')
        for obj in self.mutlog[m0:]:
            if id(obj) in pre_ids and id(obj) not in acc_ids:
                raise Unsupported('loop body mutates state that outlives '
                                  'the iteration (map rule does not apply)')
        target_names = set(_target_names(st.target))
        for k, v in before.items():
            if k in target_names:
                continue
            if env.vars.get(k) is not v:
                raise Unsupported('loop body reassigns %r (loop-carried '
                                  'dependency; map rule does not apply)' % k)
        used = {}
        for k, lst in accs.items():
            if len(lst) == 0:
                continue
            if len(lst) != 1:
                raise Unsupported('accumulator %r appended %d times per '
                                  'iteration' % (k, len(lst)))
            used[k] = lst
        for k, lst in used.items():
            del lst[:]
        for k, lst in used.items():
            def elem(j, k=k, lst=lst):
                saved = {kk: list(l) for kk, l in used.items()}
                saved_vars = dict(env.vars)
                for kk, l in used.items():
                    del l[:]
                    env.vars[kk] = l
                cenv = env
                try:
                    with ctx.assuming(z3.And(j >= 0, j < it.n)) if not \
                            isinstance(j, int) else _nullctx():
                        self.assign(st.target, it.elem(j), cenv)
                        self.exec_block(st.body, cenv)
                    val = lst[-1]
                finally:
                    for kk, l in used.items():
                        l[:] = saved[kk]
                    env.vars.clear()
                    env.vars.update(saved_vars)
                return val
            g = GenArr(it.n, elem)
            for name, v in list(env.vars.items()):
                if v is lst:
                    env.vars[name] = g

    def _reachable_ids(self, env):
        seen = set()
        stack = []
        e = env
        while e is not None:
            stack.extend(e.vars.values())
            e = e.parent
        while stack:
            v = stack.pop()
            if isinstance(v, (list, dict, NDArr, Obj, set)):
                if id(v) in seen:
                    continue
                seen.add(id(v))
                if isinstance(v, list):
                    stack.extend(v)
                elif isinstance(v, dict):
                    stack.extend(v.values())
                elif isinstance(v, Obj):
                    stack.extend(v.fields.values())
                elif isinstance(v, NDArr) and isinstance(v.data, list):
                    seen.add(id(v.data))
            elif isinstance(v, tuple):
                stack.extend(v)
        return seen

    def st_While(self, st, env):
        n = 0
        broke = False
        while self.ops.truth(self.eval(st.test, env)):
            n += 1
            if n > MAX_LOOP_UNROLL:
                raise Unsupported('while loop unrolled too often')
            try:
                self.exec_block(st.body, env)
            except BreakSig:
                broke = True
                break
            except ContinueSig:
                continue
        if not broke:
            self.exec_block(st.orelse, env)

    def st_Raise(self, st, env):
        if st.exc is None:
            cur = getattr(env, 'vars', {}).get('$exc')
            e = env
            while cur is None and e is not None:
                cur = e.vars.get('$exc')
                e = e.parent
            if cur is None:
                raise Unsupported('bare raise outside except')
            raise PyRaise(cur)
        v = self.eval(st.exc, env)
        if isinstance(v, ExcClass):
            v = ExcObj(v, ())
        elif isinstance(v, PyClass):
            v = self.instantiate(v, [], {})
        if isinstance(v, Obj):
            # user-defined exception class
            base = None
            for k in v.cls.mro():
                for b in k.bases:
                    if isinstance(b, ExcClass):
                        base = b
            if base is None:
                raise Unsupported('raise of non-exception object')
            e = ExcObj(ExcClass(base.name), v.fields.get('args', ()))
            e.user = v
            raise PyRaise(e)
        if not isinstance(v, ExcObj):
            raise Unsupported('raise %r' % (v,))
        raise PyRaise(v)

    def st_Try(self, st, env):
        try:
            try:
                self.exec_block(st.body, env)
            except PyRaise as e:
                for h in st.handlers:
                    if self.exc_matches(e.exc, h.type, env):
                        if h.name:
                            env.vars[h.name] = e.exc
                        old = env.vars.get('$exc')
                        env.vars['$exc'] = e.exc
                        try:
                            self.exec_block(h.body, env)
                        finally:
                            if old is None:
                                env.vars.pop('$exc', None)
                            else:
                                env.vars['$exc'] = old
                        break
                else:
                    raise
            else:
                self.exec_block(st.orelse, env)
        finally:
            if st.finalbody:
                self.exec_block(st.finalbody, env)

    def exc_matches(self, exc, tnode, env):
        if tnode is None:
            return True
        t = self.eval(tnode, env)
        ts = t if isinstance(t, tuple) else (t,)
        for k in ts:
            if isinstance(k, ExcClass):
                if exc.cls.isa(k.name):
                    return True
            elif isinstance(k, PyClass):
                u = getattr(exc, 'user', None)
                if u is not None and u.cls.issubclass(k):
                    return True
            else:
                raise Unsupported('except %r' % (k,))
        return False

    def st_With(self, st, env):
        for item in st.items:
            cm = self.eval(item.context_expr, env)
            if hasattr(cm, 'sym_enter'):
                v = cm.sym_enter(self)
            else:
                raise Unsupported('with %r' % (cm,))
            if item.optional_vars is not None:
                self.assign(item.optional_vars, v, env)
        self.exec_block(st.body, env)
        for item in st.items:
            pass

    # ------------------------------------------------------------ assignment
    def assign(self, t, v, env):
        if isinstance(t, ast.Name):
            env.vars[t.id] = v
        elif isinstance(t, (ast.Tuple, ast.List)):
            items = list(self.iterate(v))
            star = [i for i, e in enumerate(t.elts)
                    if isinstance(e, ast.Starred)]
            if star:
                k = star[0]
                after = len(t.elts) - k - 1
                if len(items) < len(t.elts) - 1:
                    raise_('ValueError', 'not enough values to unpack')
                for e, x in zip(t.elts[:k], items[:k]):
                    self.assign(e, x, env)
                self.assign(t.elts[k].value,
                            items[k:len(items) - after], env)
                for e, x in zip(t.elts[k + 1:], items[len(items) - after:]):
                    self.assign(e, x, env)
                return
            if len(items) != len(t.elts):
                raise_('ValueError', 'wrong number of values to unpack '
                       '(expected %d, got %d)' % (len(t.elts), len(items)))
            for e, x in zip(t.elts, items):
                self.assign(e, x, env)
        elif isinstance(t, ast.Attribute):
            self.setattr(self.eval(t.value, env), t.attr, v)
        elif isinstance(t, ast.Subscript):
            obj = self.eval(t.value, env)
            self.setitem(obj, self.eval_index(t.slice, env), v)
        else:
            raise Unsupported('assignment target %s' % type(t).__name__)

    # ------------------------------------------------------------ iteration
    def iterate(self, v, live=False):
        if isinstance(v, list):
            return _live_list(v) if live else list(v)
        if isinstance(v, (tuple, range)):
            return list(v)
        if isinstance(v, dict):
            if live:
                return self.models.DictView(v, 'keys').live_iter()
            return list(v.keys())
        if live and isinstance(v, self.models.DictView):
            return v.live_iter()
        if isinstance(v, (set, frozenset)):
            return sorted(v, key=repr)
        if isinstance(v, str):
            return list(v)
        if isinstance(v, NDArr):
            if v.ndim == 0:
                raise_('TypeError', 'iteration over a 0-d array')
            return [NDArr(x) if isinstance(x, list) else x for x in v.data]
        if live and isinstance(v, self.models._Iter):
            return v.live_iter()
        if hasattr(v, 'sym_iter'):
            return v.sym_iter(self)
        if v is None or is_num(v) or isinstance(v, bool):
            raise_('TypeError', 'object is not iterable')
        if isinstance(v, (GenArr,)):
            raise Unsupported('iteration over symbolic-length array needs a '
                              'loop rule / invariant')
        if hasattr(v, '__iter__') and not isinstance(v, (Sym, Obj)):
            return list(v)
        if isinstance(v, Obj):
            f, _ = v.cls.lookup('__iter__')
            if f is not None:
                return self.iterate(self.call(BoundMethod(v, f), [], {}),
                                    live)
            g, _ = v.cls.lookup('__getitem__')
            if g is not None:
                raise Unsupported('iteration through __getitem__')
            raise_('TypeError', "'%s' object is not iterable" % v.cls.name)
        raise Unsupported('iterate %r' % type(v))

    def is_iterable(self, v):
        try:
            self.iterate(v)
            return True
        except PyRaise as e:
            if e.exc.cls.isa('TypeError'):
                return False
            raise

    # ------------------------------------------------------------ subscripts
    def eval_index(self, node, env):
        if isinstance(node, ast.Slice):
            return slice(self.eval(node.lower, env) if node.lower else None,
                         self.eval(node.upper, env) if node.upper else None,
                         self.eval(node.step, env) if node.step else None)
        if isinstance(node, ast.Tuple):
            return tuple(self.eval_index(e, env) for e in node.elts)
        return self.eval(node, env)

    def concretize_index(self, i, n):
        """symbolic int index into a length-n sequence -> python int by case
        split on the path"""
        if isinstance(i, bool):
            return int(i)
        if isinstance(i, int):
            return i
        if isinstance(i, Fraction):
            raise_('TypeError', 'indices must be integers')
        if isinstance(i, Sym) and i.kind == 'int':
            for k in list(range(n)) + list(range(-n, 0)):
                if self.ctx.branch(mk(i.t == k)):
                    return k
            raise_('IndexError', 'index out of range')
        if isinstance(i, Sym) and i.kind == 'real':
            raise_('TypeError', 'indices must be integers')
        if isinstance(i, (str, tuple, list, dict)) or i is None or \
                (isinstance(i, Sym) and i.kind == 'str'):
            raise_('TypeError', 'indices must be integers or slices')
        raise Unsupported('index %r' % (i,))

    def _slice(self, s, n):
        def c(x):
            if x is None:
                return None
            if isinstance(x, Fraction) and x.denominator == 1:
                return int(x)
            if isinstance(x, int):
                return x
            raise Unsupported('symbolic slice bound')
        return slice(c(s.start), c(s.stop), c(s.step))

    def getitem(self, obj, idx):
        if isinstance(obj, (list, tuple)):
            if isinstance(idx, slice):
                return obj[self._slice(idx, len(obj))]
            k = self.concretize_index(idx, len(obj))
            try:
                return obj[k]
            except IndexError:
                raise_('IndexError', 'list index out of range')
        if isinstance(obj, self.models.DefaultDictV):
            try:
                return self.dict_get(obj, idx)
            except PyRaise as e:
                if not e.exc.cls.isa('KeyError') or obj.default_factory is None:
                    raise
            v = self.call(obj.default_factory, [], {})
            self.setitem(obj, idx, v)
            return v
        if isinstance(obj, dict):
            return self.dict_get(obj, idx)
        if isinstance(obj, str):
            if isinstance(idx, slice):
                return obj[self._slice(idx, len(obj))]
            k = self.concretize_index(idx, len(obj))
            try:
                return obj[k]
            except IndexError:
                raise_('IndexError', 'string index out of range')
        if isinstance(obj, NDArr):
            return self.models.nd_getitem(self, obj, idx)
        if type(obj).__name__ == 'SStr':
            from . import sstr
            if isinstance(idx, slice):
                if isinstance(idx.start, Sym) and idx.stop is None and \
                        idx.step is None:
                    return sstr.slice_sym(obj, idx.start, self)
                sl = self._slice(idx, 0)
                if sl.step not in (None, 1):
                    raise Unsupported('extended slice of structured string')
                return sstr.slice_(obj, sl.start, sl.stop, self.ops)
            n = obj.concrete_len()
            if n is None:
                raise Unsupported('index into symbolic-length string')
            return sstr.char_at(obj, self.concretize_index(idx, n), self.ops)
        if hasattr(obj, 'sym_getitem'):
            return obj.sym_getitem(idx, self)
        if isinstance(obj, Obj):
            f, _ = obj.cls.lookup('__getitem__')
            if f is not None:
                return self.call(BoundMethod(obj, f), [idx], {})
            raise_('TypeError', "'%s' object is not subscriptable"
                   % obj.cls.name)
        if obj is None:
            raise_('TypeError', "'NoneType' object is not subscriptable")
        if isinstance(obj, range):
            return obj[self.concretize_index(idx, len(obj))]
        raise Unsupported('subscript of %r' % type(obj))

    def dict_get(self, d, key):
        if type(key).__name__ == 'SStr' or any(
                type(k).__name__ == 'SStr' for k in d):
            for k in list(d.keys()):
                if isinstance(k, str) or type(k).__name__ == 'SStr':
                    if not (isinstance(key, str) or
                            type(key).__name__ == 'SStr'):
                        continue
                    e = self.ops.equals(k, key)
                    if self.ctx.branch(e) if isinstance(e, Sym) else e:
                        return d[k]
                elif k == key:
                    return d[k]
            raise_('KeyError', key)
        if isinstance(key, Sym):
            for k in list(d.keys()):
                e = self.ops.equals(k, key)
                if self.ctx.branch(e) if isinstance(e, Sym) else e:
                    return d[k]
            raise_('KeyError', key)
        hk = _hk(key)
        try:
            if hk in d:
                return d[hk]
        except TypeError:
            raise_('TypeError', 'unhashable key')
        for k in d:
            if isinstance(k, Sym):
                e = self.ops.equals(k, key)
                if self.ctx.branch(e) if isinstance(e, Sym) else e:
                    return d[k]
        raise_('KeyError', key)

    def setitem(self, obj, idx, v):
        self.mutlog.append(obj)
        if isinstance(obj, list):
            if isinstance(idx, slice):
                obj[self._slice(idx, len(obj))] = list(self.iterate(v))
                return
            k = self.concretize_index(idx, len(obj))
            try:
                obj[k] = v
            except IndexError:
                raise_('IndexError', 'list assignment index out of range')
            return
        if isinstance(obj, dict) and type(idx).__name__ == 'SStr':
            # structured-string keys are stored by identity; an existing key
            # that is (symbolically) equal is overwritten
            for k in list(obj.keys()):
                if isinstance(k, str) or type(k).__name__ == 'SStr':
                    e = self.ops.equals(k, idx)
                    if self.ctx.branch(e) if isinstance(e, Sym) else e:
                        obj[k] = v
                        return
            obj[idx] = v
            return
        if isinstance(obj, dict):
            if isinstance(idx, Sym):
                for k in list(obj.keys()):
                    e = self.ops.equals(k, idx)
                    if self.ctx.branch(e) if isinstance(e, Sym) else e:
                        obj[k] = v
                        return
                obj[idx] = v
                return
            obj[_hk(idx)] = v
            return
        if isinstance(obj, NDArr):
            return self.models.nd_setitem(self, obj, idx, v)
        if hasattr(obj, 'sym_setitem'):
            return obj.sym_setitem(idx, v, self)
        if isinstance(obj, tuple):
            raise_('TypeError', "'tuple' object does not support item "
                   "assignment")
        raise Unsupported('item assignment on %r' % type(obj))

    def delitem(self, obj, idx):
        self.mutlog.append(obj)
        if isinstance(obj, dict):
            hk = _hk(idx)
            if hk in obj:
                del obj[hk]
                return
            raise_('KeyError', idx)
        if isinstance(obj, list):
            if isinstance(idx, slice):
                del obj[self._slice(idx, len(obj))]
                return
            k = self.concretize_index(idx, len(obj))
            del obj[k]
            return
        if hasattr(obj, 'sym_delitem'):
            return obj.sym_delitem(idx, self)
        raise Unsupported('del item on %r' % type(obj))

    # ------------------------------------------------------------ expressions
    def eval(self, node, env):
        m = getattr(self, 'ex_' + type(node).__name__, None)
        if m is None:
            raise Unsupported('expression %s (line %s)'
                              % (type(node).__name__,
                                 getattr(node, 'lineno', '?')))
        return m(node, env)

    def ex_Constant(self, node, env):
        v = node.value
        if isinstance(v, float):
            return to_frac(v)
        if isinstance(v, complex):
            raise Unsupported('complex literal')
        return v

    def ex_Name(self, node, env):
        found, v = env.lookup(node.id)
        if found:
            return v
        mod = env.module
        if mod is not None and mod.has(node.id):
            return self.models.resolve_const(self, mod.get(node.id))
        if node.id in self.builtins:
            return self.builtins[node.id]
        if env.func is not None and _assigned_in(env.func.node, node.id):
            raise_('UnboundLocalError', "local variable '%s' referenced "
                   "before assignment" % node.id)
        raise_('NameError', "name '%s' is not defined" % node.id)

    def ex_JoinedStr(self, node, env):
        # f'...{x!c:spec}...' == '...{0!c:spec}...'.format(x): one semantics
        # for both spellings
        fmt = ''
        args = []
        for v in node.values:
            if isinstance(v, ast.Constant):
                fmt += v.value.replace('{', '{{').replace('}', '}}')
                continue
            x = self.eval(v.value, env)
            spec = ''
            if v.format_spec is not None:
                spec = self.eval(v.format_spec, env)
            if not isinstance(spec, str):
                return self.models.OpaqueStr('fstring')
            conv = {-1: '', ord('r'): '!r', ord('s'): '!s',
                    ord('a'): '!a'}.get(v.conversion, '')
            fmt += '{%d%s%s}' % (len(args), conv,
                                 (':' + spec.replace('{', '{{').replace('}', '}}')) if spec else '')
            args.append(x)
        return self.models.str_format(self, fmt, args, {})

    def ex_Tuple(self, node, env):
        return tuple(self._elts(node.elts, env))

    def ex_List(self, node, env):
        return self._elts(node.elts, env)

    def ex_Set(self, node, env):
        return set(_hk(x) for x in self._elts(node.elts, env))

    def _elts(self, elts, env):
        out = []
        for e in elts:
            if isinstance(e, ast.Starred):
                out.extend(self.iterate(self.eval(e.value, env)))
            else:
                out.append(self.eval(e, env))
        return out

    def ex_Dict(self, node, env):
        d = {}
        for k, v in zip(node.keys, node.values):
            if k is None:
                src = self.eval(v, env)
                for kk in self.iterate(src):
                    d[kk] = self.getitem(src, kk)
            else:
                kv = self.eval(k, env)
                d[_hk(kv)] = self.eval(v, env)
        return d

    def ex_BinOp(self, node, env):
        a = self.eval(node.left, env)
        b = self.eval(node.right, env)
        if isinstance(a, str) and isinstance(node.op, ast.Mod):
            return self.models.str_percent(self, a, b)
        return self.ops.binop(node.op, a, b)

    def ex_UnaryOp(self, node, env):
        return self.ops.unary(node.op, self.eval(node.operand, env))

    def _formula_scope(self, env):
        m = env.module
        return m is not None and m.name.startswith(('spec', '<contract>'))

    def ex_BoolOp(self, node, env):
        isand = isinstance(node.op, ast.And)
        if self._formula_scope(env):
            return self._boolop_formula(node, env, isand)
        n = len(node.values)
        for i, e in enumerate(node.values):
            v = self.eval(e, env)
            if i == n - 1:
                return v
            t = self.ops.truth(v)
            if isand != t:
                # short-circuit: `and` on a falsy value / `or` on a truthy one
                if isinstance(v, Sym) and v.kind == 'bool':
                    return t
                return v
        return None

    def _boolop_formula(self, node, env, isand):
        """spec / clause code: build And / Or formulas instead of forking;
        later operands are evaluated under the earlier ones (guards)"""
        ctx = self.ctx
        terms = []
        n0 = len(ctx.pc)
        depth0 = ctx.temp_depth
        try:
            for e in node.values:
                v = self.eval(e, env)
                t = self.ops.truth_value(v)
                if isinstance(t, NDArr):
                    t = self.ops.all_(_flatten(t.data))
                if isinstance(t, bool):
                    if isand and not t:
                        return False
                    if not isand and t:
                        return True
                    continue
                terms.append(t.t)
                g = t.t if isand else z3.Not(t.t)
                if not ctx.feasible(g):
                    # the rest is unreachable: (and) t is false here / (or)
                    # t is true here
                    break
                ctx.pc.append(g)
                ctx.temp_depth += 1
        finally:
            del ctx.pc[n0:]
            ctx.temp_depth = depth0
        if not terms:
            return isand
        if len(terms) == 1:
            return mk(terms[0])
        return mk(z3.And(*terms) if isand else z3.Or(*terms))

    def ex_Compare(self, node, env):
        left = self.eval(node.left, env)
        res = True
        for op, cn in zip(node.ops, node.comparators):
            right = self.eval(cn, env)
            r = self.ops.compare(op, left, right)
            if len(node.ops) == 1:
                return r
            if isinstance(r, NDArr):
                raise Unsupported('chained array comparison')
            if not self.ops.truth(r):
                return False
            left = right
        return res

    def ex_IfExp(self, node, env):
        c = self.eval(node.test, env)
        if self._formula_scope(env):
            t = self.ops.truth_value(c)
            if isinstance(t, Sym):
                ctx = self.ctx
                can_t = ctx.feasible(t.t)
                can_f = ctx.feasible(z3.Not(t.t))
                if can_t and not can_f:
                    return self.eval(node.body, env)
                if can_f and not can_t:
                    return self.eval(node.orelse, env)
                with ctx.assuming(t.t):
                    a = self.eval(node.body, env)
                with ctx.assuming(z3.Not(t.t)):
                    b = self.eval(node.orelse, env)
                if (is_num(a) or isinstance(a, (bool, Sym))) and \
                        (is_num(b) or isinstance(b, (bool, Sym))):
                    return self.ops.ite(t, a, b)
                if a is b:
                    return a
                raise Unsupported('conditional expression over non-scalars '
                                  'in a clause')
            return self.eval(node.body if t else node.orelse, env)
        if self.ops.truth(c):
            return self.eval(node.body, env)
        return self.eval(node.orelse, env)

    def ex_Lambda(self, node, env):
        return FuncV(node, env.module, closure=env, name='<lambda>')

    def ex_Attribute(self, node, env):
        return self.getattr(self.eval(node.value, env), node.attr)

    def ex_Subscript(self, node, env):
        obj = self.eval(node.value, env)
        return self.getitem(obj, self.eval_index(node.slice, env))

    def ex_Yield(self, node, env):
        e = env
        while e is not None and '$yield' not in e.vars:
            e = e.parent
        if e is None:
            raise Unsupported('yield outside generator')
        e.vars['$yield'].append(self.eval(node.value, env)
                                if node.value else None)
        return None

    def ex_YieldFrom(self, node, env):
        e = env
        while e is not None and '$yield' not in e.vars:
            e = e.parent
        if e is None:
            raise Unsupported('yield from outside generator')
        e.vars['$yield'].extend(self.iterate(self.eval(node.value, env)))
        return None

    def ex_Starred(self, node, env):
        raise Unsupported('starred expression')

    def ex_Call(self, node, env):
        # special forms of the contract language
        if isinstance(node.func, ast.Name):
            sf = getattr(self, 'special_forms', {}).get(node.func.id)
            if sf is not None and not env.lookup(node.func.id)[0] and (
                    env.module is None or env.module.name.startswith(
                        ('spec', '<contract>'))):
                return sf(self, node, env)
            if node.func.id == 'super' and not node.args:
                fn = env
                while fn is not None and (fn.func is None or
                                          fn.func.cls is None):
                    fn = fn.parent
                if fn is None:
                    raise Unsupported('super() outside method')
                first = fn.func.node.args.args[0].arg
                return SuperV(fn.func.cls, fn.vars[first])
            if node.func.id == 'locals' and not node.args:
                return dict((k, v) for k, v in env.vars.items()
                            if not k.startswith('$'))
        f = self.eval(node.func, env)
        args = []
        for a in node.args:
            if isinstance(a, ast.Starred):
                args.extend(self.iterate(self.eval(a.value, env)))
            else:
                args.append(self.eval(a, env))
        kwargs = {}
        for k in node.keywords:
            if k.arg is None:
                d = self.eval(k.value, env)
                self.models.merge_kwargs(self, kwargs, d)
            else:
                if k.arg in kwargs:
                    raise_('TypeError', 'multiple values for keyword '
                           "argument '%s'" % k.arg)
                kwargs[k.arg] = self.eval(k.value, env)
        self.cur_line = getattr(node, 'lineno', None)
        return self.call(f, args, kwargs)

    def _comp(self, gens, env, emit, first_iter=UNBOUND):
        def rec(i, e):
            if i == len(gens):
                emit(e)
                return
            g = gens[i]
            src = first_iter if (i == 0 and first_iter is not UNBOUND) \
                else self.eval(g.iter, e)
            for x in self.iterate(src):
                self.assign(g.target, x, e)
                ok = True
                for c in g.ifs:
                    if not self.ops.truth(self.eval(c, e)):
                        ok = False
                        break
                if ok:
                    rec(i + 1, e)
        cenv = Env(env.module, parent=env, func=env.func)
        rec(0, cenv)

    def ex_ListComp(self, node, env):
        # the outermost iterable is evaluated exactly once, in the enclosing
        # scope (python semantics; it may have side effects such as pop())
        it = self.eval(node.generators[0].iter, env)
        if len(node.generators) == 1:
            if isinstance(it, GenArr) and not node.generators[0].ifs:
                g = node.generators[0]

                def elem(i, it=it, g=g):
                    cenv = Env(env.module, parent=env, func=env.func)
                    self.assign(g.target, it.elem(i), cenv)
                    return self.eval(node.elt, cenv)
                return GenArr(it.n, elem)
        out = []
        self._comp(node.generators, env,
                   lambda e: out.append(self.eval(node.elt, e)), it)
        return out

    def ex_GeneratorExp(self, node, env):
        # evaluated eagerly (pMuTT's generator expressions are pure), but the
        # value is a one-shot iterator: next(), partial consumption and
        # exhaustion behave as in Python
        return self.models._Iter(self.ex_ListComp(node, env))

    def ex_SetComp(self, node, env):
        out = set()
        self._comp(node.generators, env,
                   lambda e: out.add(_hk(self.eval(node.elt, e))))
        return out

    def ex_DictComp(self, node, env):
        out = {}

        def emit(e):
            k = self.eval(node.key, e)
            out[_hk(k)] = self.eval(node.value, e)
        self._comp(node.generators, env, emit)
        return out


def _live_list(lst):
    """iterate a list the way CPython does (sees appends during the loop)"""
    i = 0
    while i < len(lst):
        yield lst[i]
        i += 1


_gen_cache = {}


def _is_generator(fnode):
    key = id(fnode)
    if key not in _gen_cache:
        found = False
        stack = list(fnode.body)
        while stack:
            n = stack.pop()
            if isinstance(n, (ast.Yield, ast.YieldFrom)):
                found = True
                break
            if isinstance(n, (ast.FunctionDef, ast.Lambda, ast.ClassDef)):
                continue
            stack.extend(ast.iter_child_nodes(n))
        _gen_cache[key] = found
    return _gen_cache[key]


_assigned_cache = {}


def _assigned_in(fnode, name):
    key = id(fnode)
    if key not in _assigned_cache:
        names = set()
        for n in ast.walk(fnode):
            if isinstance(n, ast.Name) and isinstance(n.ctx, ast.Store):
                names.add(n.id)
        _assigned_cache[key] = names
    return name in _assigned_cache[key]


def models_TypeV():
    from .models import TypeV
    return TypeV
