"""Verification engine: contracts -> paths -> obligations -> verdicts."""
import ast
import itertools
import json
import os
import random
import subprocess
import time
import traceback
import z3
from fractions import Fraction

from .values import (Sym, NDArr, GenArr, SumV, Obj, Opaque, Unsupported,
                     PyRaise, ExcObj, mk, z3bool, z3real, is_num,
                     is_concrete_num)
from .ctx import Ctx, PathAbort, check_sat, STATS
from .interp import Interp, Env, UNBOUND, VERIF_ROOT, REPO_ROOT
from .models import deep_copy
from . import terms
from .dsl import Builder, Contract, Lemma

NATIVE_PY = os.environ.get('PVC_NATIVE_PY', '/venv/bin/python')
MAX_PATHS = 400
EXPLORE_BUDGET_S = 240


class Obligation:
    def __init__(self, name, prop, clause=None):
        self.name = name
        self.prop = prop
        self.clause = clause
        self.status = None       # discharged|violation|undecided|unreach|bounded
        self.paths = 0
        self.queries = 0
        self.seconds = 0.0
        self.backend = 'z3'
        self.detail = None
        self.model = None        # leaf assignment (counterexample)
        self.exact = True        # VC without abstracted atoms
        self.replay = None
        self.kind = 'post'

    def to_json(self):
        d = {'name': self.name, 'status': self.status, 'paths': self.paths,
             'queries': self.queries, 'seconds': round(self.seconds, 4),
             'backend': self.backend}
        if self.clause:
            d['clause'] = self.clause
        if self.detail:
            d['detail'] = self.detail
        if self.model is not None:
            d['counterexample'] = self.model
        return d


class PathResult:
    pass


def _special_forms():
    def sf_old(interp, node, env):
        pre = env.lookup('$pre_env')[1]
        return interp.eval(node.args[0], pre)

    def sf_D(interp, node, env):
        val = interp.eval(node.args[0], env)
        var = interp.eval(node.args[1], env)
        if not isinstance(var, Sym):
            raise Unsupported('D(): variable is not symbolic')
        return deriv(interp, val, var)

    def sf_implies(interp, node, env):
        a = interp.ops.truth_value(interp.eval(node.args[0], env))
        if a is False:
            return True
        if a is True:
            return interp.ops.truth_value(interp.eval(node.args[1], env))
        ctx = interp.ctx
        if not ctx.feasible(a.t):
            return True
        # evaluate the consequent under the antecedent
        with ctx.assuming(a.t):
            b = interp.ops.truth_value(interp.eval(node.args[1], env))
        if isinstance(b, bool):
            return True if b else mk(z3.Not(a.t))
        return mk(z3.Implies(a.t, b.t))

    def sf_eq(interp, node, env):
        a = interp.eval(node.args[0], env)
        b = interp.eval(node.args[1], env)
        return interp.ops.equals(a, b)

    return {'old': sf_old, 'D': sf_D, 'implies': sf_implies, 'eq': sf_eq}


def deriv(interp, val, var):
    at = interp.ctx.atoms
    if isinstance(val, (int, Fraction)):
        return Fraction(0)
    if isinstance(val, Sym):
        return mk(z3.simplify(terms.ddx(val.t, var.t, at)))
    if isinstance(val, NDArr):
        from .ops import map_arr
        return NDArr(map_arr(lambda e: deriv(interp, e, var), val.data))
    if isinstance(val, SumV):
        if val.kind != 'sum':
            raise Unsupported('D of product')
        return SumV(val.n, lambda i: deriv(interp, val.body(i), var),
                    deriv(interp, val.c, var))
    raise Unsupported('D of %r' % type(val))


def clause_env_module(interp):
    """names visible to contract clauses"""
    from .values import Builtin
    import z3 as _z3
    from .models import _elementwise, _exp, _log, _sqrt, resolve_const, PiV
    tab = {
        'spec': interp.load_module('spec'),
        'np': interp.load_module('numpy'),
        'const': interp.load_module('pmutt.constants'),
        'pm': interp.load_module('pmutt'),
        'log': Builtin('log', _elementwise(_log), pass_interp=True),
        'exp': Builtin('exp', _elementwise(_exp), pass_interp=True),
        'sqrt': Builtin('sqrt', _elementwise(_sqrt), pass_interp=True),
        'at': Builtin('at', lambda it, r, i: it.getitem(r, i)
                      if isinstance(r, (NDArr, list, tuple, GenArr))
                      else r, pass_interp=True),
        'integral': Builtin('integral', lambda it, f, a, b:
                            __import__('pvc.models', fromlist=['x'])
                            .integral_model(it, f, a, b), pass_interp=True),
        'ext_call': Builtin('ext_call', lambda it, name, k=-1: [
            c for c in it.ext_calls if c[0] == name][k][1], pass_interp=True),
        'cell': Builtin('cell', lambda it, io, i, j: io.rows[i][j],
                        pass_interp=True),
        'isclose': Builtin('isclose', lambda it, a, b, tol=None:
                           it.ops.equals(a, b), pass_interp=True),
    }
    return tab


class ClauseModule:
    """pseudo module used as the global scope of clauses"""
    name = '<contract>'
    path = '<contract>'

    def __init__(self, interp):
        self.interp = interp
        self.tab = clause_env_module(interp)

    def has(self, name):
        return name in self.tab or name == 'pi'

    def get(self, name):
        if name == 'pi':
            from .models import PiV
            return PiV()
        return self.tab[name]


def eval_clause(interp, text, env):
    node = ast.parse(text.strip(), mode='eval').body
    interp.special_forms = _special_forms()
    try:
        return interp.eval(node, env)
    finally:
        interp.special_forms = {}


def shape_configs(shapes):
    if not shapes:
        return [{}]
    keys = list(shapes)
    return [dict(zip(keys, vals))
            for vals in itertools.product(*[shapes[k] for k in keys])]


def cfg_label(cfg):
    if not cfg:
        return ''
    return '[' + ','.join('%s=%s' % (k, v) for k, v in cfg.items()) + ']'


# ------------------------------------------------------------------ running

class Engine:
    def __init__(self, prop, tier='quick', seed=0):
        self.prop = prop
        self.tier = tier
        self.seed = seed
        self.obligations = []
        self.functions = {}        # qualname -> info
        self.cross = {'samples': 0, 'disagreements': 0, 'functions': 0,
                      'skipped': []}
        self.native_calls = 0
        self.trusted = set()
        self.errors = []
        self.interp = None
        self.samples_out = []
        self.pending_cross = []
        self.modular = []
        self.modular_used = set()
        self.native_clause_failures = []
        self.native_valid = {}
        self.float_noise = []
        self.history_skipped = []

    # ------------------------------------------------------------ helpers
    def new_interp(self):
        # one interpreter per engine: parsed modules and evaluated module
        # level literals are shared between contracts (they are immutable
        # tables); every path gets a fresh Ctx
        if self.interp is None:
            self.interp = Interp(Ctx())
        it = self.interp
        it.contracts = {}
        return it

    def explore(self, it, run):
        """run(ctx) for every feasible path; returns list of PathResult"""
        work = [[]]
        out = []
        n = 0
        # wall-clock budget of one exploration: code that makes the symbolic
        # execution crawl (e.g. a data-dependent loop over solver-heavy
        # branches) is handed to the bounded stand-in instead of hanging
        deadline = time.time() + (EXPLORE_BUDGET_S if self.tier == 'quick' else 4 * EXPLORE_BUDGET_S)
        while work:
            prefix = work.pop()
            ctx = Ctx(prefix)
            ctx.deadline = deadline
            it.set_ctx(ctx)
            n += 1
            if n > MAX_PATHS:
                raise Unsupported('more than %d paths' % MAX_PATHS)
            if time.time() > deadline:
                raise Unsupported('exploration time budget exceeded')
            try:
                pr = run(ctx)
            except PathAbort:
                work.extend(ctx.pending)
                continue
            work.extend(ctx.pending)
            if pr is not None:
                out.append(pr)
        return out

    def _ghosts_of(self, c, specs):
        """names of the ghost inputs of contract c (not handed to the
        function under contract): a property of the contract, not of the
        engine's current position - triage runs after other contracts"""
        g = getattr(c, 'ghost', None) or {}
        if callable(g):
            import inspect
            try:
                g = g(**{k: 1 for k in inspect.signature(g).parameters})
            except Exception:
                return set(getattr(self, '_ghosts', ()))
        return set(k for k in g if k in specs)

    def arg_specs(self, c, cfg):
        a = c.args if isinstance(c, Contract) else c.forall
        a = dict(a(**cfg) if callable(a) else a)
        g = getattr(c, 'ghost', None) or {}
        g = dict(g(**cfg) if callable(g) else g)
        self._ghosts = set(g)
        # ghosts are built first (arguments may be computed from them)
        for k, v in a.items():
            g[k] = v
        return g

    # ------------------------------------------------------------ contract
    def verify(self, c):
        shapes = c.shapes
        if self.tier == 'thorough' and c.shapes_thorough:
            shapes = c.shapes_thorough
        for cfg in shape_configs(shapes):
            try:
                if getattr(c, 'native_only', False):
                    raise Unsupported('declared bounded (size beyond the symbolic budget)')
                if os.environ.get('PVC_STANDIN_ONLY'):
                    # diagnostic mode (tools/standin_audit.py): behave as if
                    # the code had left the modelled subset, to see what the
                    # native stand-in alone would report on this tree
                    raise Unsupported('stand-in audit')
                if isinstance(c, Contract):
                    self._verify_contract(c, cfg)
                else:
                    self._verify_lemma(c, cfg)
            except Unsupported as e:
                ob = Obligation('%s:%s%s:reach' % (c.prop, c.name,
                                                   cfg_label(cfg)), c.prop)
                ob.status = 'unreach'
                ob.detail = 'outside modelled subset: %s' % e
                self.obligations.append(ob)
                # bounded stand-in: the same clauses are checked natively on
                # seeded samples of the precondition domain (never counted
                # as proved; a failing sample is a replayed violation)
                try:
                    specs = self.arg_specs(c, cfg)
                    self._cross_check(c, cfg, specs, [], None,
                                      native_only=True)
                except Exception as e2:
                    self.cross['skipped'].append(
                        'stand-in for %s: %s: %s' % (c.name, type(e2).__name__, str(e2)[:100]))
            except Exception as e:
                self.errors.append('%s%s: %s\n%s' % (
                    c.name, cfg_label(cfg), e, traceback.format_exc()))

    def _symbolic_run(self, it, c, specs, ctx):
        """one path: returns PathResult"""
        B = Builder(it)
        cmod = ClauseModule(it)
        env = Env(cmod)
        args = {}
        B.built = args
        opts = getattr(c, 'options', None) or {}
        it.concrete_number_lengths = bool(opts.get('concrete_number_lengths'))
        it.plain_real_text = bool(opts.get('plain_real_text'))
        for nm, sp in specs.items():
            if getattr(sp, 'computed', False):
                continue
            try:
                args[nm] = sp.sym(B, nm)
            except PyRaise as e:
                raise Unsupported('constructing the input %r raised %r'
                                  % (nm, e.exc))
            env.vars[nm] = args[nm]
        # leaves from constructors count as inputs; side obligations raised
        # while building inputs are preconditions of the constructors
        ctx.side = []
        npc = len(ctx.pc)
        reqs = list(c.requires if isinstance(c, Contract) else c.given)
        deferred = []
        has_computed = any(getattr(sp, 'computed', False)
                           for sp in specs.values())
        for r in reqs:
            if has_computed:
                try:
                    v = it.ops.truth_value(eval_clause(it, r, env))
                except PyRaise as e:
                    if e.exc.cls.isa('NameError'):
                        deferred.append(r)
                        continue
                    raise
            else:
                v = it.ops.truth_value(eval_clause(it, r, env))
            ctx.assume(v)
        req_terms = list(ctx.pc[npc:])
        # arguments computed from the others (e.g. a file produced by the
        # real writer) are built under the preconditions of the others
        ordered = {}
        for nm, sp in specs.items():
            if getattr(sp, 'computed', False):
                args[nm] = sp.sym(B, nm)
                env.vars[nm] = args[nm]
        if has_computed:
            # keep declaration order of the arguments
            ordered = {nm: args[nm] for nm in specs}
            args.clear()
            args.update(ordered)
            ctx.side = []
        npc2 = len(ctx.pc)
        for r in deferred:
            v = it.ops.truth_value(eval_clause(it, r, env))
            ctx.assume(v)
        req_terms += list(ctx.pc[npc2:])
        self._requires_terms = list(B.assumptions) + req_terms
        pr = PathResult()
        pr.ctx = ctx
        pr.leaves = B.leaves
        pr.seq_leaves = B.seq_leaves
        pr.stubs = B.stubs
        pr.args = args
        pr.env = env
        pr.cmod = cmod
        return pr, B

    def _warm_call(self, it, c, specs, pr, B, fv, ghosts, ctx):
        wargs = {}
        for nm, sp in specs.items():
            if nm in ghosts or nm == 'self' or getattr(sp, 'computed', False):
                continue
            try:
                wargs[nm] = sp.sym(B, 'w$' + nm)
            except PyRaise as e:
                raise Unsupported('constructing the earlier input %r raised %r' % (nm, e.exc))
        wenv = Env(pr.cmod)
        wenv.vars.update(pr.env.vars)
        wenv.vars.update(wargs)
        for r in c.requires:
            ctx.assume(it.ops.truth_value(eval_clause(it, r, wenv)))
        if not ctx.feasible(z3.BoolVal(True)):
            raise PathAbort()
        call_args = {k: wargs.get(k, v) for k, v in pr.args.items() if k not in ghosts}
        target = fv
        try:
            if 'self' in call_args and hasattr(fv, 'cls') and fv.cls is not None:
                from .values import BoundMethod
                target = BoundMethod(call_args.pop('self'), fv)
            extra = call_args.pop('__kwargs__', None)
            if extra:
                call_args.update(extra)
            it.call(target, [], call_args)
        except PyRaise:
            pass
        # side conditions, recorded external calls and events of the earlier
        # call do not belong to the call under contract
        ctx.side = []
        it.ext_calls = []
        # the precondition of the call under contract holds in the state the
        # earlier call left behind
        for r in c.requires:
            ctx.assume(it.ops.truth_value(eval_clause(it, r, pr.env)))
        if not ctx.feasible(z3.BoolVal(True)):
            raise PathAbort()

    # ------------------------------------------------------------ modular
    def install_modular(self, it, current):
        """calls to functions that have a `modular=True` contract are checked
        against that contract (precondition asserted, result havocked and
        constrained by the postcondition) instead of being inlined"""
        for m in self.modular:
            if m is current or m.target == getattr(current, 'target', None):
                continue
            it.contracts[m.target] = self._make_hook(m)

    def _make_hook(self, m):
        eng = self

        def hook(it, fv, args, kwargs):
            ctx = it.ctx
            env = it.bind_args(fv, args, kwargs)
            cmod = ClauseModule(it)
            cenv = Env(cmod)
            cenv.vars.update(env.vars)
            ctx.modular_n = getattr(ctx, 'modular_n', 0) + 1
            tag = '%s!call%d' % (fv.name, ctx.modular_n)
            for r in m.requires:
                v = it.ops.truth_value(eval_clause(it, r, cenv))
                if v is True:
                    continue
                cond = z3.BoolVal(False) if v is False else v.t
                ctx.side.append(('call:%s:pre' % fv.name, cond, list(ctx.pc)))
            B = Builder(it)
            res = m.returns.sym(B, tag)
            cenv.vars['result'] = res
            for (_lb, text) in m.ensures:
                v = it.ops.truth_value(eval_clause(it, text, cenv))
                ctx.assume(v)
            eng.modular_used.add(m.target)
            return res
        return hook

    def _verify_contract(self, c, cfg):
        it = self.new_interp()
        self.install_modular(it, c)
        specs = self.arg_specs(c, cfg)
        lab = cfg_label(cfg)
        base = '%s:%s%s' % (c.prop, c.name, lab)
        t0 = time.time()
        fv = it.resolve(c.target)
        self._record_function(it, c.target, fv)
        ghosts = set(self._ghosts)

        def run(ctx, warm=False):
            pr, B = self._symbolic_run(it, c, specs, ctx)
            if not ctx.feasible(z3.BoolVal(True)):
                raise PathAbort()
            n_events = 0
            if warm:
                # history variant: the same function has been called before
                # with other, independent arguments (same receiver, same
                # shared objects); the contract must still hold
                self._warm_call(it, c, specs, pr, B, fv, ghosts, ctx)
                n_events = len(ctx.events)
            pre_env = Env(pr.cmod)
            memo = {}
            for nm, v in pr.args.items():
                pre_env.vars[nm] = deep_copy(it, v, memo)
            pr.env.vars['$pre_env'] = pre_env
            call_args = {k: v for k, v in pr.args.items()
                         if k not in ghosts}
            target = fv
            try:
                if 'self' in call_args and hasattr(fv, 'cls') and \
                        fv.cls is not None:
                    recv = call_args.pop('self')
                    from .values import BoundMethod
                    target = BoundMethod(recv, fv)
                extra = call_args.pop('__kwargs__', None)
                if extra:
                    call_args.update(extra)
                res = it.call(target, [], call_args)
                pr.outcome = 'return'
                pr.result = res
            except PyRaise as e:
                pr.outcome = 'raise:' + e.exc.cls.name
                pr.result = None
                pr.exc = e.exc
            pr.warned = any(ev.kind == 'warn' for ev in ctx.events[n_events:])
            pr.env.vars['result'] = pr.result
            pr.env.vars['warned'] = pr.warned
            pr.side = list(ctx.side)
            pr.goals = []      # (obligation label, kind, z3 bool or bool)
            ctx.goal_mode = True
            try:
                if pr.outcome == 'return':
                    for (lb, text) in c.ensures:
                        try:
                            g = eval_clause(it, text, pr.env)
                            if isinstance(g, NDArr):
                                from .ops import _flatten
                                g = it.ops.all_(_flatten(g.data))
                            g = it.ops.truth_value(g)
                        except PyRaise as e:
                            g = ('error', 'clause raised %r' % (e.exc,))
                        except Unsupported as e:
                            g = ('unsup', str(e))
                        pr.goals.append((lb, 'post', g, text))
                    for exc, cond in c.raises.items():
                        g = it.ops.truth_value(eval_clause(
                            it, cond, pre_env_with(pre_env)))
                        g = (not g) if isinstance(g, bool) else \
                            mk(z3.Not(g.t))
                        pr.goals.append(('raises:%s:only-if' % exc, 'raises',
                                         g, 'not (%s)' % cond))
                else:
                    exc = pr.outcome.split(':', 1)[1]
                    if exc in c.raises:
                        g = it.ops.truth_value(eval_clause(
                            it, c.raises[exc], pre_env_with(pre_env)))
                        pr.goals.append(('raises:%s:if' % exc, 'raises', g,
                                         c.raises[exc]))
                    elif exc not in c.may_raise:
                        pr.goals.append(('no-unlisted-exception', 'raises',
                                         False, 'outcome == "return"'))
                if c.warns is not None:
                    g = it.ops.truth_value(eval_clause(
                        it, c.warns, pre_env_with(pre_env)))
                    if pr.warned:
                        pr.goals.append(('warns:if', 'warns', g, c.warns))
                    else:
                        g = (not g) if isinstance(g, bool) else \
                            mk(z3.Not(g.t))
                        pr.goals.append(('warns:only-if', 'warns', g,
                                         'not (%s)' % c.warns))
            finally:
                ctx.goal_mode = False
            return pr

        def pre_env_with(pre_env):
            return pre_env

        paths = self.explore(it, run)
        self._discharge(c, cfg, base, specs, paths, it)
        info = self.functions.get(c.target)
        if info is not None:
            info['paths'] = info.get('paths', 0) + len(paths)
        if c.cross_check and paths:
            self._cross_check(c, cfg, specs, paths, it)
        opts = getattr(c, 'options', None) or {}
        limit = 3 if self.tier == 'quick' else 12      # the variant explores (paths of one call)^2 paths
        if paths and len(paths) <= opts.get('history_paths', limit) and opts.get('history', True) \
                and not c.target.endswith('.__init__') \
                and any(n != 'self' and n not in ghosts and not getattr(sp, 'computed', False)
                        and sp.leaf_names('w$' + n) for n, sp in specs.items()):
            try:
                wpaths = self.explore(it, lambda ctx: run(ctx, True))
            except (Unsupported, PathAbort) as e:
                self.history_skipped.append('%s%s: %s' % (c.name, lab, str(e)[:80]))
                wpaths = []
            if wpaths:
                self._discharge(c, cfg, base + ':after-another-call', specs, wpaths, it, goals_only=True)

    def _verify_lemma(self, l, cfg):
        it = self.new_interp()
        specs = self.arg_specs(l, cfg)
        base = '%s:lemma:%s%s' % (l.prop, l.name, cfg_label(cfg))

        def run(ctx):
            pr, B = self._symbolic_run(it, l, specs, ctx)
            if not ctx.feasible(z3.BoolVal(True)):
                raise PathAbort()
            pr.outcome = 'return'
            pr.result = None
            pr.warned = False
            pr.goals = []
            ctx.goal_mode = True
            try:
                for (lb, text) in l.prove:
                    try:
                        g = eval_clause(it, text, pr.env)
                        if isinstance(g, NDArr):
                            from .ops import _flatten
                            g = it.ops.all_(_flatten(g.data))
                        g = it.ops.truth_value(g)
                    except PyRaise as e:
                        g = ('error', 'clause raised %r' % (e.exc,))
                    pr.goals.append((lb, 'lemma', g, text))
            finally:
                ctx.goal_mode = False
            pr.side = list(ctx.side)
            return pr

        paths = self.explore(it, run)
        self._discharge(l, cfg, base, specs, paths, it)

    # ------------------------------------------------------------ discharge
    def _discharge(self, c, cfg, base, specs, paths, it, goals_only=False):
        if goals_only:
            return self._discharge_goals(c, cfg, base, specs, paths, it, True)
        # vacuity guard
        cov = Obligation(base + ':pre:cover', c.prop)
        cov.kind = 'cover'
        if not paths:
            cov.status = 'violation-vacuous'
            cov.detail = 'precondition admits no path'
        else:
            r, _ = check_sat(paths[0].ctx.all_constraints(), 5000)
            cov.queries = 1
            cov.paths = len(paths)
            cov.status = 'discharged' if r == 'sat' else (
                'undecided' if r == 'unknown' else 'violation-vacuous')
        self.obligations.append(cov)
        if not paths:
            return
        self._path_completeness(c, base, paths)
        self._discharge_goals(c, cfg, base, specs, paths, it, False)

    def _discharge_goals(self, c, cfg, base, specs, paths, it, warm):
        # group goals by label
        by_label = {}
        for pi, pr in enumerate(paths):
            for (lb, kind, g, text) in pr.goals:
                by_label.setdefault(lb, []).append((pi, pr, kind, g, text))
        isc = isinstance(c, Contract)
        for lb, items in by_label.items():
            ob = Obligation('%s:%s' % (base, lb), c.prop, items[0][4])
            ob.kind = items[0][2]
            ob.paths = len(items)
            ob.status = 'discharged'
            for (pi, pr, kind, g, text) in items:
                if isinstance(g, tuple):
                    if g[0] == 'unsup':
                        ob.status = 'unreach'
                        ob.detail = g[1]
                    else:
                        ob.status = 'violation'
                        ob.detail = g[1]
                        ob.fail_path = pr
                    break
                if g is True:
                    continue
                t0 = time.time()
                cons = pr.ctx.all_constraints()
                neg = z3.BoolVal(True) if g is False else z3.Not(g.t)
                r, m = check_sat(cons + [neg], want_model=True)
                ob.queries += 1
                ob.seconds += time.time() - t0
                if r == 'unsat':
                    continue
                if r == 'unknown':
                    if ob.status == 'discharged':
                        ob.status = 'undecided'
                        ob.detail = 'solver returned unknown (path %d)' % pi
                    continue
                ob.status = 'violation'
                ob.model = model_assignment(m, pr.leaves, getattr(pr, 'seq_leaves', None), getattr(pr, 'stubs', None))
                ob.exact = not pr.ctx.atoms.info
                ob.fail_path = pr
                ob.detail = 'refuted on path %d (%s)' % (pi, pr.outcome)
                if getattr(pr, 'exc', None) is not None:
                    ob.detail += ' %s' % (' '.join(str(a) for a in getattr(pr.exc, 'args', ()))[:160],)
                break
            ob.cfg = cfg
            ob.contract = c
            ob.specs = specs
            ob.warm = warm
            self.obligations.append(ob)
        # div-safe: every denominator / log / sqrt argument in its domain
        side = Obligation(base + ':div-safe', c.prop,
                          'denominators != 0, log args > 0, sqrt args >= 0')
        side.kind = 'div-safe'
        side.status = 'discharged'
        nside = 0
        for pi, pr in enumerate(paths):
            seen = set()
            for (lb, cond, pcs) in pr.side:
                key = cond.sexpr() if not isinstance(cond, bool) else str(cond)
                if key in seen:
                    continue
                seen.add(key)
                nside += 1
                t0 = time.time()
                r, m = check_sat(list(pcs) + pr.ctx.atoms.facts +
                                 [z3.Not(cond)], 5000, want_model=True)
                side.queries += 1
                side.seconds += time.time() - t0
                if r == 'sat':
                    side.status = 'violation'
                    side.model = model_assignment(m, pr.leaves, getattr(pr, 'seq_leaves', None), getattr(pr, 'stubs', None))
                    side.detail = '%s: %s can be violated' % (lb, cond)
                    side.exact = not pr.ctx.atoms.info
                    side.fail_path = pr
                    break
                if r == 'unknown' and side.status == 'discharged':
                    side.status = 'undecided'
                    side.detail = '%s: %s unknown' % (lb, cond)
            if side.status == 'violation':
                break
        side.paths = len(paths)
        side.cfg = cfg
        side.contract = c
        side.specs = specs
        side.warm = warm
        if nside:
            self.obligations.append(side)

    def _path_completeness(self, c, base, paths):
        """the explored paths must cover the whole precondition: guards
        against a path being lost inside the engine (a lost path would make
        its obligations disappear silently)"""
        ob = Obligation(base + ':paths:complete', c.prop,
                        'requires ==> (pc_1 or ... or pc_k)')
        ob.kind = 'paths'
        ob.paths = len(paths)
        leaves = set()
        for pr in paths:
            leaves.update(str(cst) for cst, _ in pr.leaves.values())
        disj = []
        ok = True
        for pr in paths:
            conj = z3.And(*pr.ctx.pc) if pr.ctx.pc else z3.BoolVal(True)
            if not _only_consts(conj, leaves):
                ok = False
                break
            disj.append(conj)
        if not ok:
            ob.status = 'discharged'
            ob.detail = ('skipped: a path condition mentions engine-fresh '
                         'constants (abstracted atoms / selected roots)')
            ob.queries = 0
            self.obligations.append(ob)
            return
        it = self.interp
        # requires, evaluated on a fresh context
        t0 = time.time()
        r, m = check_sat([z3.And(*self._requires_terms) if
                          self._requires_terms else z3.BoolVal(True),
                          z3.Not(z3.Or(*disj))], 10000, want_model=True)
        ob.queries = 1
        ob.seconds = time.time() - t0
        if r == 'unsat':
            ob.status = 'discharged'
        elif r == 'unknown':
            ob.status = 'undecided'
            ob.detail = 'solver returned unknown'
        else:
            ob.status = 'undecided'
            ob.detail = ('engine lost a path: inputs satisfying the '
                         'precondition are covered by no explored path, '
                         'e.g. %s' % model_assignment(m, paths[0].leaves, getattr(paths[0], 'seq_leaves', None)))
            self.errors.append('%s: %s' % (ob.name, ob.detail))
        self.obligations.append(ob)

    # ------------------------------------------------------------ functions
    def _record_function(self, it, target, fv):
        from .values import FuncV, BoundMethod, PyClass
        f = fv.func if isinstance(fv, BoundMethod) else fv
        if isinstance(f, PyClass):
            init, _ = f.lookup('__init__')
            f = init
        if not isinstance(f, FuncV) or f.node is None:
            return
        if target in self.functions:
            return
        self.functions[target] = {
            'qualname': target, 'file': f.module.path,
            'lines': [f.node.lineno, getattr(f.node, 'end_lineno',
                                             f.node.lineno)],
            'sha256': f.module.sha256}

    # ------------------------------------------------------------ native
    def native(self, jobs):
        if not jobs:
            return []
        env = dict(os.environ)
        env['PYTHONPATH'] = REPO_ROOT + os.pathsep + env.get('PYTHONPATH', '')
        env.pop('PYTHONHOME', None)
        for j in jobs:
            j['verif_root'] = VERIF_ROOT
        self.native_calls += 1
        p = subprocess.run(
            [NATIVE_PY, os.path.join(VERIF_ROOT, 'pvc', 'native_runner.py')],
            input=json.dumps(jobs), capture_output=True, text=True, env=env,
            timeout=900, cwd='/')
        if p.returncode != 0:
            raise RuntimeError('native runner failed: %s' % p.stderr[-2000:])
        out = p.stdout
        k = out.find('[')
        return json.loads(out[k:])

    def job_for(self, c, specs, asg, clauses, post_state=False, warm=False):
        isc = isinstance(c, Contract)
        job = self._job_for(c, specs, asg, clauses, post_state)
        if warm and isc:
            gh = self._ghosts_of(c, specs)
            job['warm'] = {n: sp.desc('w$' + n, asg) for n, sp in specs.items()
                           if n != 'self' and n not in gh and not getattr(sp, 'computed', False)}
        return job

    def _job_for(self, c, specs, asg, clauses, post_state=False):
        isc = isinstance(c, Contract)
        return {'target': c.target if isc else None, 'lemma': not isc,
                'order': list(specs),
                'args': {n: sp.desc(n, asg) for n, sp in specs.items()},
                'ghosts': sorted(self._ghosts_of(c, specs)) if isc else [],
                'requires': list(c.requires if isc else c.given),
                'clauses': list(clauses), 'post_state': post_state}

    def sample_assignment(self, specs, rng, warm=False):
        asg = {}
        for n, sp in specs.items():
            sp.sample(rng, n, asg)
        if warm:
            for n, sp in specs.items():
                if n != 'self' and not getattr(sp, 'computed', False):
                    sp.sample(rng, 'w$' + n, asg)
        return asg

    # ------------------------------------------------------------ crosscheck
    def _cross_check(self, c, cfg, specs, paths, it, native_only=False):
        """translation validation of the extractor: the symbolic result term
        evaluated at random inputs must agree with CPython running the real
        function."""
        n = 20 if self.tier == 'quick' else 200
        declared = getattr(c, 'native_only', False)
        if declared:
            n = 8 if self.tier == 'quick' else 60       # per declared size
        elif native_only:
            n *= 3
        rng = random.Random(self.seed * 7919 + _stable_hash(c.name))
        asgs = [self.sample_assignment(specs, rng) for _ in range(n)]
        if native_only:
            # bounded stand-in: bias half as many more samples towards the
            # corners of the declared domain (bounds, zero)
            rng.edge = 0.6
            asgs += [self.sample_assignment(specs, rng) for _ in range(n)]
            # and, where the precondition is not a box, let the solver
            # complete partially pinned random points into models of it
            if isinstance(c, Contract) and c.requires and not declared:
                try:
                    asgs += self._solver_samples(c, cfg, specs, n, rng)
                except Exception as e:
                    self.cross['skipped'].append(
                        'solver-guided samples for %s: %s: %s'
                        % (c.name, type(e).__name__, str(e)[:100]))
        clauses = [t for (_l, t) in (c.ensures if isinstance(c, Contract) else c.prove)]
        jobs = [self.job_for(c, specs, a, clauses) for a in asgs]
        self.pending_cross.append((c, cfg, specs, paths, asgs, jobs))

    def _solver_samples(self, c, cfg, specs, n, rng):
        """inputs that satisfy `requires`: random targets for a random subset
        of the input leaves are completed by the solver"""
        it = self.new_interp()

        def run(ctx):
            pr, _B = self._symbolic_run(it, c, specs, ctx)
            if not ctx.feasible(z3.BoolVal(True)):
                raise PathAbort()
            return pr
        paths = self.explore(it, run)
        out = []
        if not paths:
            return out

        def val(const, v):
            if z3.is_bool(const):
                return z3.BoolVal(bool(v))
            if z3.is_int(const):
                return z3.IntVal(int(v))
            return z3.RealVal(str(Fraction(repr(float(v)))))
        t_end = time.time() + 40
        for k in range(n):
            if time.time() > t_end:
                break
            pr = paths[k % len(paths)]
            base = self.sample_assignment(specs, rng)
            s = z3.Solver()
            s.set('timeout', 1500)
            for p in pr.ctx.all_constraints():
                s.add(p)
            pins = {}
            for name, (const, _sp) in pr.leaves.items():
                v = base.get(name)
                if isinstance(v, (bool, int, float)) and rng.random() < 0.7:
                    lit = z3.Bool('pin!%d' % len(pins))
                    s.add(z3.Implies(lit, const == val(const, v)))
                    pins[lit] = name
            active = list(pins)
            m = None
            for _try in range(6):
                r = s.check(*active)
                if r == z3.sat:
                    m = s.model()
                    break
                if r == z3.unsat:
                    core = set(str(x) for x in s.unsat_core())
                    if not core:
                        break
                    drop = rng.choice(sorted(core))
                    active = [a for a in active if str(a) != drop]
                else:
                    active = active[:len(active) // 2]
            if m is None:
                continue
            a = dict(base)
            a.update(model_assignment(m, pr.leaves,
                                      getattr(pr, 'seq_leaves', None), None))
            out.append(a)
        return out

    def finish_cross(self):
        """one native batch for all functions under contract"""
        alljobs = []
        for item in self.pending_cross:
            alljobs.extend(item[5])
        if not alljobs:
            return
        try:
            allres = self.native(alljobs)
        except Exception as e:
            self.cross['skipped'].append('native batch: %s' % e)
            return
        k = 0
        for (c, cfg, specs, paths, asgs, jobs) in self.pending_cross:
            res = allres[k:k + len(jobs)]
            k += len(jobs)
            self._cross_compare(c, cfg, specs, paths, asgs, res)
        self.pending_cross = []

    def _cross_compare(self, c, cfg, specs, paths, asgs, res):
        self.cross['functions'] += 1
        mism = []
        nsel = 0
        for a, r in zip(asgs, res):
            if 'error' in r:
                continue
            if not all(x is True for x in r.get('requires', [])):
                continue
            key = '%s%s' % (c.name, cfg_label(cfg))
            self.native_valid[key] = self.native_valid.get(key, 0) + 1
            if r.get('outcome') == 'return':
                for (lb, text), v in zip(c.ensures if isinstance(c, Contract) else c.prove,
                                         r.get('clauses', [])):
                    # stand-in only: a clause that cannot even be evaluated
                    # on what the real code returned (missing key, wrong
                    # shape ...) fails; with symbolic paths at hand such an
                    # error is a contract problem and is left to the proof
                    if v is False or (not paths and isinstance(v, str) and v.startswith('error')):
                        self.native_clause_failures.append(
                            (c, cfg, specs, lb, text, a, r))
            elif not paths and isinstance(c, Contract) and \
                    str(r.get('outcome', '')).startswith('raise:'):
                # bounded stand-in only: an exception the contract does not
                # allow under its precondition
                exc = r['outcome'].split(':', 1)[1]
                if exc not in c.raises and exc not in c.may_raise:
                    self.native_clause_failures.append(
                        (c, cfg, specs, 'no-unlisted-exception',
                         'outcome == "return"', a, r))
            envn = {}
            for k, v in a.items():
                if isinstance(v, list):
                    envn[k + '.len'] = len(v)
                    for i_, x_ in enumerate(v):
                        envn['%s[%d]' % (k, i_)] = x_
                else:
                    envn[k] = v
            sel = None
            for pr in paths:
                try:
                    ok = all(terms.numeval(p, envn, pr.ctx.atoms) is True
                             for p in pr.ctx.pc)
                except terms.NumEvalError:
                    ok = None
                if ok:
                    sel = pr
                    break
            if sel is None:
                continue
            self.cross['samples'] += 1
            nsel += 1
            if sel.outcome != r['outcome']:
                self.cross['disagreements'] += 1
                self.errors.append(
                    'cross-check: %s%s outcome pvc=%s cpython=%s at %s'
                    % (c.name, cfg_label(cfg), sel.outcome, r['outcome'],
                       json.dumps(a)))
                continue
            if sel.outcome != 'return' or c.target.endswith('.__init__'):
                continue
            try:
                ok = compare_value(sel.result, r['result'], envn,
                                   sel.ctx.atoms)
            except terms.NumEvalError:
                ok = None
            if ok is False:
                mism.append((a, r))
        # isolated mismatches are floating-point noise at ill-conditioned
        # points; a translation error is systematic
        if mism:
            self.cross.setdefault('value_mismatches', 0)
            self.cross['value_mismatches'] += len(mism)
            if len(mism) >= 3 and len(mism) * 5 > nsel:
                self.cross['disagreements'] += len(mism)
                a, r = mism[0]
                self.errors.append(
                    'cross-check: %s%s value mismatch at %d of %d samples, '
                    'e.g. %s (cpython=%s)'
                    % (c.name, cfg_label(cfg), len(mism), nsel,
                       json.dumps(a), json.dumps(r['result'])[:200]))


def _stable_hash(s):
    import zlib
    return zlib.crc32(s.encode()) % 100003


def _model_value(m, v):
    """python value of a symbolic value under a model"""
    if isinstance(v, Sym):
        r = m.eval(v.t, model_completion=True)
        if z3.is_int_value(r):
            return r.as_long()
        if z3.is_rational_value(r):
            return r.numerator_as_long() / r.denominator_as_long()
        if z3.is_algebraic_value(r):
            a = r.approx(20)
            return a.numerator_as_long() / a.denominator_as_long()
        if z3.is_true(r):
            return True
        if z3.is_false(r):
            return False
        if z3.is_string_value(r):
            return r.as_string()
        return 0.0
    if isinstance(v, Fraction):
        return float(v)
    if isinstance(v, dict):
        return {k: _model_value(m, x) for k, x in v.items()}
    if isinstance(v, (list, tuple)):
        return [_model_value(m, x) for x in v]
    if isinstance(v, (bool, int, float, str)) or v is None:
        return v
    return repr(v)


def _only_consts(t, names):
    seen = set()
    stack = [t]
    while stack:
        x = stack.pop()
        if x.get_id() in seen:
            continue
        seen.add(x.get_id())
        if z3.is_app(x):
            if x.num_args() == 0 and x.decl().kind() == \
                    z3.Z3_OP_UNINTERPRETED:
                if str(x) not in names:
                    return False
            stack.extend(x.children())
        else:
            return False
    return True


def compare_value(sv, nv, envn, atoms):
    """symbolic value vs native summary; True / False / None (not comparable)"""
    if isinstance(sv, Sym):
        if sv.kind in ('real', 'int'):
            x = terms.numeval(sv.t, envn, atoms)
            if isinstance(nv, (int, float)) and not isinstance(nv, bool):
                return abs(x - nv) <= 1e-7 * max(1.0, abs(x), abs(nv))
            if isinstance(nv, list) and len(nv) == 1:
                return compare_value(sv, nv[0], envn, atoms)
            return None
        if sv.kind == 'bool':
            x = terms.numeval(sv.t, envn, atoms)
            return bool(x) == bool(nv) if isinstance(nv, bool) else None
        return None
    if isinstance(sv, bool):
        return sv == nv if isinstance(nv, bool) else None
    if isinstance(sv, (int, Fraction)):
        if isinstance(nv, (int, float)) and not isinstance(nv, bool):
            return abs(float(sv) - nv) <= 1e-7 * max(1.0, abs(float(sv)))
        if isinstance(nv, list) and len(nv) == 1:
            return compare_value(sv, nv[0], envn, atoms)
        return None
    if isinstance(sv, str):
        return sv == nv if isinstance(nv, str) else None
    if sv is None:
        return nv is None
    if isinstance(sv, NDArr):
        return compare_value(sv.data, nv, envn, atoms)
    if isinstance(sv, (list, tuple)):
        if not isinstance(nv, list):
            if len(sv) == 1:
                return compare_value(sv[0], nv, envn, atoms)
            return None
        if len(sv) != len(nv):
            return False
        rs = [compare_value(a, b, envn, atoms) for a, b in zip(sv, nv)]
        if any(r is False for r in rs):
            return False
        return True if all(r is True for r in rs) else None
    return None


def model_assignment(m, leaves, seq_leaves=None, stubs=None):
    asg = {}
    for name, st in (stubs or {}).items():
        table = []
        for key, (method, kw, c) in st.memo.items():
            kwv = {k: _model_value(m, v) for k, v in kw.items()}
            table.append([method, kwv, _model_value(m, Sym(c))])
        asg[name + '.__table__'] = table
    for name, (n, consts, spec) in (seq_leaves or {}).items():
        nv = m.eval(n, model_completion=True)
        L = nv.as_long() if z3.is_int_value(nv) else spec.min_len
        L = max(spec.min_len, min(L, 8))
        mid = (spec.el.lo + spec.el.hi) / 2.0
        arr = [mid] * L
        for key, (idx, c) in consts.items():
            iv = m.eval(idx, model_completion=True)
            cv = m.eval(c, model_completion=True)
            if z3.is_int_value(iv) and 0 <= iv.as_long() < L:
                if z3.is_rational_value(cv):
                    arr[iv.as_long()] = cv.numerator_as_long() / cv.denominator_as_long()
                elif z3.is_algebraic_value(cv):
                    a = cv.approx(20)
                    arr[iv.as_long()] = a.numerator_as_long() / a.denominator_as_long()
        asg[name] = arr
    for name, (const, spec) in leaves.items():
        v = m.eval(const, model_completion=True)
        if z3.is_int_value(v):
            asg[name] = v.as_long()
        elif z3.is_rational_value(v):
            asg[name] = v.numerator_as_long() / v.denominator_as_long()
        elif z3.is_algebraic_value(v):
            a = v.approx(20)
            asg[name] = a.numerator_as_long() / a.denominator_as_long()
        elif z3.is_true(v):
            asg[name] = True
        elif z3.is_false(v):
            asg[name] = False
        elif z3.is_string_value(v):
            asg[name] = v.as_string()
        else:
            asg[name] = 0.0
    return asg
