"""Value model of pvc (Python verification conditions).

Concrete Python values are used wherever the program's value is concrete
(None, bool, int, str, list, tuple, dict, set); Python floats are kept as
exact `Fraction`s of their decimal literal so that "floats are mathematical
reals" (DESIGN 2.3) is literally what is computed.  Everything symbolic is a
`Sym` wrapping a z3 term.  Containers are real Python containers, so aliasing
is modelled by Python object identity.
"""
from fractions import Fraction
import z3


class Unsupported(Exception):
    """Construct outside the modelled subset -> obligation is out of reach."""


class Sym:
    """A symbolic scalar: z3 Real / Int / Bool / String term."""
    __slots__ = ('t',)

    def __init__(self, t):
        self.t = t

    @property
    def kind(self):
        s = self.t.sort()
        k = s.kind()
        if k == z3.Z3_BOOL_SORT:
            return 'bool'
        if k == z3.Z3_INT_SORT:
            return 'int'
        if k == z3.Z3_REAL_SORT:
            return 'real'
        if k == z3.Z3_SEQ_SORT:
            return 'str'
        return 'other'

    def __repr__(self):
        return 'Sym(%s)' % (self.t,)

    def __hash__(self):
        return hash(self.t)

    def __eq__(self, other):        # identity of terms (python-level only)
        return isinstance(other, Sym) and self.t.eq(other.t)


class NDArr:
    """numpy.ndarray with a concrete shape; `data` is a (nested) Python list
    of scalar values."""

    def __init__(self, data):
        self.data = data

    @property
    def shape(self):
        sh = []
        d = self.data
        while isinstance(d, list):
            sh.append(len(d))
            if not d:
                break
            d = d[0]
        return tuple(sh)

    @property
    def ndim(self):
        return len(self.shape)

    def __repr__(self):
        return 'NDArr(%r)' % (self.data,)


class GenArr:
    """1-D numpy array / list of symbolic length `n` (z3 Int) whose i-th
    element is `elem(i)` for a z3 Int index term i (element-wise code over an
    unbounded number of entries)."""

    def __init__(self, n, elem, tag=None):
        self.n = n
        self.elem = elem
        self.tag = tag

    def __repr__(self):
        return 'GenArr(n=%s)' % (self.n,)


class SumV:
    """c + sum_{i<n} body(i)   (or  c * prod body(i) when kind == 'prod').
    `n` is a z3 Int, `body` maps a z3 Int index to a scalar value, `c` is a
    scalar value independent of i."""

    def __init__(self, n, body, c=0, kind='sum'):
        self.n = n
        self.body = body
        self.c = c
        self.kind = kind

    def __repr__(self):
        return 'SumV(%s,n=%s)' % (self.kind, self.n)


class Opaque:
    """An uninterpreted token; equal only to itself."""
    _cnt = 0

    def __init__(self, name):
        Opaque._cnt += 1
        self.name = name
        self.id = Opaque._cnt

    def __repr__(self):
        return '<%s>' % self.name


class Obj:
    """Instance of an interpreted class."""
    _cnt = 0

    def __init__(self, cls, fields=None):
        Obj._cnt += 1
        self.cls = cls
        self.fields = fields if fields is not None else {}
        self.oid = Obj._cnt

    def __repr__(self):
        return '<%s obj %s>' % (self.cls.name, sorted(self.fields))


class PyClass:
    def __init__(self, name, module, node, bases):
        self.name = name
        self.module = module
        self.node = node
        self.bases = bases          # list of PyClass / ExcClass / external
        self.attrs = {}             # methods (FuncV), class attributes

    def mro(self):
        out = [self]
        for b in self.bases:
            if isinstance(b, PyClass):
                for k in b.mro():
                    if k not in out:
                        out.append(k)
        return out

    def lookup(self, name):
        for k in self.mro():
            if name in k.attrs:
                return k.attrs[name], k
        return None, None

    def issubclass(self, other):
        return other in self.mro()

    @property
    def qualname(self):
        return '%s:%s' % (self.module.name, self.name)

    def __repr__(self):
        return '<class %s>' % self.name


class FuncV:
    def __init__(self, node, module, closure=None, cls=None, name=None):
        self.node = node
        self.module = module
        self.closure = closure      # Env or None
        self.cls = cls              # defining class (for super())
        self.name = name or getattr(node, 'name', '<lambda>')
        self.kind = 'function'      # 'function' | 'classmethod' | 'staticmethod'

    @property
    def qualname(self):
        if self.cls is not None:
            return '%s:%s.%s' % (self.module.name, self.cls.name, self.name)
        return '%s:%s' % (self.module.name, self.name)

    def __repr__(self):
        return '<func %s>' % self.qualname


class BoundMethod:
    def __init__(self, recv, func):
        self.recv = recv
        self.func = func

    def __repr__(self):
        return '<bound %s of %r>' % (self.func.name, self.recv)


class PropertyV:
    def __init__(self, fget, fset=None):
        self.fget = fget
        self.fset = fset


class Builtin:
    def __init__(self, name, fn, pass_interp=False):
        self.name = name
        self.fn = fn
        self.pass_interp = pass_interp

    def __repr__(self):
        return '<builtin %s>' % self.name


class ExcClass:
    HIER = {
        'BaseException': None, 'Exception': 'BaseException',
        'ArithmeticError': 'Exception', 'ZeroDivisionError': 'ArithmeticError',
        'LookupError': 'Exception', 'KeyError': 'LookupError',
        'IndexError': 'LookupError', 'ValueError': 'Exception',
        'TypeError': 'Exception', 'AttributeError': 'Exception',
        'NameError': 'Exception', 'UnboundLocalError': 'NameError',
        'RuntimeError': 'Exception', 'NotImplementedError': 'RuntimeError',
        'StopIteration': 'Exception', 'IOError': 'Exception',
        'OSError': 'Exception', 'FileNotFoundError': 'OSError',
        'ImportError': 'Exception', 'Warning': 'Exception',
        'RuntimeWarning': 'Warning', 'UserWarning': 'Warning',
        'DeprecationWarning': 'Warning', 'AssertionError': 'Exception',
        'UnicodeDecodeError': 'ValueError', 'OverflowError': 'ArithmeticError',
    }

    def __init__(self, name):
        self.name = name

    def isa(self, other_name):
        n = self.name
        while n is not None:
            if n == other_name:
                return True
            n = ExcClass.HIER.get(n)
        return False

    def __repr__(self):
        return '<exc class %s>' % self.name


class ExcObj:
    def __init__(self, cls, args=()):
        self.cls = cls
        self.args = tuple(args)

    def __repr__(self):
        return '%s%r' % (self.cls.name, self.args)


class PyRaise(Exception):
    """A modelled Python exception propagating through the interpreter."""

    def __init__(self, exc):
        Exception.__init__(self, repr(exc))
        self.exc = exc


def raise_(name, *args):
    raise PyRaise(ExcObj(ExcClass(name), args))


class ModuleV:
    """Marker base for module-like values (interpreted or modelled)."""
    name = '?'


# ----------------------------------------------------------------- helpers

def is_num(v):
    return (isinstance(v, (int, Fraction)) and not isinstance(v, bool)) or \
        (isinstance(v, Sym) and v.kind in ('real', 'int'))


def is_concrete_num(v):
    return isinstance(v, (int, Fraction)) and not isinstance(v, bool)


def to_frac(x):
    if isinstance(x, bool):
        return Fraction(int(x))
    if isinstance(x, (int, Fraction)):
        return Fraction(x)
    if isinstance(x, float):
        if x != x or x in (float('inf'), float('-inf')):
            raise Unsupported('non-finite float')
        return Fraction(repr(x))
    raise TypeError(x)


def frac_to_z3(q):
    q = Fraction(q)
    if q.denominator == 1:
        return z3.RealVal(q.numerator)
    return z3.RealVal(str(q.numerator) + '/' + str(q.denominator))


def z3real(v):
    """scalar value -> z3 Real term"""
    if isinstance(v, Sym):
        k = v.kind
        if k == 'real':
            return v.t
        if k == 'int':
            return z3.ToReal(v.t)
        if k == 'bool':
            return z3.If(v.t, z3.RealVal(1), z3.RealVal(0))
        raise Unsupported('z3real of %s' % k)
    if isinstance(v, bool):
        return z3.RealVal(1 if v else 0)
    if isinstance(v, (int, Fraction)):
        return frac_to_z3(v)
    if isinstance(v, float):
        return frac_to_z3(to_frac(v))
    raise Unsupported('z3real of %r' % (type(v),))


def z3int(v):
    if isinstance(v, Sym):
        if v.kind == 'int':
            return v.t
        if v.kind == 'bool':
            return z3.If(v.t, z3.IntVal(1), z3.IntVal(0))
        raise Unsupported('z3int of %s' % v.kind)
    if isinstance(v, bool):
        return z3.IntVal(int(v))
    if isinstance(v, int):
        return z3.IntVal(v)
    if isinstance(v, Fraction) and v.denominator == 1:
        return z3.IntVal(v.numerator)
    raise Unsupported('z3int of %r' % (v,))


def z3bool(v):
    if isinstance(v, Sym):
        if v.kind == 'bool':
            return v.t
        if v.kind == 'int':
            return v.t != 0
        if v.kind == 'real':
            return v.t != 0
        raise Unsupported('z3bool of %s' % v.kind)
    if isinstance(v, bool):
        return z3.BoolVal(v)
    raise Unsupported('z3bool of %r' % (v,))


def z3str(v):
    if isinstance(v, Sym) and v.kind == 'str':
        return v.t
    if isinstance(v, str):
        return z3.StringVal(v)
    raise Unsupported('z3str of %r' % (v,))


def mk(t):
    """wrap a z3 term, folding numerals/booleans/strings back to concrete."""
    t = z3.simplify(t) if not z3.is_const(t) else t
    if z3.is_true(t):
        return True
    if z3.is_false(t):
        return False
    if z3.is_int_value(t):
        return t.as_long()
    if z3.is_rational_value(t):
        return Fraction(t.numerator_as_long(), t.denominator_as_long())
    if z3.is_string_value(t):
        return t.as_string()
    return Sym(t)
