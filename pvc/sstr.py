"""Structured symbolic strings.

A string value is a sequence of pieces whose *lengths* are known exactly:

  * literal text (python str),
  * IntText(n, w): the decimal text of the non-negative integer n zero-padded
    to exactly w characters (invariant 0 <= n < 10**w, established where the
    piece is created),
  * Tok(name, length): an unknown non-empty run of "ordinary" characters
    (letters, digits-free punctuation ...) that contains none of the
    separator characters listed in Tok.EXCLUDES; its length may be symbolic.

This is an exact abstract domain for the fixed-column / identifier / token
code of pMuTT: every operation below is either computed exactly or raises
Unsupported (never approximated).  It replaces SMT string theories for the
clauses it can express (DESIGN 2.3: z3's sequence solver is unusable here).
"""
import string as _string
import z3
from fractions import Fraction
from .values import Sym, Unsupported, mk, raise_, z3int, is_concrete_num


class IntText:
    def __init__(self, n, width):
        self.n = n
        self.width = width

    def __repr__(self):
        return 'IntText(%r,%d)' % (self.n, self.width)


class Tok:
    """unknown non-empty text that contains none of the characters in
    `excl` (and, optionally, does not start with a digit or a dot)"""
    EXCLUDES = frozenset(' \n\t\r\x0b\x0c"\',[]{}:')

    def __init__(self, name, length, excl=None, first_nondigit=False,
                 flags=None):
        self.name = name
        self.length = length
        self.excl = frozenset(excl) if excl is not None else Tok.EXCLUDES
        self.first_nondigit = first_nondigit
        # flags: callable needle -> Sym(bool) "this word contains needle"
        # (an input-level unknown, so that both outcomes are explored and a
        # counterexample can be replayed with a word that really contains it)
        self.flags = flags

    def max_len(self):
        return self.length if isinstance(self.length, int) else 10 ** 6

    def __repr__(self):
        return 'Tok(%s)' % self.name


class NumText:
    """decimal text 'ddd.ff' (nd digits after the point) of a non-negative
    rational d; `length` is its (symbolic) number of characters"""

    def __init__(self, d, nd, length):
        self.d = d
        self.nd = nd
        self.length = length

    def __repr__(self):
        return 'NumText(%r)' % (self.d,)


class SciText:
    """the 14 characters 'd.ddddddddE+xx' of '{: 2.8E}' (the sign column is
    a separate literal piece ' ' or '-'): denotes m >= 0 with
    |m - |v|| <= 5e-9 |v|; contains no blank"""

    def __init__(self, d, width=14):
        self.d = d
        self.width = width

    def __repr__(self):
        return 'SciText(%r)' % (self.d,)


class FmtText:
    """format(v, spec) of a real v under a float presentation spec (e.g.
    ' .3E', '.3E', ' .3f'): the text is a function of (spec, v) only.  Two
    such pieces with the same spec are equal if their values are equal (used
    as a sufficient condition when proving a goal, never to decide a branch).
    `length` is exact for E-formats (symbolic in the sign / exponent width),
    an unknown integer for f-formats.  Alphabet: ' +-0123456789.Ee'."""

    def __init__(self, v, spec, length):
        self.v = v
        self.spec = spec
        self.length = length

    def __repr__(self):
        return 'FmtText(%r,%r)' % (self.spec, self.v)


class SStr:
    def __init__(self, pieces):
        out = []
        for p in pieces:
            if isinstance(p, SStr):
                ps = p.pieces
            else:
                ps = [p]
            for q in ps:
                if isinstance(q, str):
                    if q == '':
                        continue
                    if out and isinstance(out[-1], str):
                        out[-1] = out[-1] + q
                        continue
                out.append(q)
        self.pieces = out

    def __repr__(self):
        return 'SStr(%r)' % (self.pieces,)

    # -------------------------------------------------------------- basics
    def is_literal(self):
        return all(isinstance(p, str) for p in self.pieces)

    def literal(self):
        return ''.join(self.pieces)

    def plen(self, p):
        if isinstance(p, str):
            return len(p)
        if isinstance(p, (IntText, SciText)):
            return p.width
        return p.length          # Tok / NumText

    def length(self, ops):
        tot = 0
        import ast
        for p in self.pieces:
            tot = ops.binop(ast.Add(), tot, self.plen(p))
        return tot

    def concrete_len(self):
        tot = 0
        for p in self.pieces:
            l = self.plen(p)
            if not isinstance(l, int):
                return None
            tot += l
        return tot


def lift(v):
    if isinstance(v, SStr):
        return v
    if isinstance(v, str):
        return SStr([v])
    raise Unsupported('not a string: %r' % (type(v),))


def simplify(s):
    if isinstance(s, SStr) and s.is_literal():
        return s.literal()
    return s


def concat(a, b):
    return simplify(SStr([lift(a), lift(b)]))


# ------------------------------------------------------------------ equality

def equals(a, b, ops):
    """python == between structured strings -> bool or Sym(bool)"""
    pa = list(lift(a).pieces)
    pb = list(lift(b).pieces)
    conds = []
    while pa and pb:
        x, y = pa[0], pb[0]
        if isinstance(x, str) and isinstance(y, str):
            k = min(len(x), len(y))
            if x[:k] != y[:k]:
                return False
            pa[0:1] = [x[k:]] if x[k:] else []
            pb[0:1] = [y[k:]] if y[k:] else []
            continue
        if isinstance(x, IntText) and isinstance(y, IntText):
            if x.width != y.width:
                # different field widths: the texts differ somewhere unless
                # the digit runs continue into neighbouring literals -> only
                # decide the common case where both are followed by a
                # non-digit or the end
                if _next_is_nondigit(pa[1:]) and _next_is_nondigit(pb[1:]):
                    return False
                raise Unsupported('IntText alignment')
            conds.append(ops.equals(x.n, y.n))
            pa.pop(0)
            pb.pop(0)
            continue
        if isinstance(x, IntText) and isinstance(y, str) or \
                isinstance(y, IntText) and isinstance(x, str):
            it, lit, la, lb = (x, y, pa, pb) if isinstance(x, IntText) \
                else (y, x, pb, pa)
            if len(lit) < it.width:
                if _all_digits(lit) and lb[1:] and not isinstance(lb[1], str):
                    raise Unsupported('IntText vs split literal')
                return False
            head = lit[:it.width]
            if not _all_digits(head):
                return False
            conds.append(ops.equals(it.n, int(head)))
            la.pop(0)
            rest = lit[it.width:]
            lb[0:1] = [rest] if rest else []
            continue
        if isinstance(x, Tok) and isinstance(y, Tok):
            if x.name == y.name:
                pa.pop(0)
                pb.pop(0)
                continue
            if len(pa) == 1 and len(pb) == 1 and not conds:
                # two whole unknown words: their equality is one unknown
                # boolean (symmetric), e.g. constrained by a precondition
                n1, n2 = sorted([x.name, y.name])
                return Sym(z3.Bool('streq!%s!%s' % (n1, n2)))
            raise Unsupported('comparison of distinct unknown tokens')
        if isinstance(x, FmtText) or isinstance(y, FmtText):
            if x is y:
                pa.pop(0)
                pb.pop(0)
                continue
            if isinstance(x, FmtText) and isinstance(y, FmtText) and \
                    x.spec == y.spec:
                ctx = getattr(getattr(ops, 'interp', None), 'ctx', None)
                if ctx is not None and getattr(ctx, 'goal_mode', False):
                    conds.append(ops.equals(x.v, y.v))
                    pa.pop(0)
                    pb.pop(0)
                    continue
                e = ops.equals(x.v, y.v)
                if e is True or (isinstance(e, Sym) and ctx is not None
                                 and ctx.prove(e.t)):
                    pa.pop(0)
                    pb.pop(0)
                    continue
            f, oth = (x, y) if isinstance(x, FmtText) else (y, x)
            if isinstance(oth, str) and oth and \
                    oth[0] not in ' +-0123456789.Ee':
                return False
            if isinstance(oth, Tok) and oth.first_nondigit and \
                    set(' +-') <= oth.excl:
                return False
            raise Unsupported('comparison of formatted numbers')
        # Tok vs literal / IntText
        if isinstance(x, (NumText, SciText)) or \
                isinstance(y, (NumText, SciText)):
            if x is y:
                pa.pop(0)
                pb.pop(0)
                continue
            num, oth = (x, y) if isinstance(x, (NumText, SciText)) else (y, x)
            allowed = '0123456789.' + ('E+-' if isinstance(num, SciText)
                                       else '')
            if isinstance(oth, str) and oth and oth[0] not in allowed:
                return False
            if isinstance(oth, Tok) and oth.first_nondigit:
                return False
            raise Unsupported('comparison of formatted numbers')
        t, o = (x, y) if isinstance(x, Tok) else (y, x)
        if isinstance(o, str) and o and o[0] in t.excl:
            return False          # tokens are non-empty and separator-free
        raise Unsupported('unknown token against known text')
    if pa or pb:
        rest = pa or pb
        # leftover must be empty; all piece kinds are non-empty except
        # zero-length symbolic tokens
        for p in rest:
            if isinstance(p, str) and p:
                return False
            if isinstance(p, IntText) and p.width > 0:
                return False
            if isinstance(p, (Tok, NumText, SciText, FmtText)):
                return False
    return ops.all_(conds)


def _all_digits(s):
    return len(s) > 0 and all(ch in '0123456789' for ch in s)


def _next_is_nondigit(rest):
    if not rest:
        return True
    p = rest[0]
    if isinstance(p, str):
        return not p[0].isdigit()
    return False


# ------------------------------------------------------------------ slicing

def _needle_ok(s, needle):
    """may `needle` be searched for by looking at literal pieces only?"""
    for p in s.pieces:
        if isinstance(p, IntText) and any(ch.isdigit() for ch in needle):
            return False
        if isinstance(p, NumText) and any(ch.isdigit() or ch == '.'
                                          for ch in needle):
            return False
        if isinstance(p, SciText) and any(ch.isdigit() or ch in '.E+-'
                                          for ch in needle):
            return False
        if isinstance(p, FmtText) and any(ch in ' +-0123456789.Ee'
                                          for ch in needle):
            return False
        if isinstance(p, Tok) and not (set(needle) & p.excl):
            if getattr(p, 'flags', None) is not None and \
                    len(needle) <= p.max_len():
                continue        # decided through the token's content flags
            return False
    return True


def _positions(s):
    """start offset of every piece (python ints) or None if symbolic"""
    pos = []
    tot = 0
    for p in s.pieces:
        pos.append(tot)
        l = s.plen(p)
        if not isinstance(l, int):
            return None
        tot += l
    return pos, tot


def find_from(s, needle, start, ops):
    s = lift(s)
    pp = _positions(s)
    if pp is None:
        raise Unsupported('find in a string with symbolic-length pieces')
    r = find(slice_(s, start, None, ops), needle, ops)
    return r if r < 0 else r + start


def find(s, needle, ops, reverse=False):
    s = lift(s)
    if not isinstance(needle, str):
        raise Unsupported('find with symbolic needle')
    if not _needle_ok(s, needle) and _may_touch_unknown(s, needle):
        raise Unsupported('find(%r) could match inside an unknown piece'
                          % needle)
    pp = _positions(s)
    if pp is None:
        raise Unsupported('find in a string with symbolic-length pieces')
    pos, tot = pp
    # a needle containing a separator cannot straddle a Tok/IntText piece
    # unless it has digits (excluded above) -> search literal pieces only,
    # but a needle may straddle two literals only if adjacent (merged)
    hits = []
    for p, off in zip(s.pieces, pos):
        if isinstance(p, str):
            k = p.rfind(needle) if reverse else p.find(needle)
            if k >= 0:
                hits.append(off + k)
    if not hits:
        return -1
    return max(hits) if reverse else min(hits)


DIGITS = frozenset('0123456789')
ALL_CHARS = frozenset(chr(c) for c in range(32, 127)) | frozenset('\n\t\r')


def _alphabet(p):
    """characters an unknown piece may contain, (min, max) length"""
    if isinstance(p, IntText):
        return DIGITS, p.width, p.width
    if isinstance(p, NumText):
        l = p.length if isinstance(p.length, int) else None
        return DIGITS | {'.'}, (l or 3), (l or 40)
    if isinstance(p, SciText):
        return DIGITS | frozenset('.E+-'), p.width, p.width
    if isinstance(p, Tok):
        a = ALL_CHARS - p.excl
        l = p.length if isinstance(p.length, int) else None
        return a, (l or 1), (l or 10 ** 6)
    if isinstance(p, FmtText):
        l = p.length if isinstance(p.length, int) else None
        return frozenset(' +-0123456789.Ee'), (l or 1), (l or 400)
    raise Unsupported('piece %r' % (p,))


def _may_touch_unknown(s, needle, skip=()):
    """could an occurrence of `needle` overlap (by at least one character) an
    unknown piece that is not in `skip`?  Conservative: True unless excluded
    by the pieces' alphabets and the neighbouring literal text."""
    cells = []          # ('lit', ch) | ('run', alphabet, min, max, piece)
    for p in s.pieces:
        if isinstance(p, str):
            cells.extend(('lit', ch) for ch in p)
        else:
            a, lo, hi = _alphabet(p)
            cells.append(('run', a, lo, hi, p))
    n = len(needle)

    def match(ci, off_in_run, k, touched):
        """needle[k:] matches starting at cell ci (off_in_run chars of a run
        already consumed)"""
        if k == n:
            return touched
        if ci >= len(cells):
            return False
        c = cells[ci]
        if c[0] == 'lit':
            if c[1] != needle[k]:
                return False
            return match(ci + 1, 0, k + 1, touched)
        _, a, lo, hi, p = c
        res = False
        # consume one more char of this run
        if needle[k] in a and off_in_run < hi:
            res = match(ci, off_in_run + 1, k + 1, touched or p not in skip)
        # or leave the run (only if its minimum length may be satisfied: the
        # match may have started in the middle of the run, so any offset ok)
        if not res and off_in_run > 0:
            res = match(ci + 1, 0, k, touched)
        return res
    for ci, c in enumerate(cells):
        if c[0] == 'lit':
            if match(ci, 0, 0, False):
                return True
        else:
            if match(ci, 0, 0, False):
                return True
    return False


def contains(s, needle, ops):
    s = lift(s)
    if not isinstance(needle, str):
        raise Unsupported('`in` with symbolic needle')
    if needle == '':
        return True
    if any(isinstance(p, str) and needle in p for p in s.pieces):
        return True
    flagged = [p for p in s.pieces if isinstance(p, Tok) and
               p.flags is not None]
    if _may_touch_unknown(s, needle, skip=flagged):
        raise Unsupported('`in`: %r could match inside an unknown piece'
                          % needle)
    # only the flagged unknown words can contain the needle, entirely inside
    # one word unless it may straddle a word boundary
    conds = []
    for p in flagged:
        a, lo, hi = _alphabet(p)
        if not (set(needle) <= a) or len(needle) > hi:
            continue
        conds.append(p.flags(needle))
    # straddling a flagged word and its neighbours
    for p in flagged:
        others = [q for q in s.pieces if q is not p and not isinstance(q, str)]
        if _may_touch_unknown(SStr([q if (q is p or isinstance(q, str)) else
                                    ' ' * 0 or q for q in s.pieces]), needle,
                              skip=others) and \
                _straddles(s, p, needle):
            raise Unsupported('needle may straddle a word boundary')
    return ops.any_(conds) if conds else False


def _straddles(s, p, needle):
    """may needle overlap p AND a neighbouring piece at the same time?"""
    k = s.pieces.index(p)
    a, lo, hi = _alphabet(p)
    for side, q in (('L', s.pieces[k - 1] if k else None),
                    ('R', s.pieces[k + 1] if k + 1 < len(s.pieces) else None)):
        if q is None:
            continue
        if isinstance(q, str):
            edge = q[-1] if side == 'L' else q[0]
            if edge in needle:
                # literal edge char occurs in the needle: a straddling match
                # would need the adjacent needle char inside p
                idxs = [i for i, ch in enumerate(needle) if ch == edge]
                for i in idxs:
                    j = i + 1 if side == 'L' else i - 1
                    if 0 <= j < len(needle) and needle[j] in a:
                        return True
        else:
            b, _, _ = _alphabet(q)
            if any(needle[i] in b and needle[i + 1] in a or
                   needle[i] in a and needle[i + 1] in b
                   for i in range(len(needle) - 1)):
                return True
    return False


def _slice_prefix(s, start, stop):
    """s[start:] / s[:stop] with non-negative concrete bounds that fall inside
    the leading pieces of concrete length"""
    out = []
    off = 0
    pieces = list(s.pieces)
    if start in (None, 0) and isinstance(stop, int) and stop < 0 and \
            pieces and isinstance(pieces[-1], str) and \
            len(pieces[-1]) >= -stop:
        # s[:-k] with the cut inside the trailing literal
        return simplify(SStr(pieces[:-1] + [pieces[-1][:stop]]))
    if stop is None and start is not None and start >= 0:
        k = 0
        while k < len(pieces):
            p = pieces[k]
            l = s.plen(p)
            if not isinstance(l, int):
                break
            if off + l <= start:
                off += l
                k += 1
                continue
            if off == start:
                break
            if isinstance(p, str):
                pieces[k] = p[start - off:]
                off = start
                break
            raise Unsupported('slice cuts through %r' % (p,))
        else:
            return ''              # start beyond a fully concrete string
        if off < start:
            raise Unsupported('slice start inside a symbolic-length piece')
        return simplify(SStr(pieces[k:]))
    raise Unsupported('slice of a string with symbolic-length pieces')


def slice_(s, start, stop, ops):
    s = lift(s)
    pp = _positions(s)
    if pp is None:
        return _slice_prefix(s, start, stop)
    pos, tot = pp
    a, b, _ = slice(start, stop).indices(tot)
    out = []
    for p, off in zip(s.pieces, pos):
        l = s.plen(p)
        lo, hi = max(a, off), min(b, off + l)
        if lo >= hi:
            continue
        if lo == off and hi == off + l:
            out.append(p)
        elif isinstance(p, str):
            out.append(p[lo - off:hi - off])
        else:
            raise Unsupported('slice cuts through %r' % (p,))
    return simplify(SStr(out))


def char_at(s, i, ops):
    s = lift(s)
    pp = _positions(s)
    if pp is None:
        raise Unsupported('index into symbolic-length string')
    pos, tot = pp
    if i < 0:
        i += tot
    if not (0 <= i < tot):
        raise_('IndexError', 'string index out of range')
    for p, off in zip(s.pieces, pos):
        if off <= i < off + s.plen(p):
            if isinstance(p, str):
                return p[i - off]
            if isinstance(p, Tok):
                # one unknown character of an unknown word
                return SStr([Tok('%s[%d]' % (p.name, i - off), 1, p.excl,
                                 p.first_nondigit and i == off)])
            raise Unsupported('character inside %r' % (p,))
    raise_('IndexError', 'string index out of range')


def replace(s, old, new, ops):
    s = lift(s)
    if not isinstance(old, str) or not isinstance(new, str):
        raise Unsupported('replace with symbolic arguments')
    if old == '' and new == '':
        return simplify(s)
    if not _needle_ok(s, old) and _may_touch_unknown(s, old):
        raise Unsupported('replace(%r) could match inside an unknown piece'
                          % old)
    return simplify(SStr([p.replace(old, new) if isinstance(p, str) else p
                          for p in s.pieces]))


WS = ' \t\n\r\x0b\x0c'


def split_ws(s, ops):
    """str.split() (runs of whitespace); unknown pieces must be
    whitespace-free"""
    s = lift(s)
    for p in s.pieces:
        if isinstance(p, Tok) and not (set(WS) <= p.excl):
            raise Unsupported('split(): unknown word may contain whitespace')
    fields = []
    cur = []
    for p in s.pieces:
        if isinstance(p, str):
            buf = ''
            for ch in p:
                if ch in WS:
                    if buf:
                        cur.append(buf)
                        buf = ''
                    if cur:
                        fields.append(cur)
                        cur = []
                else:
                    buf += ch
            if buf:
                cur.append(buf)
        else:
            cur.append(p)
    if cur:
        fields.append(cur)
    return [simplify(SStr(f)) for f in fields]


def split(s, sep, ops):
    s = lift(s)
    if sep is None:
        return split_ws(s, ops)
    if not isinstance(sep, str):
        raise Unsupported('split() without a literal separator')
    if not _needle_ok(s, sep) and _may_touch_unknown(s, sep):
        raise Unsupported('split(%r) could match inside an unknown piece'
                          % sep)
    parts = [[]]
    for p in s.pieces:
        if isinstance(p, str):
            segs = p.split(sep)
            parts[-1].append(segs[0])
            for sg in segs[1:]:
                parts.append([sg])
        else:
            parts[-1].append(p)
    return [simplify(SStr(x)) for x in parts]


def strip(s, chars, ops, left=True, right=True):
    s = lift(s)
    ps = list(s.pieces)
    cs = chars if chars is not None else ' \t\n\r\x0b\x0c'
    if left and ps:
        if isinstance(ps[0], str):
            ps[0] = ps[0].lstrip(cs)
            if ps[0] == '' and len(ps) > 1 and not _safe_edge(ps[1], cs):
                raise Unsupported('strip reaches an unknown piece')
        elif not _safe_edge(ps[0], cs):
            raise Unsupported('strip reaches an unknown piece')
    if right and ps:
        if isinstance(ps[-1], str):
            ps[-1] = ps[-1].rstrip(cs)
            if ps[-1] == '' and len(ps) > 1 and not _safe_edge(ps[-2], cs):
                raise Unsupported('strip reaches an unknown piece')
        elif not _safe_edge(ps[-1], cs):
            raise Unsupported('strip reaches an unknown piece')
    return simplify(SStr(ps))


def _safe_edge(p, cs):
    """piece p certainly does not start/end with a character of cs"""
    if isinstance(p, IntText):
        return not any(ch.isdigit() for ch in cs)
    if isinstance(p, Tok):
        return set(cs) <= p.excl
    if isinstance(p, NumText):
        return not any(ch.isdigit() or ch == '.' for ch in cs)
    if isinstance(p, FmtText):
        return not any(ch in ' +-0123456789.Ee' for ch in cs)
    return True


def to_float(s, ops):
    s = lift(s)
    ps = s.pieces
    ps = [p for p in ps if not (isinstance(p, str) and p.strip() == '')]
    if len(ps) == 1 and isinstance(ps[0], (NumText, SciText)):
        return ps[0].d
    if len(ps) == 2 and isinstance(ps[0], str) and ps[0].strip() == '-' and \
            isinstance(ps[1], (NumText, SciText)):
        import ast
        return ops.unary(ast.USub(), ps[1].d)
    if len(ps) > 1 and any(isinstance(p, Tok) and
                           set('0123456789') <= p.excl for p in ps) and \
            any(isinstance(p, (IntText, NumText, SciText)) for p in ps):
        # digits glued to a digit-free word ('1He', 'Pt12'): never a float
        raise_('ValueError', 'could not convert string to float')
    if len(ps) > 1 and any(isinstance(p, (NumText, SciText)) for p in ps):
        # several numbers glued together (e.g. by a minus sign) or a number
        # glued to other text: not a float literal
        raise_('ValueError', 'could not convert string to float')
    if len(ps) == 1 and isinstance(ps[0], IntText):
        n = ps[0].n
        if isinstance(n, Sym):
            return mk(z3.ToReal(n.t))
        return Fraction(n)
    if len(ps) == 1 and isinstance(ps[0], Tok) and \
            getattr(ops, 'interp', None) is not None:
        # whether an unknown word is a float literal ('nan', 'inf', '1e5')
        # is unknown: both outcomes are explored
        ctx = ops.interp.ctx
        if ctx.branch(Sym(ctx.fresh('isfloat', 'bool'))):
            return Sym(ctx.fresh('floatval', 'real'))
        raise_('ValueError', 'could not convert string to float')
    if s.is_literal():
        from .values import to_frac
        try:
            return to_frac(float(s.literal()))
        except ValueError:
            raise_('ValueError', 'could not convert string to float')
    raise Unsupported('float() of %r' % (s,))


def number_prefix(s, interp):
    """re.search(r'^\\d+\\.?\\d*', s): the matched text or None.  Decided
    for strings that start with a formatted number followed by something
    that cannot continue the match, or with a token that cannot start one"""
    s = lift(s)
    if not s.pieces:
        return None
    p0 = s.pieces[0]
    rest = s.pieces[1:]

    def cannot_continue(q, after_point):
        if isinstance(q, str):
            return not (q[0].isdigit() or (q[0] == '.' and not after_point))
        if isinstance(q, Tok):
            return q.first_nondigit
        return False
    if isinstance(p0, str):
        import re
        if s.is_literal():
            m = re.search(r'^\d+\.?\d*', p0)
            return m.group() if m else None
        m = re.search(r'^\d+\.?\d*', p0)
        if m is None:
            return None
        if m.end() < len(p0):
            return m.group()
        raise Unsupported('number prefix continues into an unknown piece')
    if isinstance(p0, Tok):
        if p0.first_nondigit:
            return None
        raise Unsupported('token may start with a digit')
    if isinstance(p0, IntText):
        if not rest or cannot_continue(rest[0], False):
            return SStr([p0])
        raise Unsupported('integer text followed by possible digits')
    if isinstance(p0, NumText):
        if not rest or cannot_continue(rest[0], True):
            return SStr([p0])
        raise Unsupported('number text followed by possible digits')
    raise Unsupported('number prefix of %r' % (p0,))


def float_text(v, spec, interp):
    """text of the non-negative real v under a format spec '.Nf'"""
    import re
    m = re.fullmatch(r'\.(\d+)f', spec)
    if not m:
        raise Unsupported('float format spec %r' % spec)
    nd = int(m.group(1))
    ctx = interp.ctx
    from .values import z3real
    t = z3real(v)
    # the text is a function of (spec, value): one piece per pair and path
    memo = ctx.__dict__.setdefault('numtext_memo', {})
    mkey = (spec, z3.simplify(t).sexpr(),
            bool(getattr(interp, 'concrete_number_lengths', False)))
    if mkey in memo and len(ctx.decisions) >= memo[mkey][1]:
        return memo[mkey][0]
    r = _float_text(v, nd, t, ctx, interp)
    memo[mkey] = (r, len(ctx.decisions))
    return r


def _float_text(v, nd, t, ctx, interp):
    if not ctx.prove(t >= 0):
        if ctx.branch(mk(t < 0)):
            raise Unsupported('formatting a negative symbolic real')
    d = ctx.fresh('fmt', 'real')
    L = ctx.fresh('fmtlen', 'int')
    half = z3.RealVal('1/%d' % (2 * 10 ** nd))
    # correctly rounded decimal with nd fractional digits
    q = ctx.fresh('fmtq', 'int')
    ctx.atoms.facts.append(d >= 0)
    ctx.atoms.facts.append(d - t <= half)
    ctx.atoms.facts.append(t - d <= half)
    # the printed value is a multiple of 10^-nd
    ctx.atoms.facts.append(d * 10 ** nd == z3.ToReal(q))
    ctx.atoms.facts.append(L >= nd + 2)
    if getattr(interp, 'concrete_number_lengths', False):
        # number of integer digits of the printed value: case split
        for k in range(1, 9):
            if ctx.branch(mk(d < 10 ** k)):
                ctx.atoms.facts.append(L == k + 1 + nd)
                return SStr([NumText(Sym(d), nd, k + 1 + nd)])
        raise Unsupported('formatted real with more than 8 integer digits')
    return SStr([NumText(Sym(d), nd, Sym(L))])


def fmt_text(v, spec, interp):
    """format(v, spec) for a symbolic real and a float presentation spec
    [sign].<prec>(E|e|f): an opaque function of (spec, v) with exact length
    for the E-formats (reals are finite floats: exponent of 2 or 3 digits)"""
    import re
    m = re.fullmatch(r'([ +]?)\.(\d+)([Eef])', spec)
    if not m:
        raise Unsupported('float format spec %r' % spec)
    sign, prec, kind = m.group(1), int(m.group(2)), m.group(3)
    if isinstance(v, (int, Fraction)) and not isinstance(v, bool):
        return format(float(v), spec)
    ctx = interp.ctx
    from .values import z3real
    t = z3.simplify(z3real(v))
    if kind in 'Ee':
        a = z3.If(t < 0, -t, t)
        # two exponent digits iff the correctly rounded mantissa/exponent
        # lies in [1E-99, 9.99..E+99]
        hi = z3.RealVal(str(Fraction(10) ** 100 -
                            5 * Fraction(10) ** (98 - prec)))
        lo = z3.RealVal(str(Fraction(10) ** -99 -
                            5 * Fraction(10) ** (-101 - prec)))
        two = z3.Or(t == 0, z3.And(a >= lo, a < hi))
        base = (1 if sign else 0) + 1 + (1 if prec else 0) + prec + 4
        L = z3.IntVal(base) + z3.If(two, 0, 1)
        if not sign:
            L = L + z3.If(t < 0, 1, 0)
        L = z3.simplify(L)
        length = L.as_long() if z3.is_int_value(L) else Sym(L)
    else:
        key = ('fmtlen:' + spec, t.sexpr())
        memo = ctx.atoms.table
        if key not in memo:
            c = ctx.fresh('fmtlen', 'int')
            ctx.atoms.facts.append(c >= prec + 2 + (1 if sign else 0))
            memo[key] = c
        length = Sym(memo[key])
    return SStr([FmtText(Sym(t), spec, length)])


def plain_text(v, interp):
    """'{}'.format(v) / str(v) of a symbolic real: the shortest repr of the
    float, an uninterpreted function of the value (FmtText with spec '')"""
    ctx = interp.ctx
    from .values import z3real
    t = z3.simplify(z3real(v))
    key = ('fmtlen:', t.sexpr())
    memo = ctx.atoms.table
    if key not in memo:
        c = ctx.fresh('fmtlen', 'int')
        ctx.atoms.facts.append(c >= 3)
        memo[key] = c
    return SStr([FmtText(Sym(t), '', Sym(memo[key]))])


def sci_text(v, interp):
    """'{: 2.8E}'.format(v): 15 characters for 1e-99 <= |v| < 1e100 or
    v == 0 (assumed range, stated by the contract); denotes d with
    |d - v| <= 5e-9 |v|"""
    ctx = interp.ctx
    from .values import z3real
    if isinstance(v, (int, Fraction)) and not isinstance(v, bool):
        return format(float(v), ' 2.8E')
    t = z3real(v)
    memo = ctx.__dict__.setdefault('scitext_memo', {})
    mkey = z3.simplify(t).sexpr()
    if mkey in memo and len(ctx.decisions) >= memo[mkey][1]:
        return memo[mkey][0]
    r = _sci_text(t, ctx)
    memo[mkey] = (r, len(ctx.decisions))
    return r


def _sci_text(t, ctx):
    m = ctx.fresh('sci', 'real')
    eps = z3.RealVal('5/1000000000')
    if ctx.prove(t >= 0):
        neg = False
    else:
        neg = ctx.branch(mk(t < 0))
    a = -t if neg else t
    ctx.atoms.facts.append(m >= 0)
    ctx.atoms.facts.append(m - a <= a * eps)
    ctx.atoms.facts.append(a - m <= a * eps)
    return SStr(['-' if neg else ' ', SciText(Sym(m))])


def slice_sym(s, start, interp):
    """s[start:] where start is a symbolic integer provably equal to the
    total length of the first j pieces"""
    import ast
    s = lift(s)
    ops = interp.ops
    acc = 0
    for j in range(len(s.pieces) + 1):
        e = ops.equals(acc, start)
        if e is True or (isinstance(e, Sym) and interp.ctx.prove(e.t)):
            return simplify(SStr(s.pieces[j:]))
        if j < len(s.pieces):
            acc = ops.binop(ast.Add(), acc, s.plen(s.pieces[j]))
    raise Unsupported('slice start is not at a piece boundary')


def to_int(s, ops):
    s = lift(s)
    ps = [p for p in s.pieces if not (isinstance(p, str) and p.strip() == '')]
    if not ps:
        raise_('ValueError', 'invalid literal for int()')
    if any(isinstance(p, (Tok, NumText, SciText)) for p in ps):
        if any(isinstance(p, Tok) and p.first_nondigit for p in ps):
            raise_('ValueError', 'invalid literal for int()')
        raise Unsupported('int() of %r' % (s,))
    if len(ps) == 1 and isinstance(ps[0], IntText):
        return ps[0].n
    if s.is_literal():
        try:
            return int(s.literal())
        except ValueError:
            raise_('ValueError', 'invalid literal for int()')
    for p in ps:
        if isinstance(p, str) and not _all_digits(p.strip()) and \
                p.strip() not in ('+', '-'):
            if any(not (ch.isdigit() or ch in ' +-_') for ch in p):
                raise_('ValueError', 'invalid literal for int()')
    if all(isinstance(p, IntText) or (isinstance(p, str) and _all_digits(p))
           for p in ps):
        # concatenation of digit fields: positional value
        import ast
        val = 0
        for p in ps:
            if isinstance(p, str):
                val = ops.binop(ast.Add(), ops.binop(ast.Mult(), val,
                                                     10 ** len(p)), int(p))
            else:
                val = ops.binop(ast.Add(), ops.binop(ast.Mult(), val,
                                                     10 ** p.width), p.n)
        return val
    raise Unsupported('int() of %r' % (s,))


# ------------------------------------------------------------------ format

def int_text(n, spec, interp):
    """text of the integer n under a format spec such as '', 'd', '04d'"""
    if isinstance(n, bool):
        n = int(n)
    if isinstance(n, int):
        return format(n, spec)
    fill_zero = False
    width = 0
    sp = spec
    if sp.endswith('d'):
        sp = sp[:-1]
    if sp.startswith('0') and len(sp) > 1:
        fill_zero = True
        sp = sp[1:]
    if sp:
        if not sp.isdigit():
            raise Unsupported('integer format spec %r' % spec)
        width = int(sp)
    ctx = interp.ctx
    if not ctx.prove(z3int(n) >= 0):
        if ctx.branch(mk(z3int(n) < 0)):
            raise Unsupported('formatting a negative symbolic integer')
    if fill_zero and width > 0:
        if ctx.prove(z3int(n) < 10 ** width) or \
                ctx.branch(mk(z3int(n) < 10 ** width)):
            return SStr([IntText(n, width)])
        for d in range(width + 1, 9):
            if ctx.branch(mk(z3int(n) < 10 ** d)):
                return SStr([IntText(n, d)])
        raise Unsupported('symbolic integer with more than 8 digits')
    # number of digits: case split
    for d in range(1, 9):
        if ctx.branch(mk(z3int(n) < 10 ** d)):
            if d >= width:
                return SStr([IntText(n, d)])
            if fill_zero:
                return SStr([IntText(n, width)])
            return SStr([' ' * (width - d), IntText(n, d)])
    raise Unsupported('symbolic integer with more than 8 digits')


def pad_text(val, spec):
    """format(val, spec) of a string of known length under [[fill]align][width]"""
    import re
    m = re.fullmatch(r'(?:(.?)([<>^]))?(\d+)?', spec)
    if not m:
        raise Unsupported('string format spec %r' % spec)
    fill = m.group(1) or ' '
    align = m.group(2) or '<'
    width = int(m.group(3) or 0)
    v = lift(val)
    L = v.concrete_len()
    if L is None:
        raise Unsupported('padding a string of symbolic length')
    pad = max(0, width - L)
    if align == '<':
        return simplify(SStr([v, fill * pad]))
    if align == '>':
        return simplify(SStr([fill * pad, v]))
    return simplify(SStr([fill * (pad // 2), v, fill * (pad - pad // 2)]))


def format_(fmt, args, kwargs, interp):
    """str.format with structured / symbolic-integer arguments"""
    out = []
    auto = 0
    for lit, field, spec, conv in _string.Formatter().parse(fmt):
        if lit:
            out.append(lit)
        if field is None:
            continue
        if conv not in (None, 's'):
            raise Unsupported('format conversion %r' % conv)
        if field == '':
            val = args[auto]
            auto += 1
        elif field.isdigit():
            val = args[int(field)]
        elif field in kwargs:
            val = kwargs[field]
        else:
            raise Unsupported('format field %r' % field)
        spec = spec or ''
        if type(val).__name__ == 'PiV' or \
                (isinstance(val, Sym) and str(val.t) == 'pi!const'):
            import math
            val = Fraction(math.pi)
        if '{' in spec:
            spec = spec.format(*[a for a in args if isinstance(a, (str, int))],
                               **{k: v for k, v in kwargs.items()
                                  if isinstance(v, (str, int))})
        if isinstance(val, (str, SStr)):
            if spec:
                out.append(pad_text(val, spec))
            else:
                out.append(val)
        elif isinstance(val, Sym) and val.kind == 'int':
            out.append(int_text(val, spec, interp))
        elif isinstance(val, Sym) and val.kind == 'real' and \
                spec == ' 2.8E':
            out.append(sci_text(val, interp))
        elif isinstance(val, Sym) and val.kind == 'real' and spec and \
                (spec[0] in ' +' or spec[-1] in 'Ee'):
            out.append(fmt_text(val, spec, interp))
        elif isinstance(val, Sym) and val.kind == 'real' and not spec and \
                getattr(interp, 'plain_real_text', False):
            # str(float): an unknown text that is a function of the value
            out.append(plain_text(val, interp))
        elif isinstance(val, Sym) and val.kind == 'real' and spec:
            out.append(float_text(val, spec, interp))
        elif isinstance(val, (list, tuple)) and not spec and \
                getattr(interp, 'plain_real_text', False) and \
                all(isinstance(x, (Sym, Fraction, int, float, str)) and
                    not isinstance(x, bool) for x in val):
            # str(list): '[' + ', '.join(repr(x)) + ']'
            parts = ['[' if isinstance(val, list) else '(']
            for k, x in enumerate(val):
                if k:
                    parts.append(', ')
                if isinstance(x, Sym) and x.kind == 'real':
                    parts.append(plain_text(x, interp))
                elif isinstance(x, Sym):
                    return None
                elif isinstance(x, Fraction):
                    parts.append(repr(float(x)))
                else:
                    parts.append(repr(x))
            parts.append(']' if isinstance(val, list) else
                         (',)' if len(val) == 1 else ')'))
            out.append(SStr(parts))
        elif isinstance(val, bool) or val is None:
            out.append(format(val, spec))
        elif isinstance(val, int):
            out.append(format(val, spec))
        elif isinstance(val, Fraction):
            out.append(format(float(val), spec))
        else:
            return None
    return simplify(SStr(out))


def percent(fmt, args, interp):
    import re
    out = []
    k = 0
    pos = 0
    for m in re.finditer(r'%(0?)(\d*)(\.\d+f|[ds%])', fmt):
        out.append(fmt[pos:m.start()])
        pos = m.end()
        if m.group(3) == '%':
            out.append('%')
            continue
        val = args[k]
        k += 1
        if m.group(3).endswith('f'):
            if isinstance(val, Sym) and val.kind in ('real', 'int'):
                out.append(float_text(val, m.group(3), interp))
            elif isinstance(val, (int, Fraction)) and not isinstance(val, bool):
                out.append(('%' + m.group(3)) % float(val))
            else:
                return None
        elif m.group(3) == 's':
            if not isinstance(val, (str, SStr)) or m.group(2):
                return None
            out.append(val)
        else:
            spec = (m.group(1) or '') + (m.group(2) or '') + 'd'
            if isinstance(val, (int, Sym)) and not isinstance(val, bool):
                out.append(int_text(val, spec, interp))
            else:
                return None
    out.append(fmt[pos:])
    if '%' in ''.join(x for x in out if isinstance(x, str) and x == '%'):
        pass
    return simplify(SStr(out))
