"""Structural derivative and numeric evaluation of z3 terms (with atoms)."""
import math
import z3
from fractions import Fraction
from .values import Unsupported


def ddx(t, x, atoms, memo=None):
    """d t / d x for a z3 Real term t and a z3 Real constant x."""
    if memo is None:
        memo = {}
    key = t.get_id()
    if key in memo:
        return memo[key]
    r = _ddx(t, x, atoms, memo)
    memo[key] = r
    return r


ZERO = z3.RealVal(0)
ONE = z3.RealVal(1)


def _iszero(t):
    return z3.is_rational_value(t) and t.numerator_as_long() == 0


def _add(a, b):
    if _iszero(a):
        return b
    if _iszero(b):
        return a
    return a + b


def _mul(a, b):
    if _iszero(a) or _iszero(b):
        return ZERO
    return a * b


def _ddx(t, x, atoms, memo):
    if z3.is_rational_value(t) or z3.is_int_value(t):
        return ZERO
    if t.eq(x):
        return ONE
    if not z3.is_app(t):
        raise Unsupported('derivative of %s' % t)
    k = t.decl().kind()
    ch = t.children()
    if k == z3.Z3_OP_UNINTERPRETED:
        if ch:
            raise Unsupported('derivative of uninterpreted function')
        info = atoms.info.get(str(t))
        if info is None:
            return ZERO
        kind, arg = info
        if kind == 'pi' or arg is None:
            return ZERO
        if kind == 'int':
            # Leibniz rule; the integrand must not depend on x itself
            feval, a, b = arg
            probe = z3.Real('x!probe')
            if not _iszero(z3.simplify(ddx(feval(probe), x, atoms, {}))):
                raise Unsupported('integrand depends on the variable of '
                                  'differentiation')
            da = ddx(a, x, atoms, memo)
            db = ddx(b, x, atoms, memo)
            r = ZERO
            if not _iszero(db):
                r = _add(r, feval(b) * db)
            if not _iszero(da):
                r = r - feval(a) * da
            return r
        da = ddx(arg, x, atoms, memo)
        if _iszero(da):
            return ZERO
        if kind == 'exp':
            return t * da
        if kind == 'log':
            return da / arg
        if kind == 'sqrt':
            return da / (2 * t)
        raise Unsupported('derivative of atom %s' % kind)
    if k == z3.Z3_OP_ADD:
        r = ZERO
        for c in ch:
            r = _add(r, ddx(c, x, atoms, memo))
        return r
    if k == z3.Z3_OP_SUB:
        r = ddx(ch[0], x, atoms, memo)
        for c in ch[1:]:
            d = ddx(c, x, atoms, memo)
            if not _iszero(d):
                r = r - d
        return r
    if k == z3.Z3_OP_UMINUS:
        d = ddx(ch[0], x, atoms, memo)
        return ZERO if _iszero(d) else -d
    if k == z3.Z3_OP_MUL:
        r = ZERO
        for i, c in enumerate(ch):
            d = ddx(c, x, atoms, memo)
            if _iszero(d):
                continue
            term = d
            for j, o in enumerate(ch):
                if j != i:
                    term = term * o
            r = _add(r, term)
        return r
    if k == z3.Z3_OP_DIV:
        a, b = ch
        da = ddx(a, x, atoms, memo)
        db = ddx(b, x, atoms, memo)
        if _iszero(db):
            return ZERO if _iszero(da) else da / b
        return (_mul(da, b) - _mul(a, db)) / (b * b)
    if k == z3.Z3_OP_POWER:
        a, b = ch
        if z3.is_rational_value(b):
            da = ddx(a, x, atoms, memo)
            if _iszero(da):
                return ZERO
            return b * (a ** (b - 1)) * da
        raise Unsupported('derivative of symbolic power')
    if k == z3.Z3_OP_ITE:
        c, a, b = ch
        return z3.If(c, ddx(a, x, atoms, memo), ddx(b, x, atoms, memo))
    if k == z3.Z3_OP_TO_REAL:
        return ZERO
    raise Unsupported('derivative of %s' % t.decl().name())


# ---------------------------------------------------------------- numeric

class NumEvalError(Exception):
    pass


def numeval(t, env, atoms, memo=None):
    """Evaluate z3 term numerically (floats).  env: const name -> number."""
    if memo is None:
        memo = {}
    key = t.get_id()
    if key in memo:
        return memo[key]
    r = _numeval(t, env, atoms, memo)
    memo[key] = r
    return r


def _numeval(t, env, atoms, memo):
    if z3.is_int_value(t):
        return t.as_long()
    if z3.is_rational_value(t):
        return t.numerator_as_long() / t.denominator_as_long()
    if z3.is_true(t):
        return True
    if z3.is_false(t):
        return False
    if z3.is_string_value(t):
        return t.as_string()
    if not z3.is_app(t):
        raise NumEvalError('quantifier')
    k = t.decl().kind()
    ch = t.children()
    ev = lambda c: numeval(c, env, atoms, memo)
    if k == z3.Z3_OP_UNINTERPRETED:
        nm = str(t)
        if not ch:
            if nm in env:
                return env[nm]
            info = atoms.info.get(nm) if atoms is not None else None
            if info is not None:
                kind, arg = info
                if kind == 'pi':
                    return math.pi
                if kind == 'int':
                    raise NumEvalError('integral atom')
                a = ev(arg)
                try:
                    if kind == 'exp':
                        return math.exp(a)
                    if kind == 'log':
                        return math.log(a)
                    if kind == 'sqrt':
                        return math.sqrt(a)
                except (ValueError, OverflowError) as e:
                    raise NumEvalError(str(e))
            raise NumEvalError('free constant %s' % nm)
        raise NumEvalError('uninterpreted function %s' % nm)
    try:
        if k == z3.Z3_OP_ADD:
            return sum(ev(c) for c in ch)
        if k == z3.Z3_OP_SUB:
            r = ev(ch[0])
            for c in ch[1:]:
                r -= ev(c)
            return r
        if k == z3.Z3_OP_UMINUS:
            return -ev(ch[0])
        if k == z3.Z3_OP_MUL:
            r = 1
            for c in ch:
                r *= ev(c)
            return r
        if k == z3.Z3_OP_DIV:
            return ev(ch[0]) / ev(ch[1])
        if k == z3.Z3_OP_IDIV:
            a, b = ev(ch[0]), ev(ch[1])
            q = a // b if b > 0 else -(a // -b)
            return q
        if k == z3.Z3_OP_MOD:
            a, b = ev(ch[0]), ev(ch[1])
            return a % abs(b)
        if k == z3.Z3_OP_POWER:
            return ev(ch[0]) ** ev(ch[1])
        if k == z3.Z3_OP_TO_REAL:
            return float(ev(ch[0]))
        if k == z3.Z3_OP_TO_INT:
            return math.floor(ev(ch[0]))
        if k == z3.Z3_OP_ITE:
            return ev(ch[1]) if ev(ch[0]) else ev(ch[2])
        if k == z3.Z3_OP_AND:
            return all(ev(c) for c in ch)
        if k == z3.Z3_OP_OR:
            return any(ev(c) for c in ch)
        if k == z3.Z3_OP_NOT:
            return not ev(ch[0])
        if k == z3.Z3_OP_IMPLIES:
            return (not ev(ch[0])) or ev(ch[1])
        if k == z3.Z3_OP_EQ:
            a, b = ev(ch[0]), ev(ch[1])
            if isinstance(a, float) or isinstance(b, float):
                return abs(a - b) <= 1e-9 * max(1.0, abs(a), abs(b))
            return a == b
        if k == z3.Z3_OP_DISTINCT:
            vals = [ev(c) for c in ch]
            return len(set(vals)) == len(vals)
        if k == z3.Z3_OP_LE:
            return ev(ch[0]) <= ev(ch[1])
        if k == z3.Z3_OP_LT:
            return ev(ch[0]) < ev(ch[1])
        if k == z3.Z3_OP_GE:
            return ev(ch[0]) >= ev(ch[1])
        if k == z3.Z3_OP_GT:
            return ev(ch[0]) > ev(ch[1])
    except ZeroDivisionError:
        raise NumEvalError('division by zero')
    except OverflowError:
        raise NumEvalError('overflow')
    raise NumEvalError('operator %s' % t.decl().name())
