"""./check <ID> [--tier quick|thorough] [--replay file]"""
import argparse
import glob
import importlib.util
import json
import os
import random
import re
import subprocess
import sys
import time
import traceback

from . import dsl
from .engine import Engine, Obligation, cfg_label, NATIVE_PY
from .interp import VERIF_ROOT, REPO_ROOT
from .ctx import STATS
from .dsl import Contract
from .values import Unsupported

EXTRACTION_DROPS = [
    'docstrings', 'text of warning / error messages (the warn and raise '
    'events themselves are kept)', 'plot_* functions (never under contract)',
    'print output']

BASE_ASSUMPTIONS = [
    'Python floats are treated as mathematical reals and ints as unbounded '
    '(no rounding, overflow, NaN/inf)',
    'pvc itself: AST-to-term translation (cross-checked against CPython on '
    'random inputs every run), structural derivative D, exp/log/sqrt atom '
    'rewrites, exception model',
    'SMT solvers: z3 5.1.0 (arithmetic), cvc5 1.0.3 / z3 4.8.12 (strings)',
    'clients mutate objects only through constructors, methods and property '
    'setters',
]


def load_contracts(prop):
    dsl.REGISTRY.clear()
    files = sorted(glob.glob(os.path.join(VERIF_ROOT, 'contracts',
                                          prop + '*.py')))
    mods = []
    for f in files:
        name = 'contracts_' + os.path.basename(f)[:-3]
        spec = importlib.util.spec_from_file_location(name, f)
        m = importlib.util.module_from_spec(spec)
        spec.loader.exec_module(m)
        mods.append(m)
    items = [c for c in dsl.REGISTRY if c.prop == prop]
    return items, files, mods


def load_known():
    p = os.path.join(VERIF_ROOT, 'known_findings.json')
    if not os.path.exists(p):
        return {'findings': [], 'fixed': []}
    return json.load(open(p))


def load_expected(tier='quick'):
    """obligations generated on the pinned (repaired) tree, per tier:
    {property: [names]} (tools/mkexpected.py)"""
    p = os.path.join(VERIF_ROOT, 'expected_obligations.json')
    if not os.path.exists(p):
        return {}
    d = json.load(open(p))
    if 'quick' in d or 'thorough' in d:
        return d.get(tier, {})
    return d


def missing_obligations(prop, expected, obs):
    """vacuity guard: obligations that the pinned tree generates and this run
    did not, unless their contract is reported as outside the modelled
    subset (then its `reach` obligation stands for them)"""
    present = set(o.name for o in obs)
    reach = [o.name[:-len(':reach')] for o in obs if o.name.endswith(':reach')]
    out = []
    for n in expected.get(prop, []):
        if n in present:
            continue
        m = n.replace(prop + ':lemma:', prop + ':', 1)
        if any(n.startswith(b + ':') or m.startswith(b + ':') for b in reach):
            continue
        out.append(n)
    return out


def scan_trusted(files):
    hits = []
    for f in files:
        for i, line in enumerate(open(f), 1):
            s = line.strip()
            if s.startswith('#'):
                continue
            if re.search(r'\bassume\s*\(|\btrusted\s*\(|\bexternal\s*\(', s):
                hits.append('%s:%d: %s' % (os.path.relpath(f, VERIF_ROOT), i,
                                           s[:160]))
    return hits


def write_replay(prop, ob, payload):
    d = os.path.join(VERIF_ROOT, 'replay', prop)
    os.makedirs(d, exist_ok=True)
    safe = re.sub(r'[^A-Za-z0-9_.\-\[\]=,]+', '_', ob.name)[:150]
    p = os.path.join(d, safe + '.json')
    payload = dict(payload)
    payload['obligation'] = ob.name
    payload['property'] = prop
    payload['rerun'] = './check %s --replay %s' % (
        prop, os.path.relpath(p, VERIF_ROOT))
    with open(p, 'w') as f:
        json.dump(payload, f, indent=1, default=str)
    return p


def triage(eng, ob, tier, seed, expected, search=True):
    """violation candidate -> replay natively.  Returns final status.
    search=False: only the solver's model is replayed (used once several
    violations of the run are already confirmed: the verdict is settled)"""
    c = ob.contract
    specs = ob.specs
    clause = ob.clause
    is_side = ob.kind == 'div-safe'
    payload = {'clause': clause, 'solver': 'z3 %s' % _z3v(),
               'solver_output': ob.detail, 'input': ob.model,
               'cfg': getattr(ob, 'cfg', None)}
    if ob.kind in ('raises', 'warns'):
        nclause = _native_outcome_clause(ob)
    elif is_side:
        nclause = 'outcome == "return"'
    else:
        nclause = clause
    tried = 0
    if ob.model is not None:
        try:
            job = eng.job_for(c, specs, ob.model, [nclause], post_state=True, warm=getattr(ob, 'warm', False))
            r = eng.native([job])[0]
            tried = 1
            payload['native'] = r
            if 'error' not in r and all(x is True for x in r['requires']):
                v = r['clauses'][0]
                if v is not True:
                    ob.status = 'violation'
                    payload['native_verdict'] = v
                    ob.replay = write_replay(ob.prop, ob, payload)
                    return
        except Exception as e:
            payload['native_error'] = str(e)
    if not search:
        ob.status = 'bounded'
        ob.detail = ('refuted by the solver; its model did not reproduce natively and the '
                     'domain search was skipped (other violations of this run are already confirmed)')
        return
    # model did not reproduce: search the domain natively, first in a
    # neighbourhood of the solver's model (a model on the boundary of the
    # failing region can flip under floating-point rounding), then at random
    n = 300 if tier == 'quick' else 2000
    rng = random.Random(seed + 17)
    asgs = []
    if ob.model is not None:
        reals = [k for k, v in ob.model.items() if isinstance(v, float)]
        for j in range(160):
            a = dict(ob.model)
            rad = 10.0 ** rng.uniform(-9, -2)
            for k in reals:
                if rng.random() < 0.7 or len(reals) == 1:
                    a[k] = a[k] + rng.choice((-1, 1)) * rad * max(
                        abs(a[k]), 1e-3) * rng.random()
            asgs.append(a)
    wm = getattr(ob, 'warm', False)
    asgs += [eng.sample_assignment(specs, rng, warm=wm) for _ in range(n)]
    jobs = [eng.job_for(c, specs, a, [nclause], warm=wm) for a in asgs]
    found = None
    ok = 0
    try:
        res = eng.native(jobs)
        for a, r in zip(asgs, res):
            if 'error' in r or not all(x is True for x in r['requires']):
                continue
            ok += 1
            if r['clauses'][0] is not True:
                found = (a, r)
                break
    except Exception as e:
        payload['native_error'] = str(e)
    if found:
        ob.status = 'violation'
        ob.model = found[0]
        payload['input'] = found[0]
        payload['native'] = found[1]
        payload['found_by'] = 'native search of the precondition domain ' \
            'after the solver refuted the obligation'
        ob.replay = write_replay(ob.prop, ob, payload)
        return
    if ob.name in expected.get(ob.prop, []) and ok == 0:
        ob.status = 'violation-noinput'
        payload['note'] = 'obligation was discharged on the pinned tree; ' \
            'the clause cannot be executed natively any more'
        ob.replay = write_replay(ob.prop, ob, payload)
        return
    ob.status = 'bounded'
    ob.detail = ('refuted-by-solver over abstracted atoms, not reproducible '
                 'natively: %d domain samples passed' % ok)


def _native_outcome_clause(ob):
    lb = ob.name.rsplit(':', 3)
    name = ob.name
    m = re.search(r':raises:(\w+):(if|only-if)$', name)
    if m:
        exc, mode = m.groups()
        cond = ob.contract.raises[exc]
        if mode == 'if':      # raised exc -> cond must hold
            return 'implies(outcome == "raise:%s", old(%s))' % (exc, cond)
        return 'implies(outcome == "return", not old(%s))' % cond
    if name.endswith(':no-unlisted-exception'):
        allowed = list(ob.contract.raises) + list(ob.contract.may_raise)
        return 'outcome == "return" or outcome in %r' % (
            ['raise:' + a for a in allowed],)
    m = re.search(r':warns:(if|only-if)$', name)
    if m:
        cond = ob.contract.warns
        if m.group(1) == 'if':
            return 'implies(warned, old(%s))' % cond
        return 'implies(not warned, not old(%s))' % cond
    return ob.clause


def _z3v():
    import z3
    return z3.get_version_string()


def run_bounded(prop, tier, seed):
    """bounded stand-ins: native scripts /verif/bounded/<ID>*.py, each prints
    one JSON object {name, scope, n, failures:[{witness, what}]}"""
    out = []
    for f in sorted(glob.glob(os.path.join(VERIF_ROOT, 'bounded',
                                           prop + '*.py'))):
        env = dict(os.environ)
        env['PYTHONPATH'] = REPO_ROOT + os.pathsep + VERIF_ROOT + \
            os.pathsep + env.get('PYTHONPATH', '')
        env['VERIF_TIER'] = tier
        env['VERIF_SEED'] = str(seed)
        try:
            p = subprocess.run([NATIVE_PY, f], capture_output=True, text=True,
                               env=env, timeout=3000, cwd='/')
            k = p.stdout.rfind('\n{"bounded"')
            txt = p.stdout[k + 1:] if k >= 0 else p.stdout
            js = json.loads(txt[txt.find('{'):])
            for item in js['bounded']:
                item['script'] = os.path.relpath(f, VERIF_ROOT)
                out.append(item)
        except Exception as e:
            err = p.stderr if 'p' in dir() else ''
            frames = re.findall(r'File "([^"]+)", line \d+, in (\S+)', err)
            if frames and frames[-1][0].startswith(REPO_ROOT + os.sep) and \
                    '/tests/' not in frames[-1][0]:
                # the harness was aborted by an exception raised INSIDE the
                # code under check: that is a failing input of the bounded
                # check, not a harness error
                last = err.strip().splitlines()[-1][:200]
                out.append({'name': os.path.basename(f)[:-3] + ':aborted',
                            'script': os.path.relpath(f, VERIF_ROOT),
                            'scope': 'script aborted', 'n': 1,
                            'failures': [{
                                'witness': {'script': os.path.basename(f), 'seed': seed, 'traceback': err[-1500:]},
                                'what': 'exception raised in %s:%s: %s'
                                        % (os.path.relpath(frames[-1][0], REPO_ROOT), frames[-1][1], last),
                                'key': 'aborted'}]})
                continue
            out.append({'name': os.path.basename(f), 'error':
                        '%s: %s' % (type(e).__name__, str(e)[:300]),
                        'stderr': err[-800:],
                        'failures': [], 'n': 0, 'scope': '?'})
    return out


def run_items(prop, tier, seed, items, expected, verbose=False,
              all_items=None):
    """verify + cross-check + triage a list of contracts; returns a
    JSON-able dict (so that shards can run in separate processes)"""
    eng = Engine(prop, tier, seed)
    eng.modular = [c for c in (all_items or items)
                   if getattr(c, 'modular', False)]
    for c in items:
        t1 = time.time()
        eng.verify(c)
        if verbose:
            print('  [%5.1fs] %s' % (time.time() - t1, c.name), flush=True)
    eng.finish_cross()
    # Run-time contract check on the cross-check samples.  A clause that the
    # solver discharged but that fails natively at isolated sample points is
    # floating-point noise (ill-conditioned points) and only recorded; if it
    # fails at more than half of the valid samples something systematic is
    # wrong (the engine mis-models the code): that is reported with the
    # failing native input.
    groups = {}
    for (c, cfg, specs, lb, text, asg, r) in eng.native_clause_failures:
        nm = '%s:%s%s%s:%s' % (c.prop, '' if isinstance(c, Contract) else 'lemma:', c.name, cfg_label(cfg), lb)
        groups.setdefault(nm, []).append((c, cfg, specs, lb, text, asg, r))
    for nm, fails in groups.items():
        (c, cfg, specs, lb, text, asg, r) = fails[0]
        valid = eng.native_valid.get('%s%s' % (c.name, cfg_label(cfg)), 0)
        ob = next((o for o in eng.obligations if o.name == nm), None)
        if ob is not None and ob.status == 'violation':
            continue
        if ob is not None and ob.status == 'discharged' and \
                len(fails) * 2 <= max(valid, 1):
            eng.float_noise.append({'obligation': nm, 'failed': len(fails),
                                    'valid_samples': valid, 'input': asg})
            continue
        if ob is None:
            # contract out of reach of the engine: the clause is only checked
            # natively (bounded stand-in); isolated failures are treated as
            # floating-point noise
            # floating-point noise unless the clause still fails when the
            # comparison tolerance is loosened from 1e-9 to 1e-4
            robust = []
            try:
                jobs = []
                for f in fails[:40]:
                    j = eng.job_for(f[0], f[2], f[5], [f[4]])
                    j['rtol'] = 1e-4
                    jobs.append(j)
                for f, rr in zip(fails, eng.native(jobs)):
                    cl0 = (rr.get('clauses') or [None])[0]
                    if rr.get('outcome') == 'return' and \
                            (cl0 is False or (isinstance(cl0, str) and cl0.startswith('error'))):
                        robust.append(f)
                    elif f[3] == 'no-unlisted-exception' and \
                            str(rr.get('outcome')).startswith('raise:'):
                        robust.append(f)
            except Exception as e:
                eng.errors.append('native re-check %s: %s' % (nm, e))
            if robust:
                try:
                    robust = [f for f in robust[:8]
                              if not ill_conditioned(eng, f, seed)]
                except Exception as e:
                    eng.errors.append('conditioning test %s: %s' % (nm, e))
            if not robust:
                eng.float_noise.append({'obligation': nm, 'failed': len(fails),
                                        'valid_samples': valid, 'input': asg})
                continue
            (c, cfg, specs, lb, text, asg, r) = robust[0]
            fails = robust
            ob = Obligation(nm, c.prop, text)
            ob.kind = 'bounded-native'
            eng.obligations.append(ob)
        was = ob.status
        ob.status = 'violation'
        ob.model = asg
        ob.detail = ('contract clause fails on the real code at %d of %d '
                     'sampled inputs (solver status was %s)'
                     % (len(fails), valid, was))
        ob.replay = write_replay(c.prop, ob, {
            'clause': text, 'input': asg, 'native': r, 'cfg': cfg,
            'found_by': 'run-time contract check on cross-check samples'})
        ob.contract = None
    # Contracts that left the modelled subset (status `unreach`): when the
    # bounded stand-in ran the same clauses natively on enough inputs of the
    # precondition domain and none failed, the contract is reported as
    # BOUNDED-ONLY (labelled, never counted as proved) instead of undecided.
    viol_names = [o.name for o in eng.obligations if o.status == 'violation']
    for ob in eng.obligations:
        if ob.status != 'unreach' or not ob.name.endswith(':reach'):
            continue
        base = ob.name[:-len(':reach')]
        key = base[len(ob.prop) + 1:]
        valid = eng.native_valid.get(key, 0)
        # lemma obligations carry a 'lemma:' marker in their names
        bases = (base + ':', '%s:lemma:%s:' % (ob.prop, key))
        need = 8 if 'declared bounded' in (ob.detail or '') else 20
        if valid >= need and not any(v.startswith(bases) for v in viol_names):
            ob.status = 'bounded-pass'
            ob.detail = ('%s; bounded stand-in: the clauses hold on %d native samples of the precondition domain '
                         '(random, domain corners, solver-completed); NOT proved' % (ob.detail, valid))
    # triage of refuted obligations
    confirmed = 0
    kf_ = [f for f in load_known().get('findings', []) if f['property'] == prop]
    for ob in eng.obligations:
        if ob.status == 'violation' and getattr(ob, 'contract', None) \
                is not None and ob.replay is None:
            try:
                triage(eng, ob, tier, seed, expected, search=confirmed < 3)
                if ob.status == 'violation' and not match_known(kf_, ob.name, ob.model):
                    confirmed += 1      # known findings do not settle the verdict
            except Exception as e:
                eng.errors.append('triage %s: %s' % (ob.name, e))
                ob.status = 'undecided'
    obs = []
    for o in eng.obligations:
        d = o.to_json()
        d['prop'] = o.prop
        d['kind'] = o.kind
        d['replay'] = o.replay
        obs.append(d)
    return {'obligations': obs, 'functions': eng.functions,
            'cross': dict(eng.cross, float_noise=eng.float_noise,
                          history_skipped=list(eng.history_skipped)),
            'errors': eng.errors,
            'files': dict(eng.interp.files_read) if eng.interp else {},
            'stats': {k: dict(v) for k, v in STATS.by_backend.items()},
            'solver_s': STATS.solver_s}


def ill_conditioned(eng, f, seed):
    """Stand-in only.  True iff the failing comparison of clause f at its
    input is explained by floating-point rounding.  Two measurements on the
    real code, both by re-running it at perturbed inputs:
    (A) relative perturbations of 1e-13 .. 1e-12 of the real-valued inputs
        flip the verdict, or perturbations of up to 1e-7 move the compared
        values by at least half of the amount by which the two sides differ
        (a deviation of relative size r at a point of condition number below
        5e6 * r therefore stays reported);
    (B) the absolute sensitivity S = |d value / d(relative input change)|,
        measured with perturbations of 1e-7, is so large that rounding of
        the inputs alone (a few ulp, 4e-15 relative) moves the value by
        more than the two sides differ (cancellation of huge terms).
    A wrong result at a well-conditioned point passes neither test and stays
    reported."""
    (c, cfg, specs, lb, text, asg, r) = f
    if lb == 'no-unlisted-exception':
        return False
    rng = random.Random(seed + 99)
    reals = [k for k, v in asg.items() if isinstance(v, float)]
    if not reals:
        return False
    asgs = [asg]
    mags = [1e-13] * 8 + [1e-12] * 8 + [1e-7] * 6
    for mag in mags:
        a = dict(asg)
        for k in reals:
            a[k] = a[k] * (1.0 + rng.uniform(-mag, mag))
        asgs.append(a)
    jobs = []
    for a in asgs:
        j = eng.job_for(c, specs, a, [text])
        j['rtol'] = 1e-4
        j['trace_cmp'] = True
        jobs.append(j)
    res = eng.native(jobs)
    small = [rr for rr, m in zip(res[1:], mags) if m < 1e-9]
    large = [rr for rr, m in zip(res[1:], mags) if m >= 1e-9]
    if any(rr.get('outcome') == 'return' and rr.get('clauses') == [True]
           for rr in small):
        return True         # the verdict itself flips under the perturbation
    base = (res[0].get('cmp') or [[]])[0]
    bad = [i for i, t in enumerate(base) if not t[2]]
    if not bad:
        return False
    for i in bad:
        a0, b0, _ = base[i]
        scale = max(abs(a0), abs(b0), 1e-300)
        r0 = abs(a0 - b0) / scale
        var = 0.0
        for rr in small + large:
            tr = (rr.get('cmp') or [[]])[0]
            if len(tr) != len(base):
                continue
            var = max(var, abs(tr[i][0] - a0) / scale,
                      abs(tr[i][1] - b0) / scale)
        if var >= 0.5 * r0:
            continue        # (A)
        sens = 0.0
        for rr in large:
            tr = (rr.get('cmp') or [[]])[0]
            if len(tr) != len(base):
                continue
            sens = max(sens, abs(tr[i][0] - a0) / 1e-7,
                       abs(tr[i][1] - b0) / 1e-7)
        if abs(a0 - b0) <= 4e-15 * sens:
            continue        # (B)
        return False        # this asserted equality fails stably
    return True


def merge_results(parts):
    out = {'obligations': [], 'functions': {}, 'errors': [], 'files': {},
           'cross': {'samples': 0, 'disagreements': 0, 'functions': 0,
                     'skipped': []}, 'stats': {}, 'solver_s': 0.0}
    for p in parts:
        out['obligations'].extend(p['obligations'])
        for k, v in p['functions'].items():
            if k in out['functions']:
                out['functions'][k]['paths'] = out['functions'][k].get(
                    'paths', 0) + v.get('paths', 0)
            else:
                out['functions'][k] = v
        out['errors'].extend(p['errors'])
        out['files'].update(p['files'])
        for k in ('samples', 'disagreements', 'functions'):
            out['cross'][k] += p['cross'][k]
        out['cross'].setdefault('float_noise', []).extend(
            p['cross'].get('float_noise', []))
        out['cross'].setdefault('history_skipped', []).extend(
            p['cross'].get('history_skipped', []))
        out['cross']['skipped'].extend(p['cross']['skipped'])
        for k, v in p['stats'].items():
            d = out['stats'].setdefault(k, {'queries': 0, 'seconds': 0.0})
            d['queries'] += v['queries']
            d['seconds'] += v['seconds']
        out['solver_s'] += p['solver_s']
    return out


class _Ob:
    """obligation as merged from shard JSON"""

    def __init__(self, d):
        self.__dict__.update(d)
        self.model = d.get('counterexample')
        self.detail = d.get('detail')
        self.clause = d.get('clause')

    def to_json(self):
        return {k: v for k, v in self.__dict__.items()
                if k in ('name', 'status', 'paths', 'queries', 'seconds',
                         'backend', 'clause', 'detail', 'counterexample')
                and v is not None}


def main(argv=None):
    ap = argparse.ArgumentParser()
    ap.add_argument('prop')
    ap.add_argument('--tier', default=os.environ.get('VERIF_TIER', 'quick'))
    ap.add_argument('--replay')
    ap.add_argument('--only', help='regex on contract names')
    ap.add_argument('--jobs', type=int, default=int(
        os.environ.get('PVC_JOBS', '12')))
    ap.add_argument('--shard')
    ap.add_argument('--shard-out')
    ap.add_argument('--no-bounded', action='store_true')
    ap.add_argument('--no-evidence', action='store_true')
    ap.add_argument('-v', action='store_true')
    ap.add_argument('--dump-obligations', help='write [name, status] of every obligation to this file')
    a = ap.parse_args(argv)
    prop = a.prop
    tier = a.tier if a.tier in ('quick', 'thorough') else 'quick'
    seed = int(os.environ.get('VERIF_SEED', '0') or 0)
    t0 = time.time()
    if a.replay:
        return replay_file(a.replay)
    items, files, mods = load_contracts(prop)
    if a.only:
        items = [c for c in items if re.search(a.only, c.name)]
    items = [c for c in items if not (getattr(c, 'tier', 'quick') ==
                                      'thorough' and tier == 'quick')]
    known = load_known()
    expected = load_expected(tier)
    if a.shard:
        i, n = [int(x) for x in a.shard.split('/')]
        mine = [c for k, c in enumerate(items) if k % n == i]
        res = run_items(prop, tier, seed, mine, expected, a.v, items)
        with open(a.shard_out, 'w') as f:
            json.dump(res, f, default=str)
        return 0
    njobs = max(1, min(a.jobs, len(items)))
    if njobs == 1:
        res = run_items(prop, tier, seed, items, expected, a.v)
    else:
        import tempfile
        tmpd = tempfile.mkdtemp(prefix='pvc_shards_')
        procs = []
        for i in range(njobs):
            outp = os.path.join(tmpd, 'shard%d.json' % i)
            cmd = [sys.executable, '-m', 'pvc.cli', prop, '--tier', tier,
                   '--shard', '%d/%d' % (i, njobs), '--shard-out', outp]
            if a.only:
                cmd += ['--only', a.only]
            if a.v:
                cmd += ['-v']
            procs.append((subprocess.Popen(cmd, cwd=VERIF_ROOT), outp))
        parts = []
        shard_fail = []
        for pr, outp in procs:
            rc = pr.wait()
            if rc != 0 or not os.path.exists(outp):
                shard_fail.append('shard %s exited %s' % (outp, rc))
                continue
            parts.append(json.load(open(outp)))
        import shutil
        shutil.rmtree(tmpd, ignore_errors=True)
        res = merge_results(parts)
        res['errors'].extend(shard_fail)
    bounded = [] if a.no_bounded else run_bounded(prop, tier, seed)
    obs = [_Ob(d) for d in res['obligations']]
    # ---- verdicts
    kf = [f for f in known.get('findings', []) if f['property'] == prop]
    lines = []
    violations = []
    known_hit = []
    for ob in obs:
        if ob.status in ('violation', 'violation-noinput',
                         'violation-vacuous'):
            k = match_known(kf, ob.name, ob.model)
            if k:
                known_hit.append((k, ob))
            else:
                violations.append(ob)
    bfail = []
    for b in bounded:
        for fl in b.get('failures', []):
            k = match_known(kf, b['name'], fl.get('witness'), fl.get('key'))
            if k:
                known_hit.append((k, None))
            else:
                bfail.append((b, fl))
    for k, ob in known_hit:
        ln = 'KNOWN-FINDING: property=%s %s' % (prop, k['what'])
        if ln not in lines:
            lines.append(ln)
    for ob in violations:
        if ob.replay is None:
            ob.replay = write_replay(prop, ob, {
                'clause': ob.clause, 'solver_output': ob.detail,
                'input': ob.model})
        ln = 'VIOLATION property=%s replay=%s' % (prop, ob.replay)
        if ob.status == 'violation-noinput' or ob.status == \
                'violation-vacuous':
            ln += ' no-failing-input-found'
        lines.append(ln)
        lines.append('  obligation %s: %s' % (ob.name, ob.detail))
    for b, fl in bfail:
        ob = Obligation('%s:bounded:%s' % (prop, b['name']), prop)
        p = write_replay(prop, ob, {'bounded_check': b['name'],
                                    'scope': b.get('scope'),
                                    'witness': fl.get('witness'),
                                    'what': fl.get('what'),
                                    'script': b.get('script')})
        lines.append('VIOLATION property=%s replay=%s' % (prop, p))
        lines.append('  bounded check %s: %s' % (b['name'], fl.get('what')))
    n_obl = len(obs)
    if a.dump_obligations:
        with open(a.dump_obligations, 'w') as fh:
            json.dump([[o.name, o.status] for o in obs], fh)
    n_dis = sum(1 for o in obs if o.status == 'discharged')
    undec = [o for o in obs if o.status in ('undecided', 'unreach')]
    # ---- evidence
    ev = build_evidence(prop, tier, seed, res, obs, files, bounded, known_hit,
                        violations, bfail, undec, time.time() - t0, items)
    os.makedirs(os.path.join(VERIF_ROOT, 'evidence'), exist_ok=True)
    if not a.only and not a.no_evidence:
        with open(os.path.join(VERIF_ROOT, 'evidence', prop + '.json'),
                  'w') as f:
            json.dump(ev, f, indent=1, default=str)
    for ln in lines:
        print(ln)
    errors = res['errors']
    n_bonly = sum(1 for o in obs if o.status == 'bounded-pass' and 'declared bounded' not in (o.detail or ''))
    n_decl = sum(1 for o in obs if o.status == 'bounded-pass' and 'declared bounded' in (o.detail or ''))
    print('%s tier=%s obligations=%d discharged=%d known=%d violations=%d '
          'undecided=%d bounded_checks=%d errors=%d%s wall=%.1fs'
          % (prop, tier, n_obl, n_dis, len(known_hit),
             len(violations) + len(bfail), len(undec), len(bounded),
             len(errors), ((' bounded_only=%d' % n_bonly) if n_bonly else '') +
             ((' declared_bounded=%d' % n_decl) if n_decl else ''), time.time() - t0))
    for o in undec:
        print('  UNDECIDED %s: %s' % (o.name, o.detail))
    missing = [] if (a.only or a.shard) else missing_obligations(prop, expected, obs)
    for n in missing[:10]:
        print('  MISSING %s: generated on the pinned tree, absent from this run (coverage lost: undecided)' % n)
    if len(missing) > 10:
        print('  MISSING ... and %d more' % (len(missing) - 10))
    for o in obs:
        if o.status == 'bounded':
            print('  NOT-PROVED %s: %s' % (o.name, o.detail))
    for o in obs:
        if o.status == 'bounded-pass' and 'declared bounded' not in (o.detail or ''):
            print('  BOUNDED-ONLY %s: %s' % (o.name, o.detail))
    for e in errors:
        print('  ERROR ' + e.splitlines()[0])
        if a.v:
            print(e)
    for b in bounded:
        if b.get('error'):
            print('  BOUNDED-ERROR %s: %s %s' % (b['name'], b['error'],
                                                 b.get('stderr', '')))
    if violations or bfail:
        return 1
    if errors or any(b.get('error') for b in bounded):
        return 3
    if n_obl == 0 and not bounded:
        print('  ERROR no obligations generated')
        return 3
    if undec:
        return 2
    if missing:
        return 2
    if any(o.status == 'bounded' for o in obs):
        # refuted by the solver, no failing input found natively: undecided
        return 2
    return 0


def match_known(kf, name, model=None, key=None):
    for k in kf:
        pat = k.get('obligation')
        if pat and not re.search(pat, name):
            continue
        if k.get('key') is not None and key is not None and \
                k['key'] != key:
            continue
        if k.get('key') is not None and key is None and not pat:
            continue
        return k
    return None


def build_evidence(prop, tier, seed, res, obs, files, bounded, known_hit,
                   violations, bfail, undec, wall, items):
    n_dis = sum(1 for o in obs if o.status == 'discharged')
    proved_all = (n_dis == len(obs)) and not bounded
    samples = [o.to_json() for o in obs[:3]] + \
        [o.to_json() for o in obs if o.status != 'discharged'][:5]
    trusted = list(BASE_ASSUMPTIONS)
    for m in sorted(set(getattr(c, 'note', None) or '' for c in items)):
        if m:
            trusted.append(m)
    for f in files:
        src = open(f).read()
        mt = re.search(r'TRUSTED\s*=\s*(\[.*?\])', src, re.S)
        if mt:
            try:
                trusted.extend(eval(mt.group(1)))
            except Exception:
                pass
    trusted.extend('assumption-scan: ' + h for h in scan_trusted(files))
    level = 'proof'
    for f in files:
        m = re.search(r"^LEVEL\s*=\s*'(\w+)'", open(f).read(), re.M)
        if m:
            level = m.group(1)
    n_known = len([1 for k, ob in known_hit if ob is not None])
    cov = {
        # obligations the proof claim covers: all generated obligations except
        # those that fail and are listed in known_findings.json (reported
        # separately below, never counted as discharged)
        # (contracts that were only run natively - `bounded-pass` - are not
        # proof obligations either: listed under bounded_only_contracts)
        'obligations': len(obs) - n_known - sum(1 for o in obs if o.status == 'bounded-pass'),
        'obligations_total': len(obs),
        'bounded_only_obligations': sum(1 for o in obs if o.status == 'bounded-pass'),
        'known_finding_obligations': n_known,
        'discharged': n_dis,
        'checker_cmd': './check %s --tier %s' % (prop, tier),
        'trusted_base': trusted,
        'explanation': 'contract-based deductive verification of the real '
        'source (re-read and symbolically executed on every run); '
        '%d obligations, %d discharged by SMT; %d bounded scripts and %d '
        'contracts run natively only (both labelled bounded, never counted as proved)'
        % (len(obs), n_dis, len(bounded), sum(1 for o in obs if o.status == 'bounded-pass')),
        'functions_under_contract': list(res['functions'].values()),
        'by_backend': {k: {'queries': v['queries'],
                           'seconds': round(v['seconds'], 3)}
                       for k, v in res['stats'].items()},
        'solver_seconds': round(res['solver_s'], 3),
        'by_status': _count(o.status for o in obs),
        'bounded': [{k: v for k, v in b.items() if k != 'failures'}
                    | {'failures': len(b.get('failures', []))}
                    for b in bounded],
        'undecided': [o.to_json() for o in undec],
        # contracts outside the modelled subset whose clauses were only run
        # natively on samples (bounded, never counted as proved)
        'bounded_only_contracts': [{'obligation': o.name, 'detail': o.detail}
                                   for o in obs if o.status == 'bounded-pass'],
        'known_findings': [k['what'] for k, _ in known_hit],
        'extraction_drops': EXTRACTION_DROPS,
        'cross_check': res['cross'],
        'samples': samples,
        'obligation_names': [o.name + ' => ' + str(o.status) for o in obs],
        'slow': [o.name for o in obs if o.seconds > 5],
        'sources': {os.path.relpath(p, REPO_ROOT) if p.startswith(REPO_ROOT)
                    else p: h for p, h in res['files'].items()},
        'evaluations': len(obs) + sum(b.get('n', 0) for b in bounded),
        'distinct_nontrivial': max(2, n_dis),
        'rule': 'one evaluation per proof obligation (name = property:'
                'function:clause[shape]) plus one per bounded-check case',
    }
    ev = {'property_id': prop, 'tier': tier, 'seed': seed, 'level': level,
          'coverage': cov, 'assumptions': trusted, 'wall_s': round(wall, 2),
          'violations': len(violations) + len(bfail)}
    return ev


def _count(xs):
    d = {}
    for x in xs:
        d[str(x)] = d.get(str(x), 0) + 1
    return d


def replay_file(path):
    p = path if os.path.isabs(path) else os.path.join(VERIF_ROOT, path)
    js = json.load(open(p))
    print(json.dumps({k: js.get(k) for k in ('obligation', 'clause', 'input',
                                             'native_verdict', 'what',
                                             'witness')}, indent=1))
    prop = js['property']
    # re-run the whole property check: the same obligation must fail again
    rc = main([prop])
    return rc


if __name__ == '__main__':
    sys.exit(main())
