"""C11 - JSON serialisation round-trips every pMuTT object (pmutt/io/json.py
and the to_dict / from_dict pairs).  Per class: the object encodes, decodes to
the same class, every constructor-established attribute is restored, and
decoding does not alter the dictionary it is given."""
from pvc.dsl import *

P = 'C11'
TRUSTED = ['JSON value model of json.dumps / json.loads with pmuttEncoder / json_to_pmutt (spec/jsonrt_model.py): '
           'objects -> to_dict(), tuples -> lists, keys -> str, object_hook applied bottom-up']
R = Real(-5., 5.)
POS = Real(0.5, 5.)


def cov():
    return New('pmutt.mixture.cov:PiecewiseCovEffect', name_i=Const('A'), name_j=Const('B'),
               intervals=ListOf([Const(0.), Real(0.2, 0.6)]), slopes=RealList(2, -30., 30.), name=Const('AB'))


def nasa(**extra):
    return New('pmutt.empirical.nasa:Nasa', name=Const('H2O'), T_low=Real(100., 300.), T_mid=Real(500., 1500.),
               T_high=Real(2000., 6000.), a_low=RealVec(7, -5., 5.), a_high=RealVec(7, -5., 5.),
               phase=Const('G'), elements=Const({'H': 2, 'O': 1}), notes=Const('note'), smiles=Const('O'), **extra)


def statmech(**extra):
    return New('pmutt.statmech:StatMech', name=Const('H2O'),
               trans_model=New('pmutt.statmech.trans:FreeTrans', n_degrees=Const(3), molecular_weight=Real(1., 50.)),
               vib_model=New('pmutt.statmech.vib:HarmonicVib', vib_wavenumbers=RealList(3, 500., 4000.)),
               rot_model=New('pmutt.statmech.rot:RigidRotor', symmetrynumber=Const(2), rot_temperatures=RealList(3, 1., 50.),
                             geometry=Const('nonlinear')),
               elec_model=New('pmutt.statmech.elec:GroundStateElec', potentialenergy=Real(-20., -1.), spin=Const(0.)),
               nucl_model=New('pmutt.statmech.nucl:EmptyNucl'),
               elements=Const({'H': 2, 'O': 1}), notes=Const('note'), smiles=Const('O'), **extra)


def species(nm):
    return New('pmutt.empirical.nasa:Nasa', name=Const(nm), T_low=Const(100.), T_mid=Const(500.), T_high=Const(1500.),
               a_low=RealVec(7, -5., 5.), a_high=RealVec(7, -5., 5.), phase=Const('G'), elements=Const({'H': 2}))


def reaction(cls='pmutt.reaction:Reaction', **extra):
    return New(cls, reactants=ListOf([species('A'), species('B')]), reactants_stoich=ListOf([Const(1.), Const(2.)]),
               products=ListOf([species('C')]), products_stoich=ListOf([Const(1.)]),
               transition_state=ListOf([species('TS')]), transition_state_stoich=ListOf([Const(1.)]), **extra)


CLASSES = {
    'FreeTrans': (New('pmutt.statmech.trans:FreeTrans', n_degrees=Const(3), molecular_weight=Real(1., 50.)),
                  ['n_degrees', 'molecular_weight']),
    'HarmonicVib': (New('pmutt.statmech.vib:HarmonicVib', vib_wavenumbers=RealList(3, 500., 4000.), imaginary_substitute=Real(10., 100.)),
                    ['vib_wavenumbers', 'imaginary_substitute']),
    'QRRHOVib': (New('pmutt.statmech.vib:QRRHOVib', vib_wavenumbers=RealList(2, 500., 4000.), Bav=Real(1e-45, 1e-43), v0=Real(50., 200.)),
                 ['vib_wavenumbers', 'Bav', 'v0', 'alpha', 'imaginary_substitute']),
    'EinsteinVib': (New('pmutt.statmech.vib:EinsteinVib', einstein_temperature=Real(50., 2000.), interaction_energy=R),
                    ['einstein_temperature', 'interaction_energy']),
    'DebyeVib': (New('pmutt.statmech.vib:DebyeVib', debye_temperature=Real(50., 2000.), interaction_energy=R),
                 ['debye_temperature', 'interaction_energy']),
    'RigidRotor': (New('pmutt.statmech.rot:RigidRotor', symmetrynumber=Const(2), rot_temperatures=RealList(3, 1., 50.), geometry=Const('nonlinear')),
                   ['symmetrynumber', 'rot_temperatures', 'geometry']),
    'GroundStateElec': (New('pmutt.statmech.elec:GroundStateElec', potentialenergy=Real(-20., -1.), spin=Real(0., 2.), D0=Real(0.1, 5.)),
                        ['potentialenergy', 'spin', 'D0']),
    'EmptyNucl': (New('pmutt.statmech.nucl:EmptyNucl'), []),
    'EmptyMode': (New('pmutt.statmech:EmptyMode'), []),
    'ConstantMode': (New('pmutt.statmech:ConstantMode', q=POS, Cv=R, Cp=R, U=R, H=R, S=R, F=R, G=R, notes=Const('n')),
                     ['q', 'Cv', 'Cp', 'U', 'H', 'S', 'F', 'G', 'notes']),
    'StatMech': (statmech(), ['name', 'elements', 'notes', 'smiles', 'trans_model', 'vib_model', 'rot_model', 'elec_model', 'nucl_model']),
    'StatMech+misc': (statmech(misc_models=ListOf([cov()])), ['name', 'misc_models']),
    'Nasa': (nasa(), ['name', 'phase', 'elements', 'notes', 'smiles', 'T_low', 'T_mid', 'T_high', 'a_low', 'a_high', 'misc_models']),
    'Nasa+misc': (nasa(misc_models=ListOf([cov()])), ['misc_models']),
    'SingleNasa9': (New('pmutt.empirical.nasa:SingleNasa9', T_low=Real(100., 300.), T_high=Real(900., 1000.), a=RealVec(9, -5., 5.)),
                    ['T_low', 'T_high', 'a']),
    'Nasa9': (New('pmutt.empirical.nasa:Nasa9', name=Const('H2O'), phase=Const('G'), elements=Const({'H': 2, 'O': 1}),
                  nasas=ListOf([New('pmutt.empirical.nasa:SingleNasa9', T_low=Real(100., 300.), T_high=Real(900., 1000.), a=RealVec(9, -5., 5.))])),
              ['name', 'phase', 'elements', 'nasas', 'n_sites']),
    'Nasa9[2 intervals, any order]': (
        New('pmutt.empirical.nasa:Nasa9', name=Const('H2O'), phase=Const('G'), elements=Const({'H': 2, 'O': 1}),
            nasas=ListOf([New('pmutt.empirical.nasa:SingleNasa9', T_low=Real(100., 1000.), T_high=Real(1000., 6000.), a=RealVec(9, -5., 5.)),
                          New('pmutt.empirical.nasa:SingleNasa9', T_low=Real(100., 1000.), T_high=Real(1000., 6000.), a=RealVec(9, -5., 5.))])),
        ['nasas']),
    'Shomate': (New('pmutt.empirical.shomate:Shomate', name=Const('H2O'), T_low=Real(100., 300.), T_high=Real(2000., 6000.),
                    a=RealVec(8, -5., 5.), units=Const('J/mol/K'), phase=Const('G'), elements=Const({'H': 2, 'O': 1}), n_sites=Const(2)),
                ['name', 'phase', 'elements', 'T_low', 'T_high', 'a', 'units', 'n_sites']),
    'GasPressureAdj': (New('pmutt.empirical:GasPressureAdj'), []),
    'PiecewiseCovEffect': (cov(), ['name_i', 'name_j', 'intervals', 'slopes', 'name']),
    'CatSite': (New('pmutt.chemkin:CatSite', name=Const('PT'), site_density=Real(1e-10, 1e-8), density=Real(1., 30.), bulk_specie=Const('PT(B)')),
                ['name', 'site_density', 'density', 'bulk_specie']),
    'BEP': (New('pmutt.reaction.bep:BEP', slope=Real(0., 1.), intercept=Real(0., 60.), name=Const('bep'), descriptor=Const('delta_H'),
                elements=Const({'H': 2}), notes=Const('n')),
            ['slope', 'intercept', 'name', 'descriptor', 'elements', 'notes']),
    'Reaction': (reaction(notes=Const('rxn note')),
                 ['reactants', 'reactants_stoich', 'products', 'products_stoich', 'transition_state', 'transition_state_stoich', 'notes']),
    'ChemkinReaction': (reaction('pmutt.reaction:ChemkinReaction', beta=Real(0., 2.), is_adsorption=Const(True), sticking_coeff=Real(0., 1.)),
                        ['reactants', 'products', 'beta', 'is_adsorption', 'sticking_coeff']),
    'Reactions': (New('pmutt.reaction:Reactions', reactions=ListOf([reaction()])), ['reactions']),
    'PhaseDiagram': (New('pmutt.reaction.phasediagram:PhaseDiagram', reactions=ListOf([reaction()]), norm_factors=RealList(1, 0.5, 4.)),
                     ['reactions', 'norm_factors']),
    'IdealGasEOS': (New('pmutt.eos:IdealGasEOS'), []),
    'vanDerWaalsEOS': (New('pmutt.eos:vanDerWaalsEOS', a=Real(0.003, 3.), b=Real(1e-5, 2e-4)), ['a', 'b']),
    'Reference': (New('pmutt.empirical.references:Reference', name=Const('H2'), elements=Const({'H': 2}), T_ref=Const(298.15), HoRT_ref=R,
                      phase=Const('G')),
                  ['name', 'elements', 'T_ref', 'HoRT_ref', 'phase']),
    'References': (Fields('pmutt.empirical.references:References', offset=DictOf({'H': R, 'O': R}), T_ref=Const(298.15),
                          descriptor=Const('elements'), references=Const(None)),
                   ['offset', 'T_ref', 'descriptor']),
    'omkm.BEP': (New('pmutt.omkm.reaction:BEP', slope=Real(0., 1.), intercept=Real(0., 60.), name=Const('bep'), descriptor=Const('delta_H'),
                     elements=Const({'H': 2}), notes=Const('n'), direction=Const('cleavage')),
                 ['slope', 'intercept', 'name', 'descriptor', 'elements', 'notes', 'direction']),
    'References+species(offset-edited-after-the-fit)': (
        New('pmutt.empirical.references:References',
            references=ListOf([New('pmutt.empirical.references:Reference', name=Const('H2'), elements=Const({'H': 2}), T_ref=Const(298.15),
                                   HoRT_ref=R, phase=Const('G'),
                                   model=New('pmutt.statmech:StatMech', name=Const('H2'),
                                             elec_model=New('pmutt.statmech.elec:GroundStateElec', potentialenergy=Real(-20., -1.), spin=Const(0.))))]),
            descriptor=Const('elements'), _post=dict(offset=DictOf({'H': R}), T_ref=Real(250., 350.))),
        ['offset', 'T_ref', 'descriptor']),
    'References+species(offsets-cleared)': (
        New('pmutt.empirical.references:References',
            references=ListOf([New('pmutt.empirical.references:Reference', name=Const('H2'), elements=Const({'H': 2}), T_ref=Const(298.15),
                                   HoRT_ref=R, phase=Const('G'),
                                   model=New('pmutt.statmech:StatMech', name=Const('H2'),
                                             elec_model=New('pmutt.statmech.elec:GroundStateElec', potentialenergy=Real(-20., -1.), spin=Const(0.))))]),
            descriptor=Const('elements'), _post=dict(offset=Const({}))),
        ['offset', 'T_ref', 'descriptor']),
    'Nasa9[5 intervals]': (
        New('pmutt.empirical.nasa:Nasa9', name=Const('H2O'), phase=Const('G'), elements=Const({'H': 2, 'O': 1}),
            nasas=ListOf([New('pmutt.empirical.nasa:SingleNasa9', T_low=Const(200. + 1000. * j), T_high=Const(1200. + 1000. * j), a=RealVec(9, -5., 5.))
                          for j in (2, 0, 4, 1, 3)])),
        ['nasas', 'T_low', 'T_high']),
    'SurfaceReaction(adsorption, user A and Ea)': (
        reaction('pmutt.omkm.reaction:SurfaceReaction', id=Const('r_0002'), is_adsorption=Const(True), A=Real(1e10, 1e15), Ea=Real(0., 50.),
                 beta=Real(0., 2.), sticking_coeff=Real(0.01, 1.), use_motz_wise=Const(False)),
        ['id', 'is_adsorption', 'A', 'Ea', 'beta', 'sticking_coeff', 'use_motz_wise']),
    'vanDerWaalsEOS(from_critical)': (New('pmutt.eos:vanDerWaalsEOS', _via='from_critical', Tc=Real(100., 700.), Pc=Real(10., 250.)), ['a', 'b']),
    'SurfaceReaction': (reaction('pmutt.omkm.reaction:SurfaceReaction', id=Const('r_0001'), is_adsorption=Const(False), beta=Real(0., 2.),
                                 direction=Const('synthesis'), use_motz_wise=Const(True)),
                        ['reactants', 'products', 'id', 'beta', 'is_adsorption', 'direction', 'use_motz_wise']),
}
for cname, (spec_, attrs) in CLASSES.items():
    ens = [('encodes', 'spec.jsonrt.encodes(obj)'),
           ('class-preserved', 'type(spec.jsonrt.roundtrip(obj)).__name__ == type(obj).__name__')]
    for a_ in attrs:
        ens.append(('attr[%s]' % a_, 'spec.jsonrt.same(obj.%s, spec.jsonrt.roundtrip(obj).%s)' % (a_, a_)))
    ens.append(('decode-does-not-alter-its-argument', 'spec.jsonrt.unchanged_by_decode(obj)'))
    contract(spec_.cls + '.to_dict', P, label=cname, args=dict(self=spec_), ghost=None,
             ensures=[(l, t.replace('obj', 'self')) for l, t in ens], cross_check=False)
# decoding twice gives the same object (the dictionary is not consumed)
contract('pmutt.io.json:json_to_pmutt', P, label='repeatable',
         args=dict(json_obj=Const({'class': "<class 'pmutt.eos.vanDerWaalsEOS'>", 'a': 1.0, 'b': 2.0})),
         ensures=[('argument-unmodified', "json_obj == old(json_obj)"),
                  ('second-decode-same-class', "type(pm.io.json.json_to_pmutt(json_obj)).__name__ == 'vanDerWaalsEOS'")],
         cross_check=False)
contract('pmutt.io.json:remove_class', P, label='frame',
         args=dict(json_obj=Const({'class': 'x', 'type': 'y', '_id': 3, 'a': 1.0})),
         ensures=[('result-without-bookkeeping-keys', "result == {'a': 1.0}"),
                  ('argument-unmodified', "json_obj == old(json_obj)")], cross_check=False)

# a plain dictionary that merely has a key 'class' is not a pMuTT object: it is passed through unchanged, alone or nested
contract('pmutt.io.json:json_to_pmutt', P, label='plain-dict-with-class-key',
         args=dict(json_obj=Const({'class': 'oxide', 'source': 'DFT'})),
         ensures=[('passed-through', "result == {'class': 'oxide', 'source': 'DFT'}")], cross_check=False)
contract('pmutt.statmech.elec:GroundStateElec.to_dict', P, label='roundtrip-next-to-a-plain-dict-with-class-key',
         args=dict(self=New('pmutt.statmech.elec:GroundStateElec', potentialenergy=Real(-20., -1.), spin=Const(0.))),
         ensures=[('decodes-with-the-dictionary-untouched',
                   "spec.jsonrt.roundtrip({'notes': {'class': 'oxide', 'source': 'DFT'}, 'model': self})['notes'] == "
                   "{'class': 'oxide', 'source': 'DFT'}")], cross_check=False)
