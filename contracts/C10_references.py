"""C10 - the reference adjustment reproduces the experimental enthalpies it
was fitted to (pmutt/empirical/references.py, StatMech references branch)."""
from pvc.dsl import *

P = 'C10'
RF = 'pmutt.empirical.references:'
TRUSTED = ['numpy.linalg.lstsq returns a solution of the normal equations A^T(Ax-b)=0 (assumed contract)']
T = Real(100., 3000.)
ELS = ['C', 'H', 'O']


def ref(i, keys, T_ref=None):
    return Fields(RF + 'Reference', name=Const('ref%d' % i), T_ref=(T_ref or Real(290., 310.)),
                  HoRT_ref=Real(-100., 100.),
                  elements=DictOf({k: Real(0., 6.) for k in keys}),
                  model=Stub('dft%d' % i, ['get_HoRT'], positive=()))


def refs_obj(shapes, same_T=False, stale=None):
    """References built by the real constructor (which fits the offsets); `stale`: descriptors whose offsets
    were left behind by an earlier fit (before references were appended / edited)"""
    Tr = Const(298.15) if same_T else None
    post = None if stale is None else dict(offset=DictOf({k: Real(-50., 50.) for k in stale}), T_ref=Real(200., 400.))
    return New(RF + 'References', references=ListOf([ref(i, keys, Tr) for i, keys in enumerate(shapes)]),
               descriptor=Const('elements'), _post=post)


SHAPES = {'1ref-1el': [['H']], '2ref-2el': [['H', 'O'], ['H', 'O']], '2ref-partial': [['H'], ['H', 'O']],
          '3ref-2el(overdetermined)': [['H', 'O'], ['H', 'O'], ['H', 'O']], '1ref-2el(rank-deficient)': [['C', 'H']]}


def dft(i):
    return 'self.references[%d].model.get_HoRT(T=self.references[%d].T_ref)' % (i, i)


def comp(i, d):
    return "self.references[%d].elements.get(%r, 0)" % (i, d)


for nm, shape in SHAPES.items():
    keys = sorted({k for ks in shape for k in ks})
    n = len(shape)
    predicted = lambda i: ' + '.join("self.offset[%r] * %s" % (d, comp(i, d)) for d in keys)
    contract(RF + 'References.get_descriptors', P, label=nm, args=dict(self=refs_obj(shape)),
             ensures=['result == %r' % (tuple(keys),)], cross_check=False)
    contract(RF + 'References.get_descriptors_matrix', P, label=nm, args=dict(self=refs_obj(shape)),
             ensures=[('matrix-of-compositions',
                       'all(result[i][j] == self.references[i].elements.get(%r[j], 0) for i in range(%d) for j in range(%d))'
                       % (keys, n, len(keys)))], cross_check=False)
    contract(RF + 'References.fit_HoRT_offset', P, label=nm, args=dict(self=refs_obj(shape)),
             ensures=[('offset-per-descriptor', 'sorted(self.offset.keys()) == %r' % keys),
                      ('T_ref-is-the-mean', 'self.T_ref * %d == %s' % (n, ' + '.join('self.references[%d].T_ref' % i for i in range(n)))),
                      ('residual-orthogonal-to-composition-matrix',
                       ' and '.join('(%s) == 0' % ' + '.join(
                           '%s * ((%s) - (%s - self.references[%d].HoRT_ref))' % (comp(i, d), predicted(i), dft(i), i)
                           for i in range(n)) for d in keys))],
             cross_check=False)
# unique determination => exact reproduction at the reference temperature
for nm in ('1ref-1el', '2ref-2el'):
    shape = SHAPES[nm]
    n = len(shape)
    det = "self.references[0].elements['H'] != 0" if n == 1 else \
        "self.references[0].elements['H'] * self.references[1].elements['O'] != " \
        "self.references[0].elements['O'] * self.references[1].elements['H']"
    lemma('reproduces-experimental-enthalpy[%s]' % nm, P, forall=dict(self=refs_obj(shape, same_T=True)), given=[det],
          prove=[('ref%d' % i,
                  '%s + self.get_HoRT(descriptors=self.references[%d].elements, T=self.references[%d].T_ref)'
                  ' == self.references[%d].HoRT_ref' % (dft(i), i, i, i)) for i in range(n)])


def fitted(keys):
    return Fields(RF + 'References', offset=DictOf({k: Real(-50., 50.) for k in keys}), T_ref=Real(290., 310.),
                  descriptor=Const('elements'), references=Const(None))


contract(RF + 'References.get_HoRT', P, label='known-descriptors',
         args=dict(self=fitted(['H', 'O']), descriptors=DictOf({'H': Real(0., 8.), 'O': Real(0., 4.)}), T=T),
         requires=['T > 0'],
         ensures=[('-sum(offset*n)*T_ref/T', "result == -(self.offset['H'] * descriptors['H'] + self.offset['O'] * descriptors['O']) * self.T_ref / T"),
                  ('T-independent-energy', "result * T == self.get_HoRT(descriptors=descriptors, T=2 * T) * 2 * T"),
                  ('linear-in-composition',
                   "self.get_HoRT(descriptors={'H': 2 * descriptors['H'], 'O': 2 * descriptors['O']}, T=T) == 2 * result")],
         warns='False')
contract(RF + 'References.get_HoRT', P, label='descriptor-absent-from-references',
         args=dict(self=fitted(['H']), descriptors=DictOf({'H': Real(0., 8.), 'Pt': Real(0., 4.)}), T=T),
         requires=['T > 0'],
         ensures=["result == -self.offset['H'] * descriptors['H'] * self.T_ref / T"], warns='True', cross_check=False)
contract(RF + 'References.get_GoRT', P, args=dict(self=fitted(['H', 'O']), descriptors=DictOf({'H': Real(0., 8.), 'O': Real(0., 4.)}), T=T),
         requires=['T > 0'], ensures=[('G-gets-the-same-energy', 'result == self.get_HoRT(descriptors=descriptors, T=T)')])
for q in ('SoR', 'CpoR', 'CvoR', 'UoRT'):
    contract(RF + 'References.get_' + q, P, args=dict(self=fitted(['H'])), ensures=['result == 0'])

# ---- applied through a species -----------------------------------------------------------
SM = 'pmutt.statmech:StatMech'


def species(with_refs=True):
    kw = dict(name=Const('A'),
              elec_model=New('pmutt.statmech.elec:GroundStateElec', potentialenergy=Real(-30., 5.), spin=Const(0.)),
              elements=DictOf({'H': Real(0., 8.), 'O': Real(0., 4.)}))
    if with_refs:
        kw['references'] = fitted(['H', 'O'])
    return New(SM, **kw)


ADJ = "self.references.get_HoRT(descriptors=self.elements, T=T)"
for q, adj in (('HoRT', ADJ), ('GoRT', ADJ), ('SoR', '0'), ('CpoR', '0'), ('CvoR', '0')):
    contract(SM + '.get_' + q, P, label='references-on',
             args=dict(self=species(), T=T), requires=['T > 0'],
             ensures=[('adds-the-offset-energy-only-to-H-and-G',
                       'result == self.get_%s(T=T, use_references=False) + %s' % (q, adj))])
    contract(SM + '.get_' + q, P, label='references-off-equals-no-references',
             args=dict(self=species(), T=T, use_references=Const(False)), ghost=dict(bare=species(False)),
             requires=['T > 0', 'bare.elec_model.potentialenergy == self.elec_model.potentialenergy'],
             ensures=[('disappears-exactly', 'result == bare.get_%s(T=T)' % q)])
contract(SM + '.get_HoRT', P, label='verbose-reference-slot',
         args=dict(self=species(), T=T, verbose=Const(True)), requires=['T > 0'],
         ensures=['result[5] == ' + ADJ], cross_check=False)
# the dimensional getters follow the switch too (they forward it to the dimensionless ones)
for q, dimless in (('H', 'HoRT'), ('G', 'GoRT'), ('U', 'UoRT'), ('F', 'FoRT')):
    for flag in (True, False):
        contract(SM + '.get_' + q, P, label='references-%s' % ('on' if flag else 'off'),
                 args=dict(self=species(), units=Const('kJ/mol'), T=T, use_references=Const(flag)), requires=['T > 0'],
                 ensures=[('same-switch-as-dimensionless',
                           "result == self.get_%s(T=T, use_references=%s) * const.R('kJ/mol/K') * T" % (dimless, flag))])

# ---- re-fitting an object that was fitted before (references appended or edited since): nothing of the old fit survives ---------
for nm, stale in (('2ref-2el', ['H']), ('2ref-partial', ['H', 'O']), ('3ref-2el(overdetermined)', ['H', 'O', 'C'])):
    shape = SHAPES[nm]
    keys = sorted({k for ks in shape for k in ks})
    n = len(shape)
    predicted = lambda i: ' + '.join("self.offset[%r] * %s" % (d, comp(i, d)) for d in keys)
    contract(RF + 'References.fit_HoRT_offset', P, label=nm + ',fitted-before', args=dict(self=refs_obj(shape, stale=stale)),
             ensures=[('offset-per-descriptor', 'sorted(self.offset.keys()) == %r' % keys),
                      ('T_ref-is-the-mean', 'self.T_ref * %d == %s' % (n, ' + '.join('self.references[%d].T_ref' % i for i in range(n)))),
                      ('residual-orthogonal-to-composition-matrix',
                       ' and '.join('(%s) == 0' % ' + '.join(
                           '%s * ((%s) - (%s - self.references[%d].HoRT_ref))' % (comp(i, d), predicted(i), dft(i), i)
                           for i in range(n)) for d in keys))],
             cross_check=False)

# ---- descriptors the references do not cover, in every position: the covered ones still get their offsets ---------------
for order in (('Pt', 'H'), ('H', 'Pt', 'O'), ('Pt', 'O', 'H'), ('H', 'O', 'Pt')):
    contract(RF + 'References.get_HoRT', P, label='descriptor-absent[%s]' % ','.join(order),
             args=dict(self=fitted(['H', 'O']), descriptors=DictOf({k: Real(0., 8.) for k in order}), T=T), requires=['T > 0'],
             ensures=[('covered-descriptors-keep-their-offsets',
                       "result == -(%s) * self.T_ref / T" % ' + '.join("self.offset[%r] * descriptors[%r]" % (k, k) for k in order if k != 'Pt'))],
             warns='True', cross_check=False)
# the per-contribution (verbose) form follows the switch as well
for q in ('HoRT', 'GoRT'):
    contract(SM + '.get_' + q, P, label='verbose,references-off',
             args=dict(self=species(), T=T, verbose=Const(True), use_references=Const(False)), requires=['T > 0'],
             ensures=[('reference-slot-is-zero', 'result[5] == 0')], cross_check=False)
    contract(SM + '.get_' + q, P, label='verbose,references-on',
             args=dict(self=species(), T=T, verbose=Const(True), use_references=Const(True)), requires=['T > 0'],
             ensures=[('reference-slot-is-the-adjustment', 'result[5] == ' + ADJ)], cross_check=False)

# ---- references measured at another temperature than 298.15 K (all at one temperature): still reproduced at that temperature ----
def refs_at_common_T(shapes):
    Tr = Shared('T_common', Real(200., 500.))
    return New(RF + 'References', references=ListOf([ref(i, keys, Tr) for i, keys in enumerate(shapes)]),
               descriptor=Const('elements'))


for nm in ('1ref-1el', '2ref-2el'):
    shape = SHAPES[nm]
    n = len(shape)
    det = "self.references[0].elements['H'] != 0" if n == 1 else \
        "self.references[0].elements['H'] * self.references[1].elements['O'] != " \
        "self.references[0].elements['O'] * self.references[1].elements['H']"
    lemma('reproduces-experimental-enthalpy-at-the-references-own-temperature[%s]' % nm, P,
          forall=dict(self=refs_at_common_T(shape)), given=[det, 'self.references[0].T_ref > 0'],
          prove=[('T_ref-is-the-references-temperature', 'self.T_ref == self.references[0].T_ref')] +
                [('ref%d' % i,
                  '%s + self.get_HoRT(descriptors=self.references[%d].elements, T=self.references[%d].T_ref)'
                  ' == self.references[%d].HoRT_ref' % (dft(i), i, i, i)) for i in range(n)])

# ---- a species keeps the reference object it was given: a later refit of that object is what the species applies ------------
contract(SM + '.__init__', P, label='keeps-the-given-reference-object',
         args=dict(self=Fields(SM), name=Const('A'),
                   elec_model=New('pmutt.statmech.elec:GroundStateElec', potentialenergy=Real(-30., 5.), spin=Const(0.)),
                   elements=DictOf({'H': Real(0., 8.), 'O': Real(0., 4.)}), references=fitted(['H', 'O'])),
         ensures=[('same-object', 'self.references is references')], cross_check=False)
def species_sharing(refs):
    return New(SM, name=Const('A'),
               elec_model=New('pmutt.statmech.elec:GroundStateElec', potentialenergy=Real(-30., 5.), spin=Const(0.)),
               elements=DictOf({'H': Real(0., 8.), 'O': Real(0., 4.)}), references=refs)


REFS = Shared('the-users-references', fitted(['H', 'O']))
lemma('species-built-before-a-refit-applies-the-new-offsets', P,
      forall=dict(refs=REFS, self=species_sharing(REFS), T=T, dH=Real(-20., 20.)), given=['T > 0'],
      prove=[('offset-edited-after-construction-is-applied',
              "spec.util.shift_offset_then_HoRT(refs, self, 'H', dH, T) == self.get_HoRT(T=T, use_references=False)"
              " - (refs.offset['H'] * self.elements['H'] + refs.offset['O'] * self.elements['O']) * refs.T_ref / T")])

from contracts import helpers
helpers.install(P, 'references', 'kwargs')

# ---- many reference species (the fit is the least-squares solution over ALL of them) and rarely combined switches ------------
for nm, shape in (('5ref-2el(overdetermined)', [['H', 'O']] * 5), ('7ref-2el(overdetermined)', [['H', 'O']] * 7),
                  ('9ref-3el(overdetermined)', [['C', 'H', 'O']] * 9)):
    keys = sorted({k for ks in shape for k in ks})
    n = len(shape)
    predicted = lambda i: ' + '.join("self.offset[%r] * %s" % (d, comp(i, d)) for d in keys)
    contract(RF + 'References.fit_HoRT_offset', P, label=nm, args=dict(self=refs_obj(shape)),
             ensures=[('offset-per-descriptor', 'sorted(self.offset.keys()) == %r' % keys),
                      ('residual-orthogonal-to-composition-matrix',
                       ' and '.join('(%s) == 0' % ' + '.join(
                           '%s * ((%s) - (%s - self.references[%d].HoRT_ref))' % (comp(i, d), predicted(i), dft(i), i)
                           for i in range(n)) for d in keys))],
             cross_check=False)
for q in ('GoRT', 'HoRT'):
    for se in (True, False):
        if q == 'HoRT' and se:
            continue
        extra = dict(S_elements=Const(True)) if se else {}
        call = 'T=T, S_elements=True' if se else 'T=T'
        contract(SM + '.get_' + q, P, label='references-off%s-equals-no-references' % (',S_elements' if se else ''),
                 args=dict(self=species(), T=T, use_references=Const(False), **extra), ghost=dict(bare=species(False)),
                 requires=['T > 0', 'bare.elec_model.potentialenergy == self.elec_model.potentialenergy',
                           "bare.elements['H'] == self.elements['H']", "bare.elements['O'] == self.elements['O']"],
                 ensures=[('disappears-exactly', 'result == bare.get_%s(%s)' % (q, call))], cross_check=False)
