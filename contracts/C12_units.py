"""C12 - unit tables form a consistent algebra and agree with their
definitions (pmutt/constants.py, pmutt.get_molecular_weight).

Obligations are generated from the *live* dict literals of the current source
(`pvc.live`), so a changed, added or removed entry changes the obligations."""
import ast
import re
from fractions import Fraction
from pvc.dsl import *
from pvc import live

P = 'C12'
C = 'pmutt.constants:'
type_dict = live.module_literals('pmutt.constants', 'type_dict')[-1]
unit_src = live.literal_source('pmutt.constants', 'convert_unit', 'unit_dict')
TYPES = {}
for u, t in type_dict.items():
    TYPES.setdefault(t, []).append(u)
NUM = Real(-500., 500.)

# ---- conversion algebra: every ordered pair / triple of one type ------------
for t, units in sorted(TYPES.items()):
    for a in units:
        for b in units:
            ens = [('inverse', 'const.convert_unit(num=result, initial=final, final=initial) == num')]
            if a == b:
                ens.append(('reflexive', 'result == num'))
            if t == 'temp':
                ens.append(('affine', 'const.convert_unit(num=num + 1, initial=initial, final=final) - result'
                            ' == const.convert_unit(num=1., initial=initial, final=final)'
                            ' - const.convert_unit(num=0., initial=initial, final=final)'))
            else:
                ens.append(('proportional', 'result == num * const.convert_unit(initial=initial, final=final)'))
            for c in units:
                ens.append(('transitive:%s' % c,
                            'const.convert_unit(num=result, initial=final, final=%r)'
                            ' == const.convert_unit(num=num, initial=initial, final=%r)' % (c, c)))
            contract(C + 'convert_unit', P, label='%s->%s' % (a, b),
                     args=dict(num=NUM, initial=Const(a), final=Const(b)),
                     ensures=ens, cross_check=(a <= b))
# cross-type pairs are refused
tl = sorted(TYPES)
for i, t1 in enumerate(tl):
    for t2 in tl:
        if t1 == t2:
            continue
        # every unit of t1 against one representative of t2 and vice versa
        for a in TYPES[t1]:
            b = TYPES[t2][0]
            contract(C + 'convert_unit', P, label='refuse:%s->%s' % (a, b),
                     args=dict(num=NUM, initial=Const(a), final=Const(b)),
                     raises={'ValueError': 'True'}, cross_check=False)
contract(C + 'convert_unit', P, label='refuse:unknown-initial',
         args=dict(num=NUM, initial=Const('furlong'), final=Const('m')),
         raises={'ValueError': 'True'}, cross_check=False)
contract(C + 'convert_unit', P, label='refuse:unknown-final',
         args=dict(num=NUM, initial=Const('m'), final=Const('furlong')),
         raises={'ValueError': 'True'}, cross_check=False)


# ---- definitions, with a tolerance derived from the literals' own digits ----
def half_ulp_rel(src):
    """sum over the numeric literals in a source expression of the relative
    half-unit-in-the-last-place; literals without fractional digits are
    exact"""
    tot = Fraction(0)
    for tok in re.findall(r'[0-9]+\.?[0-9]*(?:[eE][+-]?[0-9]+)?', src):
        m = re.match(r'([0-9]+)(?:\.([0-9]*))?(?:[eE]([+-]?[0-9]+))?$', tok)
        ip, fp, ex = m.group(1), m.group(2) or '', m.group(3)
        if fp == '' and len(ip.rstrip('0')) <= 2:
            continue          # 1., 60., 100., 3600., 1.e3: visibly exact
        if fp == '' and len(ip) >= 9:
            continue          # 299792458. (exact by definition of the metre)
        mant = Fraction(ip + '.' + fp) if fp else Fraction(ip)
        if mant == 0:
            continue
        tot += Fraction(1, 2) * Fraction(10) ** (-len(fp)) / mant
    return tot


TABLE_SRC = {'u': unit_src}
for fn, var in (('R', 'R_dict'), ('h', 'h_dict'), ('kb', 'kb_dict'), ('c', 'c_dict')):
    TABLE_SRC[fn] = live.literal_source('pmutt.constants', fn, var)
NA_SRC = '6.02214086e23'


def tol_for(*refs):
    s = Fraction(0)
    for r in refs:
        if r == 'Na':
            s += half_ulp_rel(NA_SRC)
        else:
            s += half_ulp_rel(TABLE_SRC[r[0]][r[1]])
    t = max(Fraction(3, 2) * s, Fraction(1, 10**7))
    return '%d / %d' % (t.numerator, t.denominator)


def U(k):
    base = {'energy': 'J', 'energy/amount': 'J/mol', 'time': 's', 'amount': 'mol',
            'length': 'm', 'area': 'm2', 'volume': 'm3', 'mass': 'kg',
            'pressure': 'Pa'}[type_dict[k]]
    return "const.convert_unit(initial=%r, final=%r)" % (base, k)


DEFS = []


def rel(name, lhs, rhs, *refs):
    DEFS.append((name, 'abs((%s) - (%s)) <= (%s) * abs(%s)' % (lhs, rhs, tol_for(*refs), rhs)))


def u(k):
    return ('u', k)


NA = 'const.Na'
for L in ('m', 'cm', 'A', 'km', 'inch', 'ft'):
    if L + '2' in type_dict:
        rel('area:%s2=%s^2' % (L, L), U(L + '2'), '%s**2' % U(L), u(L + '2'), u(L), u(L))
    if L + '3' in type_dict:
        rel('volume:%s3=%s^3' % (L, L), U(L + '3'), '%s**3' % U(L), u(L + '3'), u(L), u(L), u(L))
rel('volume:mL=cm3', U('mL'), U('cm3'), u('mL'), u('cm3'))
rel('volume:L=dm3', U('L'), '%s / 1000' % U('cm3'), u('L'), u('cm3'))
rel('length:inch=ft*12', U('inch'), '%s * 12' % U('ft'), u('inch'), u('ft'))
rel('length:mile=ft/5280', U('mile'), '%s / 5280' % U('ft'), u('mile'), u('ft'))
rel('energy:L atm=L*atm', U('L atm'), '%s * %s' % (U('L'), U('atm')), u('L atm'), u('L'), u('atm'))
rel('energy:kJ', U('kJ'), '%s / 1000' % U('J'), u('kJ'))
rel('energy:kcal', U('kcal'), '%s / 1000' % U('cal'), u('kcal'), u('cal'))
rel('energy:Eh=Ha', U('Eh'), U('Ha'), u('Eh'), u('Ha'))
for e in ('kJ', 'cal', 'kcal'):
    rel('per-mol:%s/mol' % e, U(e + '/mol'), U(e), u(e + '/mol'), u(e))
for e in ('eV', 'Eh', 'Ha'):
    for suffix in ('molecule', 'particle'):
        rel('per-mol:%s/%s' % (e, suffix), U('%s/%s' % (e, suffix)), '%s / %s' % (U(e), NA),
            u('%s/%s' % (e, suffix)), u(e), 'Na')
rel('amount:molecule=Na', U('molecule'), NA, u('molecule'), 'Na')
rel('amount:molec=molecule', U('molec'), U('molecule'), u('molec'), u('molecule'))
rel('time:min', U('min'), '%s / 60' % U('s'), u('min'))
rel('time:hr', U('hr'), '%s / 3600' % U('s'), u('hr'))
rel('time:day', U('day'), '%s / 86400' % U('s'), u('day'))
rel('time:ms', U('ms'), '%s * 1000' % U('s'), u('ms'))
rel('time:ns', U('ns'), '%s * 1000000000' % U('s'), u('ns'))
rel('time:ps', U('ps'), '%s * 1000000000000' % U('s'), u('ps'))
rel('mass:g', U('g'), '%s * 1000' % U('kg'), u('g'))
rel('mass:amu=g*Na', U('amu'), '%s * %s' % (U('g'), NA), u('amu'), u('g'), 'Na')
rel('pressure:kPa', U('kPa'), '%s / 1000' % U('Pa'), u('kPa'))
rel('pressure:MPa', U('MPa'), '%s / 1000000' % U('Pa'), u('MPa'))
rel('pressure:bar', U('bar'), '%s / 100000' % U('Pa'), u('bar'))
rel('pressure:atm=1/101325', U('atm'), '%s / 101325' % U('Pa'), u('atm'))
rel('pressure:torr=760*atm', U('torr'), '760 * %s' % U('atm'), u('torr'), u('atm'))
rel('pressure:mmHg=torr', U('mmHg'), U('torr'), u('mmHg'), u('torr'))
rel('length:cm', U('cm'), '100', u('cm'))
rel('length:nm', U('nm'), '1000000000', u('nm'))
rel('length:km', U('km'), '1 / 1000', u('km'))
rel('length:A', U('A'), '10000000000', u('A'))

RJ = "const.R('J/mol/K')"
R_DEFS = {
    'kJ/mol/K': ('%s * %s' % (RJ, U('kJ')), [u('kJ')]),
    'L kPa/mol/K': ('%s * %s * %s' % (RJ, U('L'), U('kPa')), [u('L'), u('kPa')]),
    'cm3 kPa/mol/K': ('%s * %s * %s' % (RJ, U('cm3'), U('kPa')), [u('cm3'), u('kPa')]),
    'm3 Pa/mol/K': (RJ, []),
    'cm3 MPa/mol/K': ('%s * %s * %s' % (RJ, U('cm3'), U('MPa')), [u('cm3'), u('MPa')]),
    'm3 bar/mol/K': ('%s * %s' % (RJ, U('bar')), [u('bar')]),
    'L bar/mol/K': ('%s * %s * %s' % (RJ, U('L'), U('bar')), [u('L'), u('bar')]),
    'L torr/mol/K': ('%s * %s * %s' % (RJ, U('L'), U('torr')), [u('L'), u('torr')]),
    'cal/mol/K': ('%s * %s' % (RJ, U('cal')), [u('cal')]),
    'kcal/mol/K': ('%s * %s' % (RJ, U('kcal')), [u('kcal')]),
    'L atm/mol/K': ('%s * %s * %s' % (RJ, U('L'), U('atm')), [u('L'), u('atm')]),
    'cm3 atm/mol/K': ('%s * %s * %s' % (RJ, U('cm3'), U('atm')), [u('cm3'), u('atm')]),
    'eV/K': ('%s * %s / %s' % (RJ, U('eV'), NA), [u('eV'), 'Na']),
    'Eh/K': ('%s * %s / %s' % (RJ, U('Eh'), NA), [u('Eh'), 'Na']),
    'Ha/K': ('%s * %s / %s' % (RJ, U('Ha'), NA), [u('Ha'), 'Na']),
}
for k in TABLE_SRC['R']:
    if k == 'J/mol/K':
        continue
    if k not in R_DEFS:
        DEFS.append(('const:R[%s]:no-definition-known' % k, 'False'))
        continue
    e, refs = R_DEFS[k]
    rel('const:R[%s]' % k, 'const.R(%r)' % k, e, ('R', k), ('R', 'J/mol/K'), *refs)
KJ = "const.kb('J/K')"
for k in TABLE_SRC['kb']:
    if k == 'J/K':
        continue
    e = k.split('/')[0]
    if e not in type_dict:
        DEFS.append(('const:kb[%s]:no-definition-known' % k, 'False'))
        continue
    rel('const:kb[%s]' % k, 'const.kb(%r)' % k, '%s * %s' % (KJ, U(e)), ('kb', k), ('kb', 'J/K'), u(e))
rel('const:R=kb*Na', RJ, '%s * %s' % (KJ, NA), ('R', 'J/mol/K'), ('kb', 'J/K'), 'Na')
for k in TABLE_SRC['kb']:
    rk = {'J/K': 'J/mol/K', 'kJ/K': 'kJ/mol/K', 'cal/K': 'cal/mol/K', 'kcal/K': 'kcal/mol/K'}.get(k)
    if rk:
        rel('const:R[%s]=kb[%s]*Na' % (rk, k), 'const.R(%r)' % rk, 'const.kb(%r) * %s' % (k, NA),
            ('R', rk), ('kb', k), 'Na')
    elif k in TABLE_SRC['R']:
        rel('const:R[%s]=kb[%s]' % (k, k), 'const.R(%r)' % k, 'const.kb(%r)' % k, ('R', k), ('kb', k))
HJ = "const.h('J s')"
for k in TABLE_SRC['h']:
    if k == 'J s':
        continue
    e = k.split(' ')[0]
    rel('const:h[%s]' % k, 'const.h(%r)' % k, '%s * %s' % (HJ, U(e)), ('h', k), ('h', 'J s'), u(e))
rel('const:hbar', "const.h('J s', bar=True) * 2 * pi", HJ, ('h', 'J s'))
rel('const:c[cm/s]', "const.c('cm/s')", "const.c('m/s') * %s" % U('cm'), ('c', 'cm/s'), u('cm'))
for k in TYPES['pressure']:
    rel('const:P0[%s]' % k, 'const.P0(%r)' % k, '100000 * %s' % U(k), u(k), u('bar'))
for k in TYPES['temp']:
    DEFS.append(('const:T0[%s]' % k, "const.T0(%r) == const.convert_unit(num=298.15, initial='K', final=%r)" % (k, k)))
DEFS.append(('const:T0[K]=298.15', "const.T0('K') == 298.15"))
DEFS.append(('temp:C<->K', "const.convert_unit(num=0., initial='C', final='K') == 273.15"))
DEFS.append(('temp:F', "const.convert_unit(num=32., initial='F', final='C') == 0 and "
             "const.convert_unit(num=212., initial='F', final='C') == 100"))
DEFS.append(('temp:R', "const.convert_unit(num=0., initial='R', final='K') == 0 and "
             "const.convert_unit(num=491.67, initial='R', final='C') == 0"))
for k in TYPES['volume']:
    rel('const:V0[%s]' % k, 'const.V0(%r)' % k, '%s * 298.15 / 100000 * %s' % (RJ, U(k)), u(k), ('R', 'J/mol/K'))
for k in TYPES['mass']:
    rel('const:m_e[%s]' % k, 'const.m_e(%r)' % k, '5.48579909070e-4 * %s / %s' % (U(k), U('amu')), u(k), u('amu'))
    rel('const:m_p[%s]' % k, 'const.m_p(%r)' % k, '1.007276466879 * %s / %s' % (U(k), U('amu')), u(k), u('amu'))
import importlib.util as _ilu
_sp = _ilu.spec_from_file_location('spec_units', __file__.replace('contracts/C12_units.py', 'spec/units.py'))
_su = _ilu.module_from_spec(_sp)
_sp.loader.exec_module(_su)
for k in sorted(set(_su.TYPE_OF) | set(type_dict)):
    DEFS.append(('type:%s' % k, 'const.type_dict.get(%r) == %r' % (k, _su.TYPE_OF.get(k))))
lemma('definitions', P, forall=dict(), prove=DEFS)

# ---- spectroscopic helpers: mutually inverse ---------------------------------
X = Real(1., 5000.)
PAIRS = [('energy_to_freq', 'freq_to_energy'), ('energy_to_temp', 'temp_to_energy'),
         ('energy_to_wavenumber', 'wavenumber_to_energy'), ('freq_to_temp', 'temp_to_freq'),
         ('freq_to_wavenumber', 'wavenumber_to_freq'), ('temp_to_wavenumber', 'wavenumber_to_temp'),
         ('debye_to_einstein', 'einstein_to_debye')]
import pvc.live as _live


def _argname(fn):
    import ast as _ast
    for n in _ast.walk(_live._tree('pmutt.constants')):
        if isinstance(n, _ast.FunctionDef) and n.name == fn:
            return n.args.args[0].arg
    raise KeyError(fn)


for f, g in PAIRS:
    for a, b in ((f, g), (g, f)):
        arg = _argname(a)
        contract(C + a, P, args={arg: X}, requires=['%s > 0' % arg],
                 ensures=[('inverse:%s' % b, 'const.%s(result) == %s' % (b, arg)),
                          ('positive', 'result > 0')])
# the helpers are proportional maps: the same holds for negative arguments (imaginary modes are passed as negative wavenumbers)
XN = Real(-5000., -1.)
for f, g in PAIRS:
    for a, b in ((f, g), (g, f)):
        arg = _argname(a)
        contract(C + a, P, label='negative-argument', args={arg: XN}, requires=['%s < 0' % arg],
                 ensures=[('inverse:%s' % b, 'const.%s(result) == %s' % (b, arg)),
                          ('odd', 'result == -const.%s(-%s)' % (a, arg))])
# consistency of the three-way conversions (going round a triangle)
for a, b, c3 in (('energy', 'freq', 'temp'), ('energy', 'freq', 'wavenumber'),
                 ('energy', 'temp', 'wavenumber'), ('freq', 'temp', 'wavenumber')):
    lemma('helpers:triangle:%s-%s-%s' % (a, b, c3), P, forall=dict(x=X), given=['x > 0'],
          prove=['const.%s_to_%s(const.%s_to_%s(x)) == const.%s_to_%s(x)' % (b, c3, a, b, a, c3)])
lemma('helpers:inertia', P, forall=dict(x=X), given=['x > 0'],
      prove=[('inertia_to_temp(wavenumber_to_inertia)=wavenumber_to_temp',
              # mixes the eV and J forms of h and kB: equal to within the
              # rounding of the tabulated constants (floor 1e-7, DESIGN C12)
              'abs(const.inertia_to_temp(const.wavenumber_to_inertia(x)) - const.wavenumber_to_temp(x))'
              ' <= const.wavenumber_to_temp(x) / 10000000')])

# ---- element tables ---------------------------------------------------------------
aw = live.module_literals('pmutt.constants', 'atomic_weight')[-1]
se = live.module_literals('pmutt.constants', 'S_elements')[-1]


def _pairs(tab):
    """(atomic number, symbol) pairs by position in the literal"""
    keys = list(tab)
    ints = [k for k in keys if isinstance(k, int)]
    syms = [k for k in keys if isinstance(k, str)]
    return ints, syms


EL = []
for name, tab in (('atomic_weight', aw), ('S_elements', se)):
    ints, syms = _pairs(tab)
    EL.append(('%s:same-number-of-entries' % name, '%d == %d' % (len(ints), len(syms))))
    for z, sy in zip(ints, syms):
        EL.append(('%s[%d]=[%s]' % (name, z, sy), 'const.%s[%d] == const.%s[%r]' % (name, z, name, sy)))
lemma('element-tables', P, forall=dict(), prove=EL)
contract('pmutt:get_molecular_weight', P, label='dict',
         args=dict(elements=DictOf({'C': Real(0., 10.), 'H': Real(0., 20.), 'O': Real(0., 5.), 'Pt': Real(0., 3.)})),
         ensures=["result == const.atomic_weight['C'] * elements['C'] + const.atomic_weight['H'] * elements['H']"
                  " + const.atomic_weight['O'] * elements['O'] + const.atomic_weight['Pt'] * elements['Pt']"])
for formula, comp in (('CH3CH2OH', {'C': 2, 'H': 6, 'O': 1}), ('H2O', {'H': 2, 'O': 1}), ('PtO2', {'Pt': 1, 'O': 2})):
    contract('pmutt:get_molecular_weight', P, label='formula:%s' % formula,
             args=dict(elements=Const(formula)), cross_check=False,
             ensures=['result == ' + ' + '.join('const.atomic_weight[%r] * %d' % kv for kv in comp.items())])

# ---- the tables are constants: nothing that merely *uses* units may edit them ---------------------------------------------------
SNAP = 'lambda: (dict(const.type_dict), dict(const.prefixes), dict(const.symmetry_dict), dict(const.atomic_weight), dict(const.S_elements))'
ACTIONS = {
    'cantera.Units(eV,kcal/mol)': "lambda: pm.cantera.units.Units(act_energy='eV', energy='kcal/mol', quantity='mol', pressure='Pa')",
    'omkm.Units(eV,kJ/mol)': "lambda: pm.omkm.units.Units(act_energy='eV', energy='kJ/mol', quantity='molec', mass='g')",
    'convert_unit(eV->J)': "lambda: const.convert_unit(num=x, initial='eV', final='J')",
    'R(eV/K)': "lambda: const.R('eV/K')",
    'get_molecular_weight(C10H22)': "lambda: pm.get_molecular_weight('C10H22')",
    'parse_formula(Uuo2O3)': "lambda: pm.parse_formula('Uuo2O3')",
}
for lab, act in ACTIONS.items():
    lemma('tables-unchanged-by:' + lab, P, forall=dict(x=Real(-5., 5.)), given=[],
          prove=[('tables-unchanged', 'spec.util.unchanged_by(%s, %s)' % (SNAP, act)),
                 ('eV-still-an-energy', "spec.util.after(%s, lambda: const.type_dict['eV']) == 'energy'" % act),
                 ('conversion-after-it', "spec.util.after(%s, lambda: const.convert_unit(num=1., initial='eV', final='J'))"
                                         " == const.convert_unit(num=1., initial='eV', final='J')" % act)])

from contracts import helpers
helpers.install(P, 'formula', 'per_mass')
