"""C15 - the spreadsheet reader maps rows and special columns as documented
(pmutt/io/excel.py).  pandas.read_excel is external: its assumed contract is
the DataFrame model of pvc (rows in order, one (header, cell) pair per column,
NaN for empty cells, duplicate headers mangled 'h', 'h.1', ...)."""
from pvc.dsl import *

P = 'C15'
LEVEL = 'other'
X = 'pmutt.io.excel:'
TRUSTED = ['pandas.read_excel / DataFrame.iterrows / Series.items / pandas.isnull as modelled (assumed contract)']
V = lambda: Real(-100., 100.)

# ---- setters --------------------------------------------------------------------------------
contract(X + 'set_element', P, label='first', args=dict(header=Const('element.H'), value=V(), output_structure=Const({})),
         ensures=["output_structure == {'elements': {'H': value}}"])
contract(X + 'set_element', P, label='second-keeps-first',
         args=dict(header=Const('element.O'), value=V(), output_structure=DictOf({'elements': DictOf({'H': V()}), 'name': Const('x')})),
         ensures=["output_structure['elements'] == {'H': old(output_structure['elements']['H']), 'O': value}",
                  "output_structure['name'] == 'x'"])
for f, key in (('set_vib_wavenumbers', 'vib_wavenumbers'), ('set_rot_temperatures', 'rot_temperatures')):
    contract(X + f, P, label='first', args=dict(value=V(), output_structure=Const({})),
             ensures=["output_structure == {%r: [value]}" % key])
    contract(X + f, P, label='appends-in-order', args=dict(value=V(), output_structure=DictOf({key: RealList(2)})),
             ensures=["output_structure[%r] == old(output_structure[%r]) + [value]" % (key, key)])
contract(X + 'set_list_value', P, label='first', args=dict(header=Const('sites'), value=V(), output_structure=Const({})),
         ensures=["output_structure == {'sites': [value]}"])
contract(X + 'set_list_value', P, label='appends-in-order',
         args=dict(header=Const('sites'), value=V(), output_structure=DictOf({'sites': RealList(2), 'other': RealList(1)})),
         ensures=["output_structure['sites'] == old(output_structure['sites']) + [value]",
                  "output_structure['other'] == old(output_structure['other'])"])
contract(X + 'set_dict_value', P, label='first',
         args=dict(dict_name=Const('cov'), key=Const('A'), value=V(), output_structure=Const({})),
         ensures=["output_structure == {'cov': {'A': value}}"])
contract(X + 'set_dict_value', P, label='second-keeps-first',
         args=dict(dict_name=Const('cov'), key=Const('B'), value=V(), output_structure=DictOf({'cov': DictOf({'A': V()})})),
         ensures=["output_structure['cov'] == {'A': old(output_structure['cov']['A']), 'B': value}"])
for f, key in (('set_nasa_a_low', 'a_low'), ('set_nasa_a_high', 'a_high')):
    for i in (0, 3, 6):
        contract(X + f, P, label='first[%d]' % i,
                 args=dict(header=Const('nasa.%s.%d' % (key, i)), value=V(), output_structure=Const({})),
                 ensures=["all(output_structure[%r][k] == (value if k == %d else 0) for k in range(7))" % (key, i),
                          "len(output_structure[%r]) == 7" % key])
    contract(X + f, P, label='keeps-other-coefficients',
             args=dict(header=Const('nasa.%s.2' % key), value=V(), output_structure=DictOf({key: RealVec(7)})),
             ensures=["all(output_structure[%r][k] == (value if k == 2 else old(list(output_structure[%r]))[k]) for k in range(7))" % (key, key)])
contract(X + 'set_formula', P, args=dict(formula=Const('CH3OH'), output_structure=Const({})),
         ensures=["output_structure == {'elements': {'C': 1, 'H': 4, 'O': 1}}"])
# model columns: the documented names resolve to the documented classes
MODELS = [('set_trans_model', 'trans_model', 'FreeTrans', 'pmutt.statmech.trans:FreeTrans'),
          ('set_vib_model', 'vib_model', 'HarmonicVib', 'pmutt.statmech.vib:HarmonicVib'),
          ('set_vib_model', 'vib_model', 'QRRHOVib', 'pmutt.statmech.vib:QRRHOVib'),
          ('set_vib_model', 'vib_model', 'EinsteinVib', 'pmutt.statmech.vib:EinsteinVib'),
          ('set_vib_model', 'vib_model', 'DebyeVib', 'pmutt.statmech.vib:DebyeVib'),
          ('set_rot_model', 'rot_model', 'RigidRotor', 'pmutt.statmech.rot:RigidRotor'),
          ('set_elec_model', 'elec_model', 'GroundStateElec', 'pmutt.statmech.elec:GroundStateElec'),
          ('set_elec_model', 'elec_model', 'LSR', 'pmutt.statmech.lsr:LSR'),
          ('set_nucl_model', 'nucl_model', 'EmptyNucl', 'pmutt.statmech.nucl:EmptyNucl')]
for f, key, nm, qual in MODELS:
    contract(X + f, P, label=nm, args=dict(model=Const(nm), output_structure=Const({})), ghost=dict(cls=ClassRef(qual)),
             ensures=["output_structure[%r] is cls" % key, "output_structure['model'].__name__ == 'StatMech'"],
             cross_check=False)
for f, key in (('set_trans_model', 'trans_model'), ('set_vib_model', 'vib_model'), ('set_rot_model', 'rot_model'),
               ('set_elec_model', 'elec_model'), ('set_nucl_model', 'nucl_model')):
    contract(X + f, P, label='EmptyMode', args=dict(model=Const('EmptyMode'), output_structure=Const({})),
             ensures=["output_structure[%r].__name__ == 'EmptyMode'" % key], cross_check=False)
    contract(X + f, P, label='unknown-model', args=dict(model=Const('NoSuchModel'), output_structure=Const({})),
             raises={'ValueError': 'True'}, cross_check=False)
contract(X + 'set_statmech_model', P, label='idealgas-preset-does-not-override',
         args=dict(model=Const('IdealGas'), output_structure=DictOf({'n_degrees': Const(2)})),
         ensures=["output_structure['n_degrees'] == 2", "output_structure['model'].__name__ == 'StatMech'",
                  "output_structure['trans_model'].__name__ == 'FreeTrans' and output_structure['vib_model'].__name__ == 'HarmonicVib'"],
         cross_check=False)
contract(X + 'set_statmech_model', P, label='unknown', args=dict(model=Const('plasma'), output_structure=Const({})),
         raises={'ValueError': 'True'}, cross_check=False)

# ---- the row loop ---------------------------------------------------------------------------------
HEADERS = ['name', ' phase ', 'element.H', 'element.O', 'vib_wavenumber', 'vib_wavenumber', 'vib_wavenumber',
           'rot_temperature', 'list.sites', 'list.sites', 'dict.cov.A', 'nasa.a_low.0', 'nasa.a_high.6', 'potentialenergy']


def row(pattern):
    """pattern: string of 'x' (filled) / '-' (empty) per column"""
    cells = []
    for h, p in zip(HEADERS, pattern):
        if p == '-':
            cells.append(None)
        elif h.strip() in ('name', 'phase'):
            cells.append(Const(' A ' if h == 'name' else 'G'))
        else:
            cells.append(V())
    return cells


def expected(i, pattern):
    """the record the documentation promises for row i"""
    c = lambda j: 'cell(io, %d, %d)' % (i, j)
    items = []
    if pattern[0] == 'x':
        items.append("'name': 'A'")
    if pattern[1] == 'x':
        items.append("'phase': 'G'")
    els = [("'H'", 2), ("'O'", 3)]
    e = ', '.join('%s: %s' % (k, c(j)) for k, j in els if pattern[j] == 'x')
    if e:
        items.append("'elements': {%s}" % e)
    vib = ', '.join(c(j) for j in (4, 5, 6) if pattern[j] == 'x')
    if vib:
        items.append("'vib_wavenumbers': [%s]" % vib)
    if pattern[7] == 'x':
        items.append("'rot_temperatures': [%s]" % c(7))
    sites = ', '.join(c(j) for j in (8, 9) if pattern[j] == 'x')
    if sites:
        items.append("'sites': [%s]" % sites)
    if pattern[10] == 'x':
        items.append("'cov': {'A': %s}" % c(10))
    if pattern[11] == 'x':
        items.append("'a_low': [%s, 0, 0, 0, 0, 0, 0]" % c(11))
    if pattern[12] == 'x':
        items.append("'a_high': [0, 0, 0, 0, 0, 0, %s]" % c(12))
    if pattern[13] == 'x':
        items.append("'potentialenergy': %s" % c(13))
    return '{' + ', '.join(items) + '}'


SHEETS = {'all-filled': ['x' * 14], 'two-rows-complementary-blanks': ['x-x-x-x-x-x-x-', '-x-x-x-x-x-x-x'],
          'three-rows': ['xxxxxxxxxxxxxx', 'x-------------', 'xxx-x-x-x-x-xx']}
for nm, patterns in SHEETS.items():
    contract(X + 'read_excel', P, label=nm,
             args=dict(io=Table(HEADERS, [row(p) for p in patterns])),
             ensures=[('one-record-per-row-in-order', 'len(result) == %d' % len(patterns))] +
                     [('row-%d-has-exactly-its-non-empty-cells' % i, 'spec.excel.same_record(result[%d], %s)' % (i, expected(i, p)))
                      for i, p in enumerate(patterns)])

# ---- a preset chosen in one row must not carry that row's values into later rows (the preset table is shared by all rows) ----
import ast as _ast
from pvc import live as _live


def preset_keys(model):
    """keys of pmutt.statmech.presets[model], read from the current source"""
    for st in _live._tree('pmutt.statmech').body:
        if isinstance(st, _ast.Assign) and any(isinstance(t, _ast.Name) and t.id == 'presets' for t in st.targets):
            for k, v in zip(st.value.keys, st.value.values):
                if _ast.literal_eval(k) == model:
                    return [_ast.literal_eval(kk) for kk in v.keys]
    raise KeyError(model)


H2 = ['name', 'potentialenergy', 'spin', 'statmech_model']
for model in ('IdealGas', 'Harmonic'):
    pk = preset_keys(model.lower())
    rows = [[Const('A'), V(), V(), Const(model)], [Const('B'), None, None, Const(model)], [Const('C'), V(), None, Const(model)]]
    contract(X + 'read_excel', P, label='preset-rows[%s]' % model, args=dict(io=Table(H2, rows)),
             ensures=[('one-record-per-row-in-order', 'len(result) == 3'),
                      ('row-0-keys', 'sorted(result[0].keys()) == %r' % sorted(set(['name', 'potentialenergy', 'spin'] + pk))),
                      ('row-1-has-no-value-of-row-0', 'sorted(result[1].keys()) == %r' % sorted(set(['name'] + pk))),
                      ('row-2-keys', 'sorted(result[2].keys()) == %r and result[2]["potentialenergy"] == cell(io, 2, 1)'
                       % sorted(set(['name', 'potentialenergy'] + pk)))],
             cross_check=False)
contract(X + 'set_statmech_model', P, label='preset-table-not-written',
         args=dict(model=Const('IdealGas'), output_structure=DictOf({'potentialenergy': Real(-10., 0.), 'spin': Real(0., 2.)})),
         ensures=[('preset-table-unchanged', "sorted(pm.statmech.presets['idealgas'].keys()) == %r" % sorted(preset_keys('idealgas')))],
         cross_check=False)

# ---- sheets without a comment row: skiprows=None / [] means that no row is skipped ------------------------------------------
for skip in (None, []):
    contract(X + 'read_excel', P, label='no-comment-row,skiprows=%r' % (skip,),
             args=dict(io=Table(['name', 'potentialenergy'], [[Const('A'), V()], [Const('B'), V()], [Const('C'), V()]], comment_row=False),
                       skiprows=Const(skip)),
             ensures=[('one-record-per-row-in-order', 'len(result) == 3 and [r["name"] for r in result] == ["A", "B", "C"]'),
                      ('values', 'all(result[i]["potentialenergy"] == cell(io, i, 1) for i in range(3))')],
             cross_check=False)


# an explicit model column wins over the preset, whichever column comes first
for order in (('statmech_model', 'vib_model'), ('vib_model', 'statmech_model')):
    hdr = ['name'] + list(order)
    cells = {'statmech_model': Const('IdealGas'), 'vib_model': Const('QRRHOVib')}
    contract(X + 'read_excel', P, label='explicit-model-and-preset[%s-first]' % order[0],
             args=dict(io=Table(hdr, [[Const('A')] + [cells[h] for h in order]])),
             ensures=[('explicit-vibrational-model-kept', "result[0]['vib_model'].__name__ == 'QRRHOVib'"),
                      ('preset-fills-the-rest', "result[0]['trans_model'].__name__ == 'FreeTrans' and result[0]['model'].__name__ == 'StatMech'")],
             cross_check=False)
for f, key, alt in (('set_trans_model', 'trans_model', 'FreeTrans'), ('set_vib_model', 'vib_model', 'QRRHOVib'),
                    ('set_rot_model', 'rot_model', 'RigidRotor'), ('set_elec_model', 'elec_model', 'GroundStateElec'),
                    ('set_nucl_model', 'nucl_model', 'EmptyNucl')):
    contract(X + f, P, label='replaces-an-earlier-entry', args=dict(model=Const(alt), output_structure=DictOf({key: Const('something else')})),
             ensures=["output_structure[%r].__name__ == %r" % (key, alt)], cross_check=False)

# ---- every model a preset attaches to a mode can also be named in that mode's own column (and EmptyMode in every mode) -------
PRESET_MODE_MODELS = [('set_trans_model', 'trans_model', 'EmptyMode', 'pmutt.statmech:EmptyMode'),
                      ('set_vib_model', 'vib_model', 'EmptyMode', 'pmutt.statmech:EmptyMode'),
                      ('set_rot_model', 'rot_model', 'EmptyMode', 'pmutt.statmech:EmptyMode'),
                      ('set_elec_model', 'elec_model', 'EmptyMode', 'pmutt.statmech:EmptyMode'),
                      ('set_nucl_model', 'nucl_model', 'EmptyMode', 'pmutt.statmech:EmptyMode'),
                      ('set_elec_model', 'elec_model', 'ConstantMode', 'pmutt.statmech:ConstantMode'),
                      ('set_elec_model', 'elec_model', 'ExtendedLSR', 'pmutt.statmech.lsr:ExtendedLSR')]
for f, key, nm, qual in PRESET_MODE_MODELS:
    contract(X + f, P, label='preset-model:' + nm, args=dict(model=Const(nm), output_structure=Const({})), ghost=dict(cls=ClassRef(qual)),
             ensures=[('resolves-to-the-class', "output_structure[%r] is cls" % key)], cross_check=False)

# ---- rows that share a formula: an element.X cell of one row does not reach the other row (nor a later read) -------------------
contract(X + 'read_excel', P, label='same-formula-rows-with-an-element-column',
         args=dict(io=Table(['name', 'formula', 'element.D'],
                            [[Const('heavy'), Const('H2O'), Const(1)], [Const('light'), Const('H2O'), None],
                             [Const('other'), Const('CH4'), None]])),
         ensures=[('row-0-gets-its-cell', "result[0]['elements'] == {'H': 2, 'O': 1, 'D': 1}"),
                  ('row-1-has-only-its-formula', "result[1]['elements'] == {'H': 2, 'O': 1}"),
                  ('row-2-has-only-its-formula', "result[2]['elements'] == {'C': 1, 'H': 4}"),
                  ('records-do-not-share-a-dictionary', "result[0]['elements'] is not result[1]['elements']")],
         cross_check=False)

from contracts import helpers
helpers.install(P, 'formula')

# ---- long sheets, columns mixing text and numbers, many repeated list columns ------------------------------------------------------
N_ROWS = 16
mixed = [[Const('sp%d' % i), (Const(' tag%d ' % i) if i % 3 == 0 else V()), V()] for i in range(N_ROWS)]
contract(X + 'read_excel', P, label='sixteen-rows-with-a-column-mixing-text-and-numbers',
         args=dict(io=Table(['name', 'label', 'potentialenergy'], mixed)),
         ensures=[('one-record-per-row-in-order', 'len(result) == %d and [r["name"] for r in result] == %r' % (N_ROWS, ['sp%d' % i for i in range(N_ROWS)])),
                  ('text-cells-trimmed', 'all(result[i]["label"] == "tag" + str(i) for i in range(0, %d, 3))' % N_ROWS),
                  ('numeric-cells-kept', 'all(result[i]["label"] == cell(io, i, 1) for i in range(%d) if i %% 3 != 0)' % N_ROWS),
                  ('other-column', 'all(result[i]["potentialenergy"] == cell(io, i, 2) for i in range(%d))' % N_ROWS)],
         cross_check=False)
for n_rot, n_vib in ((5, 8), (4, 1), (8, 30)):
    hdr = ['name'] + ['rot_temperature'] * n_rot + ['vib_wavenumber'] * n_vib
    contract(X + 'read_excel', P, label='%d-rot_temperature-and-%d-vib_wavenumber-columns' % (n_rot, n_vib),
             args=dict(io=Table(hdr, [[Const('A')] + [V() for _ in range(n_rot + n_vib)],
                                      [Const('B')] + [(V() if k % 2 else None) for k in range(n_rot + n_vib)]])),
             ensures=[('row-0-lists-every-cell-in-column-order',
                       'result[0]["rot_temperatures"] == [cell(io, 0, j) for j in range(1, %d)] and '
                       'result[0]["vib_wavenumbers"] == [cell(io, 0, j) for j in range(%d, %d)]' % (1 + n_rot, 1 + n_rot, 1 + n_rot + n_vib)),
                      ('row-1-lists-its-non-empty-cells-in-column-order',
                       'result[1].get("rot_temperatures", []) == [cell(io, 1, j) for j in range(1, %d) if (j - 1) %% 2] and '
                       'result[1].get("vib_wavenumbers", []) == [cell(io, 1, j) for j in range(%d, %d) if (j - 1) %% 2]'
                       % (1 + n_rot, 1 + n_rot, 1 + n_rot + n_vib))],
             cross_check=False)
