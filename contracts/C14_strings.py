"""C14 - reaction strings print and parse as inverses; the balance check is
exact (pmutt/reaction/__init__.py printers / parsers, pmutt.parse_formula).

Species names are unknown separator-free words of symbolic length that do not
start with a digit or a dot (the property's alphabet: letters, digits after
the first character, parentheses, asterisks, underscores); coefficients are
symbolic reals."""
from pvc.dsl import *

P = 'C14'
LEVEL = 'other'
RX = 'pmutt.reaction:'
NAME_ALPHABET = 'ABCDEFGHIJKLMNOPQRSTUVWXYZabcdefghijklmnopqrstuvwxyz0123456789()*_'
NAME_EXCL = ' \n\t\r\x0b\x0c+=<>.,;:/-"\'[]{}'
TRUSTED = ['str.split / str.strip / re semantics as re-implemented on structured strings (pvc/sstr.py)',
           "np.isclose(a, b) is |a - b| <= 1e-8 + 1e-5 |b|; float('%.Nf' % v) is within half a unit of the last printed digit of v"]


def name(i):
    return Token(1, 12, alphabet=NAME_ALPHABET, excl=NAME_EXCL, first_nondigit=True)


def sp(i):
    return Stub('S%d' % i, ['get_HoRT'], positive=(), name=name(i), elements={'H': 2})


NU = lambda: Real(0.25, 4.)
PREC = {'.2f': '0.005', '.1f': '0.05', '.4f': '0.00005'}
for n in (1, 2, 3):
    for delim in ('+', ' + ', '>>'):
        for fmt in ('.2f', '.4f'):
            for space in (False, True):
                if (space or fmt != '.2f') and (n > 2 or delim != '+'):
                    continue
                tol = PREC[fmt] + ' + 0.0001'
                contract(RX + '_write_reaction_state', P,
                         label='roundtrip[n=%d,delim=%r,fmt=%s,space=%s]' % (n, delim, fmt, space),
                         args=dict(species=ListOf([sp(i) for i in range(n)]), stoich=ListOf([NU() for _ in range(n)]),
                                   species_delimiter=Const(delim), stoich_format=Const(fmt), stoich_space=Const(space)),
                         requires=['all(v > 0 for v in stoich)', 'all(v <= 4 for v in stoich)'] +
                                  ['species[%d].name != species[%d].name' % (i, j) for i in range(n) for j in range(i)],
                         ensures=[('parses-back-to-the-same-species',
                                   'pm.reaction._parse_reaction_state(result, species_delimiter=species_delimiter.strip())[0]'
                                   ' == [s.name for s in species]'),
                                  ('coefficients-to-the-printed-precision',
                                   'all(abs(pm.reaction._parse_reaction_state(result, species_delimiter=species_delimiter.strip())[1][k]'
                                   ' - stoich[k]) <= %s for k in range(%d))' % (tol, n))],
                         cross_check=False)
contract(RX + '_write_reaction_state', P, label='no-species', args=dict(species=Const(None), stoich=Const(None)),
         ensures=['result == ""'], cross_check=False)


# ---- parser: integer / decimal / omitted coefficients, merging, whitespace ---------------------
def tok(i):
    return Token(1, 12, alphabet=NAME_ALPHABET, excl=NAME_EXCL, first_nondigit=True)


contract(RX + '_parse_reaction_state', P, label='merges-repeated-species',
         args=dict(a=tok(0), b=tok(1), n1=Int(2, 9), n2=Int(1, 9)), ghost=None,
         requires=['True'], ensures=['True'], cross_check=False) if False else None
for delim in ('+', '>>'):
    lemma('parser:coefficients-and-merge[%r]' % delim, P,
          forall=dict(a=tok(0), b=tok(1), n1=Int(2, 9), n2=Int(1, 9)),
          given=['a != b', 'n1 >= 2', 'n1 <= 9', 'n2 >= 1', 'n2 <= 9'],
          prove=[('integer-omitted-and-repeated',
                  'pm.reaction._parse_reaction_state(str(n1) + a + " %s " + b + "%s  " + str(n2) + " " + a, species_delimiter=%r)'
                  ' == ([a, b], [n1 + n2, 1])' % (delim, delim, delim))])
contract(RX + '_parse_reaction_state', P, label='decimal-and-spaces',
         args=dict(reaction_str=Const('  0.5O2 +2H2+  1.25 H2O  + O2 '), species_delimiter=Const('+')),
         ensures=["result == (['O2', 'H2', 'H2O'], [1.5, 2.0, 1.25])"], cross_check=False)
for rstr, nstates in (('A + B = C', 2), ('A + B = TS = C', 3), ('A<=>B', 2)):
    contract(RX + '_parse_reaction', P, label=rstr.replace(' ', ''),
             args=dict(reaction_str=Const(rstr), reaction_delimiter=Const('<=>' if '<=>' in rstr else '=')),
             ensures=[('transition-state-iff-three-states',
                       '(result[4] is None) == %s and (result[5] is None) == %s' % (nstates == 2, nstates == 2))],
             cross_check=False)


# ---- species lookup --------------------------------------------------------------------------
def named(nm):
    return Stub(nm, ['get_HoRT'], positive=(), name=nm, elements={'H': 1})


contract(RX + 'Reaction.from_string', P, label='missing-reactant-is-named',
         args=dict(reaction_str=Const('A + X = B'), species=DictOf({'A': named('A'), 'B': named('B')})),
         raises={'KeyError': 'True'}, cross_check=False)
contract(RX + 'Reaction.from_string', P, label='missing-TS-raises',
         args=dict(reaction_str=Const('A = TS = B'), species=DictOf({'A': named('A'), 'B': named('B')})),
         raises={'KeyError': 'True'}, cross_check=False)
contract(RX + 'Reaction.from_string', P, label='missing-TS-warns-when-errors-suppressed',
         args=dict(reaction_str=Const('A = TS = B'), species=DictOf({'A': named('A'), 'B': named('B')}),
                   raise_error=Const(False)),
         ensures=['result.transition_state is None'], warns='True', cross_check=False)
contract(RX + 'Reaction.from_string', P, label='found',
         args=dict(reaction_str=Const('2A + B = TS = 3C'),
                   species=DictOf({'A': named('A'), 'B': named('B'), 'C': named('C'), 'TS': named('TS')})),
         ensures=["[s.name for s in result.reactants] == ['A', 'B'] and result.reactants_stoich == [2, 1]"
                  " and [s.name for s in result.products] == ['C'] and result.products_stoich == [3]"
                  " and [s.name for s in result.transition_state] == ['TS']"], cross_check=False)


# ---- element balance: raises exactly when the element totals differ -----------------------------
def esp(nm, comp):
    return Stub(nm, ['get_HoRT'], positive=(), name=nm, elements=comp)


def bal_rxn(with_ts):
    kw = dict(reactants=ListOf([esp('CH4', {'C': 1, 'H': 4}), esp('O2', {'O': 2})]),
              reactants_stoich=ListOf([NU(), NU()]),
              products=ListOf([esp('CO2', {'C': 1, 'O': 2}), esp('H2O', {'H': 2, 'O': 1})]),
              products_stoich=ListOf([NU(), NU()]))
    if with_ts:
        kw['transition_state'] = ListOf([esp('TS', {'C': 1, 'H': 4, 'O': 4})])
        kw['transition_state_stoich'] = ListOf([NU()])
    return New(RX + 'Reaction', **kw)


R_, P_ = 'self.reactants_stoich', 'self.products_stoich'
UNBAL = ('%s[0] != %s[0] or 4 * %s[0] != 2 * %s[1] or 2 * %s[1] != 2 * %s[0] + %s[1]'
         % (R_, P_, R_, P_, R_, P_, P_))
contract(RX + 'Reaction.check_element_balance', P, label='no-TS', args=dict(self=bal_rxn(False)),
         requires=['all(v > 0 for v in %s)' % R_, 'all(v > 0 for v in %s)' % P_],
         raises={'ValueError': UNBAL}, cross_check=False)
TS_ = 'self.transition_state_stoich[0]'
UNBAL_TS = '(%s) or %s[0] != %s or 4 * %s[0] != 4 * %s or 2 * %s[1] != 4 * %s' % (UNBAL, R_, TS_, R_, TS_, R_, TS_)
contract(RX + 'Reaction.check_element_balance', P, label='with-TS', args=dict(self=bal_rxn(True)),
         requires=['all(v > 0 for v in %s)' % R_, 'all(v > 0 for v in %s)' % P_, '%s > 0' % TS_],
         raises={'ValueError': UNBAL_TS}, cross_check=False)
for f, comp in (('CH3CH2OH', {'C': 2, 'H': 6, 'O': 1}), ('H2O', {'H': 2, 'O': 1}), ('Pt', {'Pt': 1}),
                ('C12H22O11', {'C': 12, 'H': 22, 'O': 11}), ('NaCl', {'Na': 1, 'Cl': 1}), ('OHO', {'O': 2, 'H': 1})):
    contract('pmutt:parse_formula', P, label=f, args=dict(formula=Const(f)), ensures=['result == %r' % comp],
             cross_check=False)

# ---- whole reaction strings: every section (also a transition state of several species) uses the caller's delimiters -----------
def full_rxn():
    return New(RX + 'Reaction', reactants=ListOf([named('A'), named('B')]), reactants_stoich=ListOf([Const(1.), Const(2.)]),
               products=ListOf([named('C')]), products_stoich=ListOf([Const(3.)]),
               transition_state=ListOf([named('T1'), named('T2')]), transition_state_stoich=ListOf([Const(1.), Const(2.)]))


for sd, rd in (('+', '='), ('.', '>>'), (' & ', ' = '), (' + ', ' <=> ')):
    for ts in (True, False):
        mid = ('T1%s2T2%s' % (sd, rd)) if ts else ''
        contract(RX + 'Reaction.to_string', P, label='sd=%r,rd=%r,TS=%s' % (sd, rd, ts),
                 args=dict(self=full_rxn(), species_delimiter=Const(sd), reaction_delimiter=Const(rd), stoich_format=Const('.0f'),
                           include_TS=Const(ts)),
                 ensures=[('all-sections-with-the-given-delimiters', 'result == %r' % ('A%s2B%s%s3C' % (sd, rd, mid))),
                          ('parses-back', "[s.name for s in pm.reaction.Reaction.from_string(result, {'A': self.reactants[0], 'B': self.reactants[1], "
                                          "'C': self.products[0], 'T1': self.transition_state[0], 'T2': self.transition_state[1]}, "
                                          "species_delimiter=species_delimiter.strip(), reaction_delimiter=reaction_delimiter.strip()).%s] == %r"
                           % (('transition_state', ['T1', 'T2']) if ts else ('products', ['C'])))],
                 cross_check=False)

# the parser hands out a fresh dictionary: editing a result does not change what a later parse of the same formula returns
for f, comp, key in (('CH3CH2OH', {'C': 2, 'H': 6, 'O': 1}, 'H'), ('H2O', {'H': 2, 'O': 1}, 'O')):
    lemma('parse_formula-after-editing-an-earlier-result[%s]' % f, P, forall=dict(), given=[],
          prove=[('same-composition-again', 'spec.util.call_edit_call(pm.parse_formula, %r, %r) == %r' % (f, key, comp))])


# the balance check also refuses elements that appear on one side only (products, reactants or transition state)
def side_rxn(reactants, products, ts=None):
    kw = dict(reactants=ListOf([esp(n, c) for n, c in reactants]), reactants_stoich=ListOf([Const(1.) for _ in reactants]),
              products=ListOf([esp(n, c) for n, c in products]), products_stoich=ListOf([Const(1.) for _ in products]))
    if ts:
        kw['transition_state'] = ListOf([esp(n, c) for n, c in ts])
        kw['transition_state_stoich'] = ListOf([Const(1.) for _ in ts])
    return New(RX + 'Reaction', **kw)


H2, H2O, O, N = ('H2', {'H': 2}), ('H2O', {'H': 2, 'O': 1}), ('O', {'O': 1}), ('N', {'N': 1})
for label, r_, p_, t_, bad in (('extra-element-in-products', [H2], [H2O], None, True),
                               ('extra-element-in-reactants', [H2O], [H2], None, True),
                               ('extra-element-in-TS', [H2, O], [H2O], [('TS', {'H': 2, 'O': 1, 'N': 1})], True),
                               ('element-missing-in-TS', [H2, O], [H2O], [('TS', {'H': 2})], True),
                               ('balanced-with-TS', [H2, O], [H2O], [('TS', {'H': 2, 'O': 1})], False),
                               ('balanced-several-species', [H2, O, N], [H2O, N], None, False)):
    contract(RX + 'Reaction.check_element_balance', P, label=label, args=dict(self=side_rxn(r_, p_, t_)),
             raises={'ValueError': 'True' if bad else 'False'}, cross_check=False)

# ---- the balance check reads the compositions the species were built with (fractional counts included) ----------------------
for lab, reac, prod, out in (
        ('Fe+0.75O2=FeO1.5', [('Fe', {'Fe': 1}, 1.), ('O2', {'O': 2}, 0.75)], [('FeO1_5', {'Fe': 1, 'O': 1.5}, 1.)], 'balanced'),
        ('Fe+0.5O2=FeO1.5', [('Fe', {'Fe': 1}, 1.), ('O2', {'O': 2}, 0.5)], [('FeO1_5', {'Fe': 1, 'O': 1.5}, 1.)], 'refused'),
        ('H2+0.5O2=H2O', [('H2', {'H': 2}, 1.), ('O2', {'O': 2}, 0.5)], [('H2O', {'H': 2, 'O': 1}, 1.)], 'balanced'),
        ('H0.5+..=H2.5O', [('Hh', {'H': 0.5}, 5.), ('O2', {'O': 2}, 0.5)], [('H2_5O', {'H': 2.5, 'O': 1}, 1.)], 'balanced')):
    lemma('balance-check-on-constructed-species[%s]' % lab, P, forall=dict(), given=[],
          prove=[('outcome', 'spec.rxn.balance_outcome(%r, %r) == %r' % (reac, prod, out))])

from contracts import helpers
helpers.install(P, 'list_to_dict', 'formula', 'reaction_parser')

# ---- printing with every supported coefficient format, integer coefficients of one, two and three digits included ------------
def named_sp(nm):
    return Stub(nm, ['get_HoRT'], positive=(), name=nm, elements={'H': 2})


for fmt in ('.2f', '.0f', 'g', '.3g', '.1f'):
    for coeffs in ([20., 100., 3.], [10., 1., 200.], [2.5, 30., 0.5], [1., 1., 1., 1., 1., 1., 40.]):
        names = ['CO2', 'H2', 'N2', 'Ar', 'He', 'Kr', 'Xe'][:len(coeffs)]
        contract(RX + '_write_reaction_state', P, label='print-then-parse[fmt=%s,coefficients=%s]' % (fmt, ','.join('%g' % c for c in coeffs)),
                 args=dict(species=ListOf([named_sp(nm) for nm in names]), stoich=Const(list(coeffs)), stoich_format=Const(fmt)),
                 ensures=[('parses-back-to-the-same-species-and-coefficients',
                           'pm.reaction._parse_reaction_state(result, species_delimiter="+")[0] == %r and '
                           'all(abs(pm.reaction._parse_reaction_state(result, species_delimiter="+")[1][k] - %r[k]) <= %s for k in range(%d))'
                           % (names, list(coeffs), '0.51' if fmt in ('.0f',) else ('0.06' if fmt == '.1f' else '0.006'), len(coeffs)))],
                 cross_check=False)
