"""C17 - the coverage-effect function stays continuous piecewise-linear under
edits (pmutt/mixture/cov.py:PiecewiseCovEffect).

Class invariant WF (spec.cov.wf) is established by the constructor and
preserved by insert / pop for an *arbitrary* well-formed receiver (fields are
fresh symbols constrained only by WF), so it holds after any history; list
lengths are enumerated (values symbolic)."""
from pvc.dsl import *

P = 'C17'
K = 'pmutt.mixture.cov:PiecewiseCovEffect'
NQ = [1, 2, 3, 4, 5]
NT = [1, 2, 3, 4, 5, 6, 7, 8, 9, 10, 11, 12]


def anyobj(n):
    """an arbitrary object state with lists of length n"""
    return Fields(K, name_i=Const('A'), name_j=Const('B'), name=Const('AB'),
                  intervals=RealList(n, 0., 1.), slopes=RealList(n, -50., 50.),
                  _intercepts=RealList(n, -50., 50.))


def built(n):
    """an object produced by the real constructor from ascending intervals"""
    return New(K, name_i=Const('A'), name_j=Const('B'), name=Const('AB'),
               intervals=RealList(n, 0., 1.), slopes=RealList(n, -50., 50.))


contract(K + '.__init__', P, shapes=dict(n=NQ), shapes_thorough=dict(n=NT),
         args=lambda n: dict(self=Fields(K), name_i=Const('A'), name_j=Const('B'),
                             intervals=RealList(n, 0., 1.), slopes=RealList(n, -50., 50.)),
         requires=['spec.cov.valid_input(intervals, slopes)'],
         ensures=[('inv', 'spec.cov.wf(self)'),
                  ('keeps-lists', 'self.intervals == old(intervals) and self.slopes == old(slopes)')],
         cross_check=False)
contract(K + '._set_intercepts', P, shapes=dict(n=NQ), shapes_thorough=dict(n=NT),
         args=lambda n: dict(self=anyobj(n)),
         requires=['spec.cov.valid_input(self.intervals, self.slopes)'],
         ensures=[('inv', 'spec.cov.wf(self)'),
                  ('frame', 'self.intervals == old(self.intervals) and self.slopes == old(self.slopes)')])
contract(K + '.insert', P, shapes=dict(n=NQ), shapes_thorough=dict(n=NT),
         args=lambda n: dict(self=anyobj(n), interval=Real(0., 1.2), slope=Real(-50., 50.)),
         requires=['spec.cov.wf(self)', 'interval >= 0'],
         ensures=[('inv', 'spec.cov.wf(self)'),
                  ('view', 'spec.cov.inserted(old(self.intervals), old(self.slopes), interval, slope,'
                           ' self.intervals, self.slopes)')])
contract(K + '.pop', P, shapes=dict(n=NQ), shapes_thorough=dict(n=NT),
         args=lambda n: dict(self=anyobj(n), i=Int(0, n - 1)),
         requires=['spec.cov.wf(self)', '0 <= i', 'i < len(self.intervals)'],
         ensures=[('inv', 'spec.cov.wf(self)'),
                  ('view', 'spec.cov.removed(old(self.intervals), old(self.slopes), i,'
                           ' self.intervals, self.slopes)')],
         raises={'ValueError': 'i == 0'})
contract(K + '.pop', P, label='first-index-refused-state-unchanged',
         shapes=dict(n=[1, 3]),
         args=lambda n: dict(self=anyobj(n), i=Const(0)),
         requires=['spec.cov.wf(self)'], raises={'ValueError': 'True'}, cross_check=False)
RT = "const.R('kcal/mol/K') * T"
contract(K + '.get_UoRT', P, shapes=dict(n=NQ), shapes_thorough=dict(n=NT),
         args=lambda n: dict(self=anyobj(n), x=Real(0., 1.5), T=Real(50., 3000.)),
         requires=['spec.cov.wf(self)', 'x >= 0', 'T > 0'],
         ensures=[('is-the-pwl-function',
                   'result * %s == spec.cov.pwl(self.intervals, self.slopes, x)' % RT),
                  ('T-independent-in-energy-units',
                   'result * %s == self.get_UoRT(x=x, T=2 * T) * const.R("kcal/mol/K") * 2 * T' % RT)])
for g in ('HoRT', 'FoRT', 'GoRT'):
    contract(K + '.get_' + g, P, shapes=dict(n=[1, 3]), shapes_thorough=dict(n=NT),
             args=lambda n: dict(self=anyobj(n), x=Real(0., 1.5), T=Real(50., 3000.)),
             requires=['spec.cov.wf(self)', 'x >= 0', 'T > 0'],
             ensures=['result == self.get_UoRT(x=x, T=T)'])
for g, v in (('SoR', 0), ('CpoR', 0), ('CvoR', 0), ('q', 1)):
    contract(K + '.get_' + g, P, args=dict(self=anyobj(2)), ensures=['result == %d' % v])
contract(K + '.from_dict', P, label='reload', shapes=dict(n=[1, 2, 3, 4]),
         args=lambda n: dict(json_obj=DictOf({'class': Const("<class 'pmutt.mixture.cov.PiecewiseCovEffect'>"),
                                              'name_i': Const('A'), 'name_j': Const('B'),
                                              'intervals': RealList(n, 0., 1.),
                                              'slopes': RealList(n, -50., 50.),
                                              'intercepts': RealList(n, -50., 50.)})),
         requires=["spec.cov.valid_input(json_obj['intervals'], json_obj['slopes'])"],
         ensures=[('inv', 'spec.cov.wf(result)'),
                  ('same-view', "result.intervals == old(json_obj['intervals']) and "
                                "result.slopes == old(json_obj['slopes'])")], cross_check=False)
contract(K + '.to_dict', P, shapes=dict(n=[1, 3]),
         args=lambda n: dict(self=anyobj(n)), requires=['spec.cov.wf(self)'],
         ensures=[("result['intervals'] == self.intervals and result['slopes'] == self.slopes"
                   " and result['name_i'] == self.name_i and result['name_j'] == self.name_j")],
         cross_check=False)
# uniqueness: WF determines the function (two WF objects with equal
# breakpoints and slopes have equal intercepts)
lemma('WF-determines-intercepts', P, shapes=dict(n=NQ),
      forall=lambda n: dict(p=anyobj(n), q=anyobj(n)),
      given=['spec.cov.wf(p)', 'spec.cov.wf(q)', 'p.intervals == q.intervals', 'p.slopes == q.slopes'],
      prove=['p._intercepts == q._intercepts'])

# ---- histories: an evaluation before a pair of edits, and edits of a reloaded copy ---------------------------------------
for n in (2, 3):
    for i in range(1, n):
        lemma('evaluate-pop-insert-evaluate[n=%d,i=%d]' % (n, i), P,
              forall=dict(p=built(n), b=Real(0., 1.2), s=Real(-50., 50.), x=Real(0., 1.5), T=Real(50., 3000.)),
              given=['spec.cov.valid_input(p.intervals, p.slopes)', 'b >= 0', 'x >= 0', 'T > 0'],
              prove=[('function-of-the-current-breakpoints',
                      'spec.cov.evaluate_edit_evaluate(p, %d, b, s, x, T) * %s == spec.cov.pwl(p.intervals, p.slopes, x)' % (i, RT)),
                     ('inv', 'spec.cov.wf(p)')])
    lemma('edit-of-a-reloaded-copy-leaves-the-original[n=%d]' % n, P,
          forall=dict(p=built(n), b=Real(0., 1.2), s=Real(-50., 50.), x=Real(0., 1.5), T=Real(50., 3000.)),
          given=['spec.cov.valid_input(p.intervals, p.slopes)', 'b >= 0', 'x >= 0', 'T > 0'],
          prove=[('original-unchanged', 'spec.cov.edit_copy_keeps_original(p, b, s) and spec.cov.wf(p)'),
                 ('copy-well-formed', 'spec.cov.wf(spec.cov.edit_copy_of(p, b, s))')])
    lemma('second-decode-of-the-same-dictionary-after-editing-the-first-copy[n=%d]' % n, P,
          forall=dict(p=built(n), b=Real(0., 1.2), s=Real(-50., 50.)),
          given=['spec.cov.valid_input(p.intervals, p.slopes)', 'b >= 0'],
          prove=[('is-the-object-as-written',
                  'spec.cov.reload_twice_with_an_edit_between(p, b, s).intervals == p.intervals and '
                  'spec.cov.reload_twice_with_an_edit_between(p, b, s).slopes == p.slopes'),
                 ('well-formed', 'spec.cov.wf(spec.cov.reload_twice_with_an_edit_between(p, b, s))')])

# a breakpoint below all existing ones (outside the coverage domain, but accepted by insert): the lists stay ordered pairs
contract(K + '.insert', P, label='below-every-breakpoint', shapes=dict(n=[1, 2, 3]),
         args=lambda n: dict(self=anyobj(n), interval=Real(-1., -0.01), slope=Real(-50., 50.)),
         requires=['spec.cov.wf(self)', 'interval < 0'],
         ensures=[('view', 'spec.cov.inserted(old(self.intervals), old(self.slopes), interval, slope, self.intervals, self.slopes)'),
                  ('breakpoints-ascending', 'all(self.intervals[k - 1] <= self.intervals[k] for k in range(1, len(self.intervals)))'),
                  ('new-pair-first', 'self.intervals[0] == interval and self.slopes[0] == slope')], cross_check=False)

from contracts import helpers
helpers.install(P, ('convert_unit', [('kcal', ['J', 'kJ', 'cal', 'kcal', 'eV']), ('mol', ['mol', 'molec', 'molecule'])]))

# ---- long tables (declared bounded: the same clauses run natively on samples; never counted as proved) --------------------------
for n in (6, 7, 11, 12, 25):
    lemma('long-table[n=%d]' % n, P, native_only=True,
          forall=dict(gaps=RealList(n - 1, 0.01, 0.08), slopes=RealList(n, -50., 50.), x=Real(0., 2.5), T=Real(50., 3000.),
                      b=Real(0., 2.5), s=Real(-50., 50.)),
          given=['all(g > 0 for g in gaps)', 'x >= 0', 'T > 0', 'b >= 0'],
          prove=[('is-the-pwl-function', 'spec.cov.from_gaps(gaps, slopes).get_UoRT(x=x, T=T) * %s == spec.cov.pwl(spec.cov.breakpoints(gaps), slopes, x)' % RT),
                 ('well-formed', 'spec.cov.wf(spec.cov.from_gaps(gaps, slopes))'),
                 ('reloaded-table-is-the-same',
                  'spec.cov.reloaded(spec.cov.from_gaps(gaps, slopes)).intervals == spec.cov.breakpoints(gaps) and '
                  'spec.cov.reloaded(spec.cov.from_gaps(gaps, slopes)).slopes == list(slopes) and '
                  'spec.cov.wf(spec.cov.reloaded(spec.cov.from_gaps(gaps, slopes)))'),
                 ('reloaded-after-an-insert',
                  'spec.cov.wf(spec.cov.reloaded(spec.cov.edit_copy_of(spec.cov.from_gaps(gaps, slopes), b, s))) and '
                  'spec.cov.reloaded(spec.cov.edit_copy_of(spec.cov.from_gaps(gaps, slopes), b, s)).get_UoRT(x=x, T=T) == '
                  'spec.cov.edit_copy_of(spec.cov.from_gaps(gaps, slopes), b, s).get_UoRT(x=x, T=T)')])
