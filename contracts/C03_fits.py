"""C03 - fitted polynomials anchor to the reference, join continuously and
keep their break temperatures inside the data range (integration-constant
part, where the index slips live).  np.polyfit / curve_fit results are
treated as ARBITRARY reals, so the anchor / continuity / bounds clauses are
proved for every possible Cp fit."""
from pvc.dsl import *

P = 'C03'
LEVEL_NOTE = 'fit quality for non-polynomial sources is not decided deductively'
NASA = 'pmutt.empirical.nasa:'
SHO = 'pmutt.empirical.shomate:'
TRUSTED = ['np.polyfit / scipy.optimize.curve_fit return some coefficient vector of the right length '
           '(their least-squares optimality is an assumed library contract, used only by the bounded check)']
A7 = lambda: RealVec(7, -5., 5.)
TREF = Real(100., 3000.)
TMID = Real(400., 2000.)
ZERO56 = ['a_low[5] == 0', 'a_low[6] == 0', 'a_high[5] == 0', 'a_high[6] == 0']
H7 = 'spec.nasa.nasa7_HoRT'
S7 = 'spec.nasa.nasa7_SoR'
contract(NASA + '_fit_HoRT', P,
         args=dict(T_ref=TREF, HoRT_ref=Real(-50., 50.), a_low=A7(), a_high=A7(), T_mid=TMID),
         requires=ZERO56 + ['T_ref > 0', 'T_mid > 0'],
         ensures=[('anchor-low-when-Tref<=Tmid', 'implies(T_ref <= T_mid, %s(a_low, T_ref) + result[0] / T_ref == HoRT_ref)' % H7),
                  ('anchor-high-when-Tref>=Tmid', 'implies(T_ref >= T_mid, %s(a_high, T_ref) + result[1] / T_ref == HoRT_ref)' % H7),
                  ('continuous-at-Tmid', '%s(a_low, T_mid) + result[0] / T_mid == %s(a_high, T_mid) + result[1] / T_mid' % (H7, H7))])
contract(NASA + '_fit_SoR', P,
         args=dict(T_ref=TREF, SoR_ref=Real(-50., 50.), a_low=A7(), a_high=A7(), T_mid=TMID),
         requires=ZERO56 + ['T_ref > 0', 'T_mid > 0'],
         ensures=[('anchor-low-when-Tref<=Tmid', 'implies(T_ref <= T_mid, %s(a_low, T_ref) + result[0] == SoR_ref)' % S7),
                  ('anchor-high-when-Tref>=Tmid', 'implies(T_ref >= T_mid, %s(a_high, T_ref) + result[1] == SoR_ref)' % S7),
                  ('continuous-at-Tmid', '%s(a_low, T_mid) + result[0] == %s(a_high, T_mid) + result[1]' % (S7, S7))])

# ---- the Cp fit itself: only the SHAPE of its result matters to the integration constants --
contract(NASA + '_get_CpoR_MSE', P, modular=True,
         returns=ListOf([Real(0., 10.), RealVec(5, -5., 5.), RealVec(5, -5., 5.)], as_tuple=True),
         args=dict(T=NpConst([300. + 100. * k for k in range(13)]), CpoR=RealVec(13, 2., 20.), T_mid=Const(800.)),
         requires=['len(T) == len(CpoR)'],
         ensures=[('mse-nonnegative', 'result[0] >= 0'),
                  ('five-coefficients-per-segment', 'len(result[1]) == 5 and len(result[2]) == 5')],
         cross_check=False)

# ---- Nasa.from_data end to end: a concrete temperature grid, symbolic data ----------------
GRID = [300. + 100. * k for k in range(13)]           # 300 .. 1500 K
for tmid_kind, tmid in (('None', Const(None)), ('scalar', Const(800.)), ('list', Const([600., 900., 1200.]))):
    for tref_label, tref in (('Tref=lowest', Const(300.)), ('Tref=inside-upper', Const(1350.)), ('Tref-symbolic', Real(300., 1500.))):
        contract(NASA + 'Nasa.from_data', P, label='T_mid=%s,%s' % (tmid_kind, tref_label),
                 args=dict(name=Const('fit'), T=NpConst(GRID), CpoR=RealVec(13, 2., 20.), T_ref=tref,
                           HoRT_ref=Real(-50., 50.), SoR_ref=Real(5., 60.), T_mid=tmid),
                 requires=['T_ref >= 300', 'T_ref <= 1500', 'any(CpoR[k] > 1 for k in range(13))'],
                 ensures=[('bounds-span-the-data', 'result.T_low == 300 and result.T_high == 1500'),
                          ('break-strictly-inside', 'result.T_low < result.T_mid and result.T_mid < result.T_high'),
                          ('anchors-H', 'result.get_HoRT(T=T_ref) == HoRT_ref'),
                          ('anchors-S', 'result.get_SoR(T=T_ref) == SoR_ref'),
                          ('H-continuous-at-break', '%s(result.a_low, result.T_mid) == %s(result.a_high, result.T_mid)' % (H7, H7)),
                          ('S-continuous-at-break', '%s(result.a_low, result.T_mid) == %s(result.a_high, result.T_mid)' % (S7, S7))],
                 cross_check=False)
contract(NASA + 'Nasa.from_data', P, label='zero-Cp',
         args=dict(name=Const('fit'), T=NpConst(GRID), CpoR=NpConst([0.] * 13), T_ref=Real(300., 1500.),
                   HoRT_ref=Real(-50., 50.), SoR_ref=Real(5., 60.)),
         requires=['T_ref >= 300', 'T_ref <= 1500'],
         ensures=[('bounds-span-the-data', 'result.T_low == 300 and result.T_high == 1500'),
                  ('break-strictly-inside', 'result.T_low < result.T_mid and result.T_mid < result.T_high'),
                  ('anchors-H', 'result.get_HoRT(T=T_ref) == HoRT_ref'),
                  ('anchors-S', 'result.get_SoR(T=T_ref) == SoR_ref')], cross_check=False)

# ---- NASA-9: integration constants row by row -----------------------------------------------
H9 = 'spec.nasa.nasa9_HoRT'
S9 = 'spec.nasa.nasa9_SoR'
for k in (1, 2, 3):
    tm = [Real(400. + 500. * i, 600. + 500. * i) for i in range(k - 1)]
    ordered = ['T_mid[%d] < T_mid[%d]' % (i, i + 1) for i in range(k - 2)] + ['T_ref > 0'] + ['T_mid[%d] > 0' % i for i in range(k - 1)]
    zero = ['a[%d][7] == 0 and a[%d][8] == 0' % (i, i) for i in range(k)]
    for where, cond in (('first-interval', ['T_ref <= T_mid[0]'] if k > 1 else []),):
        contract(NASA + '_fit_HoRT9', P, label='k=%d,Tref-in-%s' % (k, where),
                 args=dict(T_ref=Real(100., 400.), HoRT_ref=Real(-50., 50.),
                           a=ListOf([RealVec(9, -5., 5.) for _ in range(k)]), T_mid=ListOf(tm)),
                 requires=ordered + zero + cond,
                 ensures=[('anchor', '%s(result[0], T_ref) == HoRT_ref' % H9)] +
                         [('continuous-at-T_mid[%d]' % i, '%s(result[%d], T_mid[%d]) == %s(result[%d], T_mid[%d])' % (H9, i, i, H9, i + 1, i))
                          for i in range(k - 1)])
        contract(NASA + '_fit_SoR9', P, label='k=%d,Tref-in-%s' % (k, where),
                 args=dict(T_ref=Real(100., 400.), SoR_ref=Real(-50., 50.),
                           a=ListOf([RealVec(9, -5., 5.) for _ in range(k)]), T_mid=ListOf(tm)),
                 requires=ordered + zero + cond,
                 ensures=[('anchor', '%s(result[0], T_ref) == SoR_ref' % S9)] +
                         [('continuous-at-T_mid[%d]' % i, '%s(result[%d], T_mid[%d]) == %s(result[%d], T_mid[%d])' % (S9, i, i, S9, i + 1, i))
                          for i in range(k - 1)])
GRID9 = [300. + 50. * k for k in range(25)]              # 300 .. 1500 K
for k, tmid in ((1, []), (2, [900.]), (3, [700., 1100.])):
    for zero_cp in (False, True):
        cp = NpConst([0.] * 25) if zero_cp else RealVec(25, 2., 20.)
        for tref_lab, tref in (('Tref=T_low', Const(300.)), ('Tref-anywhere', Real(300., 1500.))):
            contract(NASA + 'Nasa9.from_data', P, label='k=%d,zeroCp=%s,%s' % (k, zero_cp, tref_lab),
                     args=dict(name=Const('fit'), T=NpConst(GRID9), CpoR=cp, T_ref=tref,
                               HoRT_ref=Real(-50., 50.), SoR_ref=Real(5., 60.), T_mid=Const(tmid)),
                     requires=['T_ref >= 300', 'T_ref <= 1500'],
                     ensures=[('bounds-span-the-data', 'result.T_low == 300 and result.T_high == 1500'),
                              ('anchors-H', 'result.get_HoRT(T=T_ref) == HoRT_ref'),
                              ('anchors-S', 'result.get_SoR(T=T_ref) == SoR_ref')] +
                             [('H-continuous-at-break-%d' % i,
                               '%s(result.nasas[%d].a, %r) == %s(result.nasas[%d].a, %r)' % (H9, i, tmid[i], H9, i + 1, tmid[i]))
                              for i in range(k - 1)] +
                             [('S-continuous-at-break-%d' % i,
                               '%s(result.nasas[%d].a, %r) == %s(result.nasas[%d].a, %r)' % (S9, i, tmid[i], S9, i + 1, tmid[i]))
                              for i in range(k - 1)],
                     cross_check=False)

# ---- Shomate ------------------------------------------------------------------------------
from pvc import live
UNITS_Q = ['J/mol/K', 'kcal/mol/K', 'eV/K']
UNITS_T = sorted(live.func_literal('pmutt.constants', 'R', 'R_dict'))
HS = 'spec.nasa.shomate_HoRT'
SS = 'spec.nasa.shomate_SoR'
GRIDS = [300. + 100. * k for k in range(16)]
for zero_cp in (False, True):
    contract(SHO + 'Shomate.from_data', P, label='zeroCp=%s' % zero_cp,
             shapes=dict(units=UNITS_Q), shapes_thorough=dict(units=UNITS_T),
             args=lambda units, zero_cp=zero_cp: dict(
                 name=Const('fit'), T=NpConst(GRIDS),
                 CpoR=(NpConst([0.] * 16) if zero_cp else RealVec(16, 2., 20.)),
                 T_ref=Real(300., 1800.), HoRT_ref=Real(-50., 50.), SoR_ref=Real(5., 60.), units=Const(units)),
             requires=['T_ref >= 300', 'T_ref <= 1800'],
             ensures=[('bounds-span-the-data', 'result.T_low == 300 and result.T_high == 1800'),
                      ('anchors-H', 'result.get_HoRT(T=T_ref) == HoRT_ref'),
                      ('anchors-S', 'result.get_SoR(T=T_ref) == SoR_ref')],
             cross_check=False)
