"""C16 - equilibrium compositions conserve atoms and minimise Gibbs energy
(pmutt/equilibrium/_equilibrium.py).  Decidable clauses only; optimality of
the SLSQP result is an assumed solver contract (see DESIGN 4/C16)."""
from pvc.dsl import *

P = 'C16'
LEVEL = 'other'
EQ = 'pmutt.equilibrium._equilibrium:Equilibrium'
TRUSTED = ['scipy.optimize.minimize (SLSQP) returns an arbitrary result object whose x respects the bounds it was given; '
           'that a successful result satisfies the constraints and is a global minimiser is NOT proved (bounded check only)']
GETTERS = ['get_GoRT']


def gas(name, comp):
    return Stub(name, GETTERS, positive=(), elements=comp)


NETS = {'H2/O2/H2O': [('H2', {'H': 2}), ('O2', {'O': 2}), ('H2O', {'H': 2, 'O': 1})],
        'one-element': [('O2', {'O': 2}), ('O3', {'O': 3})],
        'dependent-balances(CnH2n+N2)': [('C2H4', {'C': 2, 'H': 4}), ('C3H6', {'C': 3, 'H': 6}), ('N2', {'N': 2})],
        'CH4-combustion': [('CH4', {'C': 1, 'H': 4}), ('O2', {'O': 2}), ('CO2', {'C': 1, 'O': 2}), ('H2O', {'H': 2, 'O': 1})]}


def system(net):
    sp = NETS[net]
    return New(EQ, model=ListOf([gas(n, c) for n, c in sp]),
               network=DictOf({n: Real(0., 2.) for n, c in sp}))


for net, sp in NETS.items():
    elements = []
    for n, c in sp:
        for e in c:
            if e not in elements:
                elements.append(e)
    A = [[c.get(e, 0) for e in elements] for n, c in sp]
    ns, ne = len(sp), len(elements)
    feedA = ['(' + ' + '.join("network[%r] * %d" % (sp[i][0], A[i][j]) for i in range(ns)) + ')' for j in range(ne)]
    contract(EQ + '.__init__', P, label=net,
             args=dict(self=Fields(EQ), model=ListOf([gas(n, c) for n, c in sp]),
                       network=DictOf({n: Real(0., 2.) for n, c in sp})),
             requires=['all(v >= 0 for v in network.values())'] +
                      ['%s > 0' % f for f in feedA],
             ensures=[('element-matrix', 'self.elements == %r and all(self.mol_elem[i][j] == %r[i][j] '
                                         'for i in range(%d) for j in range(%d))' % (elements, A, ns, ne)),
                      ('feed-atom-totals', ' and '.join('self.ele_feed[%d] == %s' % (j, feedA[j]) for j in range(ne)))])
    xs = RealVec(ns, 0.01, 3.)
    contract(EQ + '._constraints1_eq', P, label=net, args=dict(self=system(net), x=xs),
             ensures=[('atom-balance-residual',
                       ' and '.join('result[%d] == %s - self.ele_feed[%d]' % (
                           j, ' + '.join('x[%d] * %d' % (i, A[i][j]) for i in range(ns)), j) for j in range(ne)))],
             cross_check=False)
    contract(EQ + '._constraints1_eq_jac', P, label=net, args=dict(self=system(net), x=xs),
             ensures=[('jacobian-is-the-element-matrix-transposed',
                       'all(result[j][i] == %r[i][j] for i in range(%d) for j in range(%d))' % (A, ns, ne))],
             cross_check=False)
    contract(EQ + '.get_net_comp', P, label=net, args=dict(self=system(net), T=Real(300., 2500.), P=Real(0.01, 100.)),
             requires=['T > 0', 'P > 0', 'all(v >= 0 for v in self.network.values())', 'any(v > 0 for v in self.network.values())'],
             ensures=[('amounts-positive', 'all(result.moles[i] > 0 for i in range(%d))' % ns),
                      ('mole-fractions-sum-to-one', ' + '.join('result.mole_frac[%d]' % i for i in range(ns)) + ' == 1'),
                      ('species-order-kept', 'result.species == %r' % [n for n, c in sp]),
                      ('lower-bounds-positive', 'all(b[0] > 0 for b in ext_call("minimize")["bounds"])'),
                      ('constraint-and-jacobians-passed',
                       'ext_call("minimize")["jac"] is not None and ext_call("minimize")["constraints"]["type"] == "eq"'),
                      ('gibbs-energies-at-T', 'all(ext_call("minimize")["args"][0][i] == self.model[%r[i]].get_GoRT(T=T) '
                                              'for i in range(%d))' % ([n for n, c in sp], ns)),
                      ('pressure-in-bar', 'ext_call("minimize")["args"][1] == P * 1.01325')],
             warns='not ext_call("minimize")["result"].success', cross_check=False)

# the model may hold more species than the network, in another order (e.g. a whole thermdat file): amounts stay with their species
sp_ = NETS['H2/O2/H2O']
model_order = [sp_[2], ('N2', {'N': 2}), sp_[1], sp_[0]]          # H2O, N2 (not in the network), O2, H2
elements_ = ['H', 'O']
A_ = [[c.get(e, 0) for e in elements_] for n, c in sp_]
feedA_ = ['(' + ' + '.join("network[%r] * %d" % (sp_[i][0], A_[i][j]) for i in range(3)) + ')' for j in range(2)]
contract(EQ + '.__init__', P, label='model-superset-in-another-order',
         args=dict(self=Fields(EQ), model=ListOf([gas(n, c) for n, c in model_order]),
                   network=DictOf({n: Real(0., 2.) for n, c in sp_})),
         requires=['all(v >= 0 for v in network.values())'] + ['%s > 0' % f for f in feedA_],
         ensures=[('species-in-network-order', 'self.species == %r' % [n for n, c in sp_]),
                  ('element-matrix', 'self.elements == %r and all(self.mol_elem[i][j] == %r[i][j] for i in range(3) for j in range(2))' % (elements_, A_)),
                  ('feed-atom-totals', ' and '.join('self.ele_feed[%d] == %s' % (j, feedA_[j]) for j in range(2)))])
contract(EQ + '.get_net_comp', P, label='model-superset-in-another-order',
         args=dict(self=New(EQ, model=ListOf([gas(n, c) for n, c in model_order]), network=DictOf({n: Real(0., 2.) for n, c in sp_})),
                   T=Real(300., 2500.), P=Real(0.01, 100.)),
         requires=['T > 0', 'P > 0', 'all(v >= 0 for v in self.network.values())', 'any(v > 0 for v in self.network.values())'],
         ensures=[('species-order-kept', 'result.species == %r' % [n for n, c in sp_]),
                  ('gibbs-energies-of-the-network-species', 'all(ext_call("minimize")["args"][0][i] == self.model[%r[i]].get_GoRT(T=T) for i in range(3))'
                   % [n for n, c in sp_])],
         cross_check=False)

# a solver object that has been used before (any earlier T, P and cached energies): the next call uses the new conditions
for net, sp in NETS.items():
    ns = len(sp)
    used = New(EQ, model=ListOf([gas(n, c) for n, c in sp]), network=DictOf({n: Real(0., 2.) for n, c in sp}),
               _post=dict(T=Real(300., 2500.), P=Real(0.01, 100.), gibbs=RealList(ns, -50., 50.)))
    contract(EQ + '.get_net_comp', P, label=net + ',object-used-before', args=dict(self=used, T=Real(300., 2500.), P=Real(0.01, 100.)),
             requires=['T > 0', 'P > 0', 'all(v >= 0 for v in self.network.values())', 'any(v > 0 for v in self.network.values())'],
             ensures=[('gibbs-energies-at-the-new-T', 'all(ext_call("minimize")["args"][0][i] == self.model[%r[i]].get_GoRT(T=T) '
                                                      'for i in range(%d))' % ([n for n, c in sp], ns)),
                      ('pressure-in-bar', 'ext_call("minimize")["args"][1] == P * 1.01325')],
             cross_check=False)

# ---- objective = mixture Gibbs energy, Jacobian = its gradient ------------------------------------
for n in (2, 3, 4):
    obj = ' + '.join('x[%d] * (g[%d] + log(x[%d] * p / (%s)))' % (i, i, i, ' + '.join('x[%d]' % k for k in range(n)))
                     for i in range(n))
    contract(EQ + '._objective', P, label='n=%d' % n, args=dict(self=Fields(EQ), x=RealVec(n, 0.01, 3.)),
             ghost=dict(g=RealList(n, -30., 30.), p=Real(0.01, 100.)), requires=['True'], ensures=['True'],
             cross_check=False) if False else None
    lemma('objective-is-mixture-gibbs-energy[n=%d]' % n, P,
          forall=dict(eq=Fields(EQ), x=RealVec(n, 0.01, 3.), g=RealList(n, -30., 30.), p=Real(0.01, 100.)),
          given=['all(x[i] > 0 for i in range(%d))' % n, 'p > 0'],
          prove=[('objective', 'eq._objective(x, g, p) == ' + obj)] +
                [('jacobian-is-the-gradient[%d]' % k,
                  'eq._objective_jac(x, g, p)[%d] == D(eq._objective(x, g, p), x[%d])' % (k, k)) for k in range(n)])

# ---- the same objective for the largest networks of the property (declared bounded: run natively on samples; never counted as proved) --
for n in (6, 10, 11, 12):
    lemma('objective-is-mixture-gibbs-energy,large[n=%d]' % n, P, native_only=True,
          forall=dict(eq=Fields(EQ), x=RealVec(n, 0.01, 3.), g=RealList(n, -30., 30.), p=Real(0.01, 100.)),
          given=['all(x[i] > 0 for i in range(%d))' % n, 'p > 0'],
          prove=[('objective', 'eq._objective(x, g, p) == sum(x[i] * (g[i] + log(x[i] * p / sum(x[k] for k in range(%d)))) for i in range(%d))' % (n, n)),
                 ('jacobian', 'all(eq._objective_jac(x, g, p)[j] == g[j] + log(x[j] * p / sum(x[k] for k in range(%d))) for j in range(%d))' % (n, n))])
