"""C13 - pressure and coverage corrections are added exactly once per attached
model (pmutt/empirical/__init__.py, nasa.py, shomate.py, mixture/__init__.py)."""
import itertools
from pvc.dsl import *

P = 'C13'
NASA = 'pmutt.empirical.nasa:'
SHO = 'pmutt.empirical.shomate:'
EMP = 'pmutt.empirical:'
COV = 'pmutt.mixture.cov:PiecewiseCovEffect'
ADJ_DICT = {'class': "<class 'pmutt.empirical.GasPressureAdj'>"}


def model(kind):
    if kind == 'P':
        return New(EMP + 'GasPressureAdj')
    if kind == 'Pd':
        return Const(dict(ADJ_DICT))
    if kind == 'cov':
        return New(COV, name_i=Const('A'), name_j=Const('B'),
                   intervals=ListOf([Const(0.), Real(0.2, 0.6)]),
                   slopes=RealList(2, -30., 30.))
    raise ValueError(kind)


def models(kinds):
    if kinds is None:
        return Const(None)
    return ListOf([model(k) for k in kinds])


KINDS_Q = [None, (), ('P',), ('Pd',), ('cov',), ('cov', 'P'), ('P', 'cov'), ('cov', 'cov'), ('cov', 'Pd')]
KINDS_T = KINDS_Q + [k for n in (3, 4) for k in itertools.product(('P', 'cov', 'Pd'), repeat=n)
                     if k.count('P') + k.count('Pd') <= 1]
PHASES = ['g', 'gas', 'G', 'GAS', 's', 'S', None]


def nasa7(phase, kinds, **extra):
    return New(NASA + 'Nasa', name=Const('A'), T_low=Real(50., 400.),
               T_mid=Real(500., 1500.), T_high=Real(2000., 6000.),
               a_low=RealVec(7, -50., 50.), a_high=RealVec(7, -50., 50.),
               phase=Const(phase), misc_models=models(kinds), **extra)


def expected_adj(phase, kinds, flag=True):
    given = 0 if kinds is None else sum(1 for k in kinds if k == 'P')
    gas = phase is not None and phase.lower() in ('g', 'gas')
    if gas and flag:
        return 1
    return given


# ---- constructor: exactly one adjustment for a gas, none added otherwise ----
def kname(kinds):
    return 'None' if kinds is None else '[' + ','.join(kinds) + ']'


for phase in PHASES:
    for kinds in KINDS_Q:
        for flag in (True, False):
            gas = phase is not None and phase.lower() in ('g', 'gas')
            if not flag and not gas:
                continue
            n_other = 0 if kinds is None else sum(1 for k in kinds if k == 'cov')
            contract(NASA + 'Nasa.__init__', P,
                     label='adj[phase=%s,models=%s,add=%s]' % (phase, kname(kinds), flag),
                     args=dict(self=Fields(NASA + 'Nasa'), name=Const('A'), T_low=Real(50., 400.),
                               T_mid=Real(500., 1500.), T_high=Real(2000., 6000.),
                               a_low=RealVec(7, -50., 50.), a_high=RealVec(7, -50., 50.),
                               phase=Const(phase), misc_models=models(kinds),
                               add_gas_P_adj=Const(flag)),
                     ensures=[('adjustment-count',
                               'spec.mix.count_adj(self.misc_models) == %d' % expected_adj(phase, kinds, flag)),
                              ('others-preserved-in-order',
                               'len(spec.mix.others(self.misc_models)) == %d and '
                               'all(a == b for a, b in zip(spec.mix.others(self.misc_models), '
                               'spec.mix.others(old(misc_models))))' % n_other)],
                     cross_check=False)

# ---- the pressure adjustment itself -----------------------------------------
PR = Real(1e-3, 1e2, log=True)
contract(EMP + 'GasPressureAdj.get_SoR', P, args=dict(self=model('P'), P=PR),
         requires=['P > 0'], ensures=[('S(P)=-ln(P/bar)', 'result == -log(P)')])
for q in ('CvoR', 'CpoR', 'UoRT', 'HoRT'):
    contract(EMP + 'GasPressureAdj.get_' + q, P, args=dict(self=model('P')),
             ensures=['result == 0'])
contract('pmutt:_ModelBase.get_GoRT', P, label='GasPressureAdj',
         args=dict(self=model('P'), P=PR), requires=['P > 0'],
         ensures=[('G(P)=+ln(P/bar)', 'result == log(P)')])
contract('pmutt:_ModelBase.get_FoRT', P, label='GasPressureAdj',
         args=dict(self=model('P'), P=PR), requires=['P > 0'],
         ensures=['result == log(P)'])

# ---- _get_mix_quantity: one entry per model, in order ------------------------
for kinds in [k for k in KINDS_Q if k is not None and 'Pd' not in k]:
    for q in ('SoR', 'HoRT'):
        contract('pmutt.mixture:_get_mix_quantity', P, label='%s%s' % (q, kname(kinds)),
                 args=dict(misc_models=models(kinds), method_name=Const('get_' + q),
                           T=Real(100., 3000.), P=PR, x=Real(0., 1.)),
                 requires=['T > 0', 'P > 0', 'x >= 0'],
                 ensures=[('shape', 'len(result) == len(misc_models)'),
                          ('entries', 'all(result[k] == spec.mix.contribution(misc_models[k], %r, T, P, x)'
                                      ' for k in range(len(misc_models)))' % q)])
contract('pmutt.mixture:_get_mix_quantity', P, label='None',
         args=dict(misc_models=Const(None), method_name=Const('get_SoR'), T=Real(100., 3000.)),
         ensures=['len(result) == 1 and result[0] == 0'])

# ---- species getters: bare polynomial + sum of every attached model ----------
COND = dict(T=Real(100., 3000.), P=PR, x=Real(0., 1.))
REQ = ['T > 0', 'P > 0', 'x >= 0', '0 < self.T_low', 'self.T_low < self.T_mid', 'self.T_mid < self.T_high']
BARE7 = 'spec.nasa.nasa7_%s(self.a_low if T < self.T_mid else self.a_high, T)'
for kinds in [k for k in KINDS_Q if k is not None and 'Pd' not in k and k != ()]:
    for phase in ('g', 's'):
        if phase == 's' and 'P' in kinds:
            continue
        for q in ('CpoR', 'HoRT', 'SoR', 'GoRT'):
            bare = (BARE7 % q) if q != 'GoRT' else '(%s - %s)' % (BARE7 % 'HoRT', BARE7 % 'SoR')
            contract(NASA + 'Nasa.get_' + q, P, label='additive[%s,%s]' % (phase, kname(kinds)),
                     args=dict(self=nasa7(phase, kinds), **COND), requires=REQ,
                     ensures=[('bare+sum', 'result == %s + spec.mix.total(self.misc_models, %r, T, P, x)' % (bare, q))])
for q in ('CpoR', 'HoRT', 'SoR', 'GoRT'):
    contract(NASA + 'Nasa.get_' + q, P, label='additive-array[g,[cov,cov]]', shapes=dict(n=[1, 2]),
             args=lambda n: dict(self=nasa7('g', ('cov', 'cov')), T=RealVec(n, 100., 3000.), P=PR, x=Real(0., 1.)),
             requires=REQ[1:] + ['all(T[i] > 0 for i in range(len(T)))'],
             ensures=[('array-is-map', 'all(at(result, i) == self.get_%s(T=T[i], P=P, x=x) for i in range(len(T)))' % q)])
lemma('S(P)-S(1bar)', P, forall=dict(m=model('P'), P=PR, T=Real(100., 3000.)), given=['P > 0'],
      prove=[('entropy-falls-by-lnP', 'm.get_SoR(P=P) - m.get_SoR(P=1.) == -log(P)'),
             ('gibbs-rises-by-lnP', 'm.get_GoRT(P=P) - m.get_GoRT(P=1.) == log(P)'),
             ('H-and-Cp-unaffected', 'm.get_HoRT() == 0 and m.get_CpoR() == 0')])


# ---- NASA-9 and Shomate species --------------------------------------------------
def nasa9(phase, kinds):
    seg = New(NASA + 'SingleNasa9', T_low=Real(100., 150.), T_high=Real(2900., 3000.),
              a=RealVec(9, -50., 50.))
    return New(NASA + 'Nasa9', name=Const('A'), nasas=ListOf([seg]), phase=Const(phase),
               misc_models=models(kinds))


def shomate(phase, kinds):
    return New(SHO + 'Shomate', name=Const('A'), T_low=Real(100., 300.), T_high=Real(2000., 6000.),
               a=RealVec(8, -50., 50.), units=Const('J/mol/K'), phase=Const(phase),
               misc_models=models(kinds))


INSIDE9 = ['self.nasas[0].T_low <= T', 'T <= self.nasas[0].T_high']
for kinds in [('cov',), ('cov', 'cov'), ('P', 'cov')]:
    phase = 'g'
    for q in ('CpoR', 'HoRT', 'SoR', 'GoRT'):
        bare9 = ('spec.nasa.nasa9_%s(self.nasas[0].a, T)' % q) if q != 'GoRT' else \
            '(spec.nasa.nasa9_HoRT(self.nasas[0].a, T) - spec.nasa.nasa9_SoR(self.nasas[0].a, T))'
        contract(NASA + 'Nasa9.get_' + q, P, label='additive[%s,%s]' % (phase, kname(kinds)),
                 args=dict(self=nasa9(phase, kinds), **COND), requires=REQ[:3] + INSIDE9,
                 ensures=[('bare+sum', 'result == %s + spec.mix.total(self.misc_models, %r, T, P, x)' % (bare9, q))])
        bsh = ("spec.nasa.shomate_%s(self.a, T / 1000) / const.R('J/mol/K')" % q) if q != 'GoRT' else \
            "(spec.nasa.shomate_HoRT(self.a, T / 1000) - spec.nasa.shomate_SoR(self.a, T / 1000)) / const.R('J/mol/K')"
        contract(SHO + 'Shomate.get_' + q, P, label='additive[%s,%s]' % (phase, kname(kinds)),
                 args=dict(self=shomate(phase, kinds), **COND), requires=REQ[:3],
                 ensures=[('bare+sum', 'result == %s + spec.mix.total(self.misc_models, %r, T, P, x)' % (bsh, q))])
for q in ('CpoR', 'HoRT', 'SoR', 'GoRT'):
    contract(SHO + 'Shomate.get_' + q, P, label='additive-array[g,[cov,cov]]', shapes=dict(n=[1, 2, 3]),
             args=lambda n: dict(self=shomate('g', ('cov', 'cov')), T=RealVec(n, 300., 2000.), P=PR, x=Real(0., 1.)),
             requires=['P > 0', 'x >= 0', 'all(T[i] > 0 for i in range(len(T)))'],
             ensures=[('array-is-map', 'all(at(result, i) == self.get_%s(T=T[i], P=P, x=x) for i in range(len(T)))' % q)])

# ---- reload history: to_dict / from_dict keeps exactly one adjustment ---------------
for kinds in (None, ('cov',), ('P', 'cov')):
    contract(NASA + 'Nasa.to_dict', P, label='reload[%s]' % kname(kinds),
             args=dict(self=nasa7('g', kinds, elements=Const({'H': 2}))),
             ensures=[('one-adjustment-after-reload',
                       'spec.mix.count_adj(type(self).from_dict(result).misc_models) == 1'),
                      ('one-adjustment-after-two-reloads',
                       'spec.mix.count_adj(type(self).from_dict(type(self).from_dict(self.to_dict()).to_dict()).misc_models) == 1'),
                      ('others-kept', 'len(spec.mix.others(type(self).from_dict(self.to_dict()).misc_models)) == '
                                      'len(spec.mix.others(self.misc_models))')],
             cross_check=False)

# ---- conditions addressed to the species of a coverage model (<name_j>_kwargs): every model is evaluated at the conditions
# ---- of ITS OWN species, also when one species name ends with another (O / CO) and in either keyword order --------------------
def cov_on(name_j):
    return New(COV, name_i=Const('A'), name_j=Const(name_j), intervals=ListOf([Const(0.), Real(0.2, 0.6)]), slopes=RealList(2, -30., 30.))


for n1, n2 in (('O', 'CO'), ('CO', 'O'), ('H', 'N')):
    for order in ((n1, n2), (n2, n1)):
        sp_ = New(NASA + 'Nasa', name=Const('A'), T_low=Real(50., 400.), T_mid=Real(500., 1500.), T_high=Real(2000., 6000.),
                  a_low=RealVec(7, -50., 50.), a_high=RealVec(7, -50., 50.), phase=Const('s'),
                  misc_models=ListOf([cov_on(n1), cov_on(n2)]))
        args = dict(self=sp_, T=Real(100., 3000.))
        for nm_ in order:
            args['%s_kwargs' % nm_] = DictOf({'x': Real(0., 1.)})
        for q in ('HoRT', 'GoRT'):
            bare = (BARE7 % q) if q != 'GoRT' else '(%s - %s)' % (BARE7 % 'HoRT', BARE7 % 'SoR')
            contract(NASA + 'Nasa.get_' + q, P, label='own-conditions[models=%s,%s;keywords=%s,%s]' % (n1, n2, order[0], order[1]),
                     args=args, requires=['T > 0', '0 < self.T_low', 'self.T_low < self.T_mid', 'self.T_mid < self.T_high'],
                     ensures=[('each-model-at-its-own-coverage',
                               "result == %s + self.misc_models[0].get_HoRT(x=%s_kwargs['x'], T=T) + self.misc_models[1].get_HoRT(x=%s_kwargs['x'], T=T)"
                               % (bare, n1, n2))],
                     cross_check=False)
    contract('pmutt:_get_specie_kwargs', P, label='names=%s,%s' % (n1, n2),
             args={'specie_name': Const(n1), 'T': Real(100., 3000.), n1 + '_kwargs': DictOf({'x': Real(0., 1.)}),
                   n2 + '_kwargs': DictOf({'x': Real(0., 1.)})},
             ensures=[('own-block-only', "result == {'T': T, 'x': %s_kwargs['x']}" % n1)], cross_check=False)

# ---- species built without a misc_models argument: what one species gets does not depend on the species built before it -------
for kind in ('Nasa', 'Nasa9', 'Shomate'):
    for first, second, n_adj in (('G', 'S', 0), ('G', None, 0), ('S', 'G', 1), ('G', 'G', 1)):
        lemma('default-models-are-per-species[%s,%s-then-%s]' % (kind, first, second), P, forall=dict(), given=[],
              prove=[('adjustment-count', 'spec.mix.count_adj(spec.mix.built_after(%r, %r, %r).misc_models) == %d'
                      % (kind, first, second, n_adj)),
                     ('nothing-else-attached', 'len(spec.mix.others(spec.mix.built_after(%r, %r, %r).misc_models)) == 0'
                      % (kind, first, second))])

from contracts import helpers
helpers.install(P, 'kwargs')

# ---- the same clause with every combination of the error / warning switches (they must not change what is computed) ----------
for re_, rw_ in ((False, False), (True, False), (False, True)):
    sp_ = New(NASA + 'Nasa', name=Const('A'), T_low=Real(50., 400.), T_mid=Real(500., 1500.), T_high=Real(2000., 6000.),
              a_low=RealVec(7, -50., 50.), a_high=RealVec(7, -50., 50.), phase=Const('s'), misc_models=ListOf([cov_on('O'), cov_on('CO')]))
    for q in ('HoRT', 'GoRT'):
        bare = (BARE7 % q) if q != 'GoRT' else '(%s - %s)' % (BARE7 % 'HoRT', BARE7 % 'SoR')
        contract(NASA + 'Nasa.get_' + q, P, label='own-conditions,raise_error=%s,raise_warning=%s' % (re_, rw_),
                 args=dict(self=sp_, T=Real(100., 3000.), raise_error=Const(re_), raise_warning=Const(rw_),
                           O_kwargs=DictOf({'x': Real(0., 1.)}), CO_kwargs=DictOf({'x': Real(0., 1.)})),
                 requires=['T > 0', '0 < self.T_low', 'self.T_low < self.T_mid', 'self.T_mid < self.T_high'],
                 ensures=[('each-model-at-its-own-coverage',
                           "result == %s + self.misc_models[0].get_HoRT(x=O_kwargs['x'], T=T) + self.misc_models[1].get_HoRT(x=CO_kwargs['x'], T=T)" % bare)],
                 cross_check=False)
    contract('pmutt.mixture:_get_mix_quantity', P, label='own-conditions,raise_error=%s,raise_warning=%s' % (re_, rw_),
             args=dict(misc_models=ListOf([cov_on('O'), cov_on('CO')]), method_name=Const('get_HoRT'), raise_error=Const(re_), raise_warning=Const(rw_),
                       T=Real(100., 3000.), O_kwargs=DictOf({'x': Real(0., 1.)}), CO_kwargs=DictOf({'x': Real(0., 1.)})),
             requires=['T > 0'],
             ensures=[('one-entry-per-model-at-its-own-coverage',
                       "len(result) == 2 and result[0] == misc_models[0].get_HoRT(x=O_kwargs['x'], T=T) and "
                       "result[1] == misc_models[1].get_HoRT(x=CO_kwargs['x'], T=T)")], cross_check=False)

# ---- temperature arrays of any length (declared bounded: run natively on samples; never counted as proved) ----------------------
def with_models(cls):
    ms = ListOf([cov_on('B'), New(EMP + 'GasPressureAdj')])
    if cls == 'Nasa':
        return New(NASA + 'Nasa', name=Const('A'), T_low=Real(50., 400.), T_mid=Real(500., 1500.), T_high=Real(2000., 6000.),
                   a_low=RealVec(7, -50., 50.), a_high=RealVec(7, -50., 50.), phase=Const('g'), misc_models=ms)
    if cls == 'Nasa9':
        return New(NASA + 'Nasa9', name=Const('A'), phase=Const('g'), misc_models=ms,
                   nasas=ListOf([New(NASA + 'SingleNasa9', T_low=Const(100.), T_high=Const(1000.), a=RealVec(9, -50., 50.)),
                                 New(NASA + 'SingleNasa9', T_low=Const(1000.), T_high=Const(3000.), a=RealVec(9, -50., 50.))]))
    return New(SHO + 'Shomate', name=Const('A'), T_low=Real(100., 300.), T_high=Real(2000., 6000.), a=RealVec(8, -50., 50.),
               phase=Const('g'), misc_models=ms)


for cls, qual in (('Nasa', NASA + 'Nasa'), ('Nasa9', NASA + 'Nasa9'), ('Shomate', SHO + 'Shomate')):
    for q in ('HoRT', 'SoR', 'GoRT', 'CpoR'):
        contract(qual + '.get_' + q, P, label='with-models,temperature-array,large', shapes=dict(n=[4, 5, 8, 40, 300]), native_only=True,
                 args=lambda n, cls=cls: dict(self=with_models(cls), T=RealVec(n, 150., 2900.), P=PR, x=Real(0., 1.)),
                 requires=['all(T[i] > 0 for i in range(len(T)))', 'P > 0', 'x >= 0'] +
                          (['0 < self.T_low', 'self.T_low < self.T_mid', 'self.T_mid < self.T_high'] if cls == 'Nasa' else []),
                 ensures=[('each-entry-is-the-scalar-value-with-every-model-once',
                           'all(at(result, i) == self.get_%s(T=T[i], P=P, x=x) for i in range(len(T)))' % q)])
