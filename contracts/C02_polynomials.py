"""C02 - NASA-7 / NASA-9 / Shomate species are internally consistent
polynomials.  Contracts on the real evaluators and classes of
pmutt/empirical/nasa.py and shomate.py."""
from pvc.dsl import *

P = 'C02'
NASA = 'pmutt.empirical.nasa:'
SHO = 'pmutt.empirical.shomate:'
T = Real(50., 6000.)

# ---- (i) evaluator == spec polynomial -------------------------------------
for q in ('CpoR', 'HoRT', 'SoR'):
    contract(NASA + 'get_nasa_' + q, P,
             args=dict(a=RealVec(7, -50., 50.), T=T),
             requires=['T > 0'],
             ensures=['result == spec.nasa.nasa7_%s(a, T)' % q])
    contract(NASA + 'get_nasa9_' + q, P,
             args=dict(a=RealVec(9, -50., 50.), T=T),
             requires=['T > 0'],
             ensures=['result == spec.nasa.nasa9_%s(a, T)' % q])

# ---- (ii) thermodynamic relations of the property, over the real functions
lemma('nasa7:dHdT=Cp', P, forall=dict(a=RealVec(7, -50., 50.), T=T),
      given=['T > 0'],
      prove=['D(T * spec.nasa.nasa7_HoRT(a, T), T) == spec.nasa.nasa7_CpoR(a, T)'])
lemma('nasa7:TdSdT=Cp', P, forall=dict(a=RealVec(7, -50., 50.), T=T),
      given=['T > 0'],
      prove=['T * D(spec.nasa.nasa7_SoR(a, T), T) == spec.nasa.nasa7_CpoR(a, T)'])
lemma('nasa9:dHdT=Cp', P, forall=dict(a=RealVec(9, -50., 50.), T=T),
      given=['T > 0'],
      prove=['D(T * spec.nasa.nasa9_HoRT(a, T), T) == spec.nasa.nasa9_CpoR(a, T)'])
lemma('nasa9:TdSdT=Cp', P, forall=dict(a=RealVec(9, -50., 50.), T=T),
      given=['T > 0'],
      prove=['T * D(spec.nasa.nasa9_SoR(a, T), T) == spec.nasa.nasa9_CpoR(a, T)'])

# ---- (iii) segment selection and (iv) scalar / array dispatch -------------
def nasa7():
    return New(NASA + 'Nasa', name=Const('sp'), T_low=Real(50., 400.),
               T_mid=Real(500., 1500.), T_high=Real(2000., 6000.),
               a_low=RealVec(7, -50., 50.), a_high=RealVec(7, -50., 50.))


ORDERED = ['0 < self.T_low', 'self.T_low < self.T_mid',
           'self.T_mid < self.T_high']

contract(NASA + 'Nasa.get_a', P, args=dict(self=nasa7(), T=T),
         requires=ORDERED,
         ensures=[('lower-segment', 'implies(T < self.T_mid, result is self.a_low)'),
                  ('upper-segment-incl-break',
                   'implies(T >= self.T_mid, result is self.a_high)')],
         warns='T < self.T_low or T > self.T_high')

for q in ('CpoR', 'HoRT', 'SoR'):
    contract(NASA + 'Nasa.get_' + q, P, label='scalar',
             args=dict(self=nasa7(), T=T), requires=ORDERED + ['T > 0'],
             ensures=['result == spec.nasa.nasa7_%s(self.a_low if T < self.T_mid'
                      ' else self.a_high, T)' % q])
    contract(NASA + 'Nasa.get_' + q, P, label='array-is-map',
             shapes=dict(n=[1, 2, 3]),
             args=lambda n: dict(self=nasa7(), T=RealVec(n, 50., 6000.)),
             requires=ORDERED + ['all(T[i] > 0 for i in range(len(T)))'],
             ensures=['len(result) == len(T)',
                      'all(at(result, i) == self.get_%s(T=T[i]) for i in range(len(T)))' % q])
contract(NASA + 'Nasa.get_GoRT', P, label='scalar',
         args=dict(self=nasa7(), T=T), requires=ORDERED + ['T > 0'],
         ensures=[('G=H-TS', 'result == self.get_HoRT(T=T) - self.get_SoR(T=T)')])
contract(NASA + 'Nasa.get_GoRT', P, label='array-is-map',
         shapes=dict(n=[1, 2, 3]),
         args=lambda n: dict(self=nasa7(), T=RealVec(n, 50., 6000.)),
         requires=ORDERED + ['all(T[i] > 0 for i in range(len(T)))'],
         ensures=['all(at(result, i) == self.get_GoRT(T=T[i]) for i in range(len(T)))'])

# ---- NASA-9 ----------------------------------------------------------------
def seg(lo, hi):
    return New(NASA + 'SingleNasa9', T_low=Real(lo, lo + 50.),
               T_high=Real(hi - 50., hi), a=RealVec(9, -50., 50.))


def nasa9(k):
    bounds = [(100. + 900. * i, 100. + 900. * (i + 1)) for i in range(k)]
    return New(NASA + 'Nasa9', name=Const('sp'),
               nasas=ListOf([seg(lo, hi) for lo, hi in bounds]))


INSIDE = 'any(s.T_low <= T and T <= s.T_high for s in self.nasas)'

contract(NASA + 'Nasa9._get_nasa', P, shapes=dict(k=[1, 2, 3, 4]),
         args=lambda k: dict(self=nasa9(k), T=T),
         ensures=[('segment-contains-T',
                   'result.T_low <= T and T <= result.T_high'),
                  ('segment-is-member',
                   'any(result is s for s in self.nasas)')],
         raises={'ValueError': 'not (%s)' % INSIDE})

for q in ('CpoR', 'HoRT', 'SoR'):
    contract(NASA + 'SingleNasa9.get_' + q, P,
             args=dict(self=seg(100., 1000.), T=T), requires=['T > 0'],
             ensures=['result == spec.nasa.nasa9_%s(self.a, T)' % q])
    contract(NASA + 'Nasa9.get_' + q, P, label='scalar',
             shapes=dict(k=[1, 2, 3]),
             args=lambda k: dict(self=nasa9(k), T=T),
             requires=['T > 0'],
             ensures=['result == spec.nasa.nasa9_%s(self._get_nasa(T).a, T)' % q],
             raises={'ValueError': 'not (%s)' % INSIDE})
    contract(NASA + 'Nasa9.get_' + q, P, label='array-is-map',
             shapes=dict(k=[1, 2], n=[1, 2, 3]),
             args=lambda k, n: dict(self=nasa9(k), T=RealVec(n, 100., 1900.)),
             requires=['all(T[i] > 0 for i in range(len(T)))',
                       'all(any(s.T_low <= T[i] and T[i] <= s.T_high for s in self.nasas) for i in range(len(T)))'],
             ensures=['all(at(result, i) == self.get_%s(T=T[i]) for i in range(len(T)))' % q])
contract(NASA + 'Nasa9.get_GoRT', P, label='scalar', shapes=dict(k=[1, 2]),
         args=lambda k: dict(self=nasa9(k), T=T), requires=['T > 0', INSIDE],
         ensures=[('G=H-TS', 'result == self.get_HoRT(T=T) - self.get_SoR(T=T)')])

# ---- Shomate -----------------------------------------------------------------
from pvc import live
R_UNITS = sorted(live.func_literal('pmutt.constants', 'R', 'R_dict'))
QUICK_UNITS = ['J/mol/K', 'kcal/mol/K', 'eV/K']
Tarr = lambda n: RealVec(n, 200., 3000.)
POS = 'all(T[i] > 0 for i in range(len(T)))'
for q in ('CpoR', 'HoRT', 'SoR'):
    contract(SHO + 'get_shomate_' + q, P,
             shapes=dict(units=QUICK_UNITS, n=[1, 2]),
             shapes_thorough=dict(units=R_UNITS, n=[1, 2, 3]),
             args=lambda units, n: dict(a=RealVec(8, -50., 50.), T=Tarr(n),
                                        units=Const(units)),
             requires=[POS],
             ensures=['len(result) == len(T)',
                      'all(result[i] == spec.nasa.shomate_%s(a, T[i] / 1000) / const.R(units)'
                      ' for i in range(len(T)))' % q])
contract(SHO + 'get_shomate_GoRT', P, shapes=dict(units=QUICK_UNITS, n=[1, 2]),
         shapes_thorough=dict(units=R_UNITS, n=[1, 2, 3]),
         args=lambda units, n: dict(a=RealVec(8, -50., 50.), T=Tarr(n),
                                    units=Const(units)),
         requires=[POS],
         ensures=[('G=H-TS', 'all(result[i] == (spec.nasa.shomate_HoRT(a, T[i] / 1000)'
                   ' - spec.nasa.shomate_SoR(a, T[i] / 1000)) / const.R(units)'
                   ' for i in range(len(T)))')])
lemma('shomate:dHdT=Cp', P, forall=dict(a=RealVec(8, -50., 50.), T=T),
      given=['T > 0'],
      prove=['D(T * spec.nasa.shomate_HoRT(a, T / 1000), T) == spec.nasa.shomate_CpoR(a, T / 1000)'])
lemma('shomate:TdSdT=Cp', P, forall=dict(a=RealVec(8, -50., 50.), T=T),
      given=['T > 0'],
      prove=['T * D(spec.nasa.shomate_SoR(a, T / 1000), T) == spec.nasa.shomate_CpoR(a, T / 1000)'])


def shomate(units):
    return New(SHO + 'Shomate', name=Const('sp'), T_low=Real(100., 300.),
               T_high=Real(2000., 6000.), a=RealVec(8, -50., 50.),
               units=Const(units))


for q in ('CpoR', 'HoRT', 'SoR'):
    contract(SHO + 'Shomate.get_' + q, P, label='scalar',
             shapes=dict(units=QUICK_UNITS[:2]), shapes_thorough=dict(units=R_UNITS),
             args=lambda units: dict(self=shomate(units), T=T),
             requires=['T > 0'],
             ensures=['result == spec.nasa.shomate_%s(self.a, T / 1000) / const.R(self.units)' % q],
             warns='T < self.T_low or T > self.T_high')
    contract(SHO + 'Shomate.get_' + q, P, label='array-is-map',
             shapes=dict(units=QUICK_UNITS[:1], n=[1, 2, 3]),
             args=lambda units, n: dict(self=shomate(units), T=Tarr(n)),
             requires=[POS],
             ensures=['all(at(result, i) == self.get_%s(T=T[i]) for i in range(len(T)))' % q])
contract(SHO + 'Shomate.get_GoRT', P, label='scalar',
         shapes=dict(units=QUICK_UNITS[:2]),
         args=lambda units: dict(self=shomate(units), T=T), requires=['T > 0'],
         ensures=[('G=H-TS', 'result == self.get_HoRT(T=T) - self.get_SoR(T=T)')])
contract(SHO + 'Shomate.get_GoRT', P, label='array-is-map',
         shapes=dict(units=QUICK_UNITS[:1], n=[1, 2, 3]),
         args=lambda units, n: dict(self=shomate(units), T=Tarr(n)),
         requires=[POS],
         ensures=['all(at(result, i) == self.get_GoRT(T=T[i]) for i in range(len(T)))'])

# ---- a species carrying a coverage effect (an adsorbate): the relations of the property hold for the whole species ----------
def adsorbate(cls, amax=50.):
    cov = New('pmutt.mixture.cov:PiecewiseCovEffect', name_i=Const('A'), name_j=Const('B'),
              intervals=ListOf([Const(0.), Real(0.2, 0.6)]), slopes=RealList(2, -30., 30.))
    if cls == 'Nasa':
        return New(NASA + 'Nasa', name=Const('A'), T_low=Real(50., 400.), T_mid=Real(500., 1500.), T_high=Real(2000., 6000.),
                   a_low=RealVec(7, -amax, amax), a_high=RealVec(7, -amax, amax), phase=Const('s'), misc_models=ListOf([cov]))
    return New(SHO + 'Shomate', name=Const('A'), T_low=Real(50., 400.), T_high=Real(2000., 6000.), a=RealVec(8, -amax, amax),
               phase=Const('s'), misc_models=ListOf([cov]))


for cls, req in (('Nasa', ORDERED + ['T > 0', 'T != self.T_mid']), ('Shomate', ['0 < self.T_low', 'self.T_low < self.T_high', 'T > 0'])):
    lemma('adsorbate-with-coverage-effect[%s]:relations' % cls, P,
          forall=dict(self=adsorbate(cls), T=Real(100., 3000.), x=Real(0., 1.)), given=req + ['x >= 0'],
          prove=[('dH/dT=Cp', 'D(T * self.get_HoRT(T=T, x=x), T) == self.get_CpoR(T=T, x=x)'),
                 ('G=H-TS', 'self.get_GoRT(T=T, x=x) == self.get_HoRT(T=T, x=x) - self.get_SoR(T=T, x=x)'),
                 ])
    # the coverage energy itself does not depend on the temperature (species with a small polynomial part, so that the
    # difference of two species enthalpies is well conditioned in floating point too)
    lemma('adsorbate-with-coverage-effect[%s]:coverage-energy' % cls, P,
          forall=dict(self=adsorbate(cls, 1e-9), T=Real(100., 1400.), x=Real(0., 1.)), given=req + ['x >= 0'],
          prove=[('coverage-energy-is-the-same-at-every-temperature',
                  'T * (self.get_HoRT(T=T, x=x) - self.get_HoRT(T=T, x=0.)) == 2 * T * (self.get_HoRT(T=2 * T, x=x) - self.get_HoRT(T=2 * T, x=0.))')])

# ---- larger shapes (declared bounded: the same clauses, run natively on samples; never counted as proved) -----------------------
LADDER = [4, 5, 8, 13, 40, 300]


def nasa9c(k):
    # contiguous intervals with fixed bounds (every temperature of the range lies in an interval), listed in a scrambled order
    bounds = [(100. + 900. * i, 100. + 900. * (i + 1)) for i in range(k)]
    order = [(2 * i + 1) % k if k % 2 else (i * (k - 1) + 1) % k for i in range(k)] if k > 2 else list(range(k))
    if sorted(order) != list(range(k)):
        order = list(range(k))[::-1]
    return New(NASA + 'Nasa9', name=Const('sp'),
               nasas=ListOf([New(NASA + 'SingleNasa9', T_low=Const(bounds[j][0]), T_high=Const(bounds[j][1]), a=RealVec(9, -50., 50.))
                             for j in order]))


for q in ('CpoR', 'HoRT', 'SoR', 'GoRT'):
    contract(NASA + 'Nasa.get_' + q, P, label='array-is-map,large', shapes=dict(n=LADDER), native_only=True,
             args=lambda n: dict(self=nasa7(), T=RealVec(n, 50., 6000.)),
             requires=ORDERED + ['all(T[i] > 0 for i in range(len(T)))'],
             ensures=[('one-entry-per-temperature', 'len(result) == len(T)'),
                      ('each-entry-is-the-scalar-value', 'all(at(result, i) == self.get_%s(T=T[i]) for i in range(len(T)))' % q)])
    contract(NASA + 'Nasa9.get_' + q, P, label='array-is-map,large', shapes=dict(k=[3, 4, 6], n=[1, 4, 13, 300]), native_only=True,
             args=lambda k, n: dict(self=nasa9c(k), T=RealVec(n, 100., 100. + 900. * k)),
             requires=['all(T[i] > 0 for i in range(len(T)))',
                       'all(any(s.T_low <= T[i] and T[i] <= s.T_high for s in self.nasas) for i in range(len(T)))'],
             ensures=[('each-entry-is-its-own-segment',
                       'all(at(result, i) == (spec.nasa.nasa9_HoRT(self._get_nasa(T[i]).a, T[i]) - spec.nasa.nasa9_SoR(self._get_nasa(T[i]).a, T[i])'
                       ' if %r == "GoRT" else getattr(spec.nasa, "nasa9_%s")(self._get_nasa(T[i]).a, T[i])) for i in range(len(T)))' % (q, q)),
                      ('segment-contains-T', 'all(self._get_nasa(T[i]).T_low <= T[i] and T[i] <= self._get_nasa(T[i]).T_high for i in range(len(T)))')])
    contract(SHO + 'Shomate.get_' + q, P, label='array-is-map,large', shapes=dict(n=LADDER), native_only=True,
             args=lambda n: dict(self=shomate('J/mol/K'), T=Tarr(n)), requires=[POS],
             ensures=[('each-entry-is-the-scalar-value', 'all(at(result, i) == self.get_%s(T=T[i]) for i in range(len(T)))' % q)])
for q in ('CpoR', 'HoRT', 'GoRT'):
    contract(NASA + 'Nasa.get_' + q, P, label='adsorbate,array-is-map,large', shapes=dict(n=LADDER), native_only=True,
             args=lambda n: dict(self=adsorbate('Nasa'), T=RealVec(n, 100., 3000.), x=Real(0., 1.)),
             requires=ORDERED + ['all(T[i] > 0 for i in range(len(T)))', 'x >= 0'],
             ensures=[('each-entry-is-the-scalar-value', 'all(at(result, i) == self.get_%s(T=T[i], x=x) for i in range(len(T)))' % q)])
    contract(SHO + 'Shomate.get_' + q, P, label='adsorbate,array-is-map,large', shapes=dict(n=LADDER), native_only=True,
             args=lambda n: dict(self=adsorbate('Shomate'), T=RealVec(n, 100., 3000.), x=Real(0., 1.)),
             requires=['all(T[i] > 0 for i in range(len(T)))', 'x >= 0'],
             ensures=[('each-entry-is-the-scalar-value', 'all(at(result, i) == self.get_%s(T=T[i], x=x) for i in range(len(T)))' % q)])
