"""C02 - NASA-7 / NASA-9 / Shomate species are internally consistent
polynomials.  Contracts on the real evaluators and classes of
pmutt/empirical/nasa.py and shomate.py."""
from pvc.dsl import *

P = 'C02'
NASA = 'pmutt.empirical.nasa:'
SHO = 'pmutt.empirical.shomate:'
T = Real(50., 6000.)

# ---- (i) evaluator == spec polynomial -------------------------------------
for q in ('CpoR', 'HoRT', 'SoR'):
    contract(NASA + 'get_nasa_' + q, P,
             args=dict(a=RealVec(7, -50., 50.), T=T),
             requires=['T > 0'],
             ensures=['result == spec.nasa.nasa7_%s(a, T)' % q])
    contract(NASA + 'get_nasa9_' + q, P,
             args=dict(a=RealVec(9, -50., 50.), T=T),
             requires=['T > 0'],
             ensures=['result == spec.nasa.nasa9_%s(a, T)' % q])

# ---- (ii) thermodynamic relations of the property, over the real functions
lemma('nasa7:dHdT=Cp', P, forall=dict(a=RealVec(7, -50., 50.), T=T),
      given=['T > 0'],
      prove=['D(T * spec.nasa.nasa7_HoRT(a, T), T) == spec.nasa.nasa7_CpoR(a, T)'])
lemma('nasa7:TdSdT=Cp', P, forall=dict(a=RealVec(7, -50., 50.), T=T),
      given=['T > 0'],
      prove=['T * D(spec.nasa.nasa7_SoR(a, T), T) == spec.nasa.nasa7_CpoR(a, T)'])
lemma('nasa9:dHdT=Cp', P, forall=dict(a=RealVec(9, -50., 50.), T=T),
      given=['T > 0'],
      prove=['D(T * spec.nasa.nasa9_HoRT(a, T), T) == spec.nasa.nasa9_CpoR(a, T)'])
lemma('nasa9:TdSdT=Cp', P, forall=dict(a=RealVec(9, -50., 50.), T=T),
      given=['T > 0'],
      prove=['T * D(spec.nasa.nasa9_SoR(a, T), T) == spec.nasa.nasa9_CpoR(a, T)'])
