"""C04 - values with units equal the dimensionless values times R (and T) in
that unit, computed under the same conditions and options."""
from pvc.dsl import *
from pvc import live

P = 'C04'
NASA = 'pmutt.empirical.nasa:'
SHO = 'pmutt.empirical.shomate:'
EMP = 'pmutt.empirical:'
COV = 'pmutt.mixture.cov:PiecewiseCovEffect'
R_UNITS = sorted(live.func_literal('pmutt.constants', 'R', 'R_dict'))
type_dict = live.module_literals('pmutt.constants', 'type_dict')[-1]
MASS_UNITS = [u for u, t in type_dict.items() if t == 'mass']
T = Real(100., 3000.)
PR = Real(1e-3, 1e2, log=True)
X = Real(0., 1.)
ELEMENTS = {'H': 2, 'O': 1}


def mass_variants(u):
    """per-mass forms of a molar unit: J/mol/K -> J/g/K ..."""
    if '/mol' not in u:
        return []
    return [u.replace('/mol', '/' + m) for m in MASS_UNITS]


ALL_S_UNITS = R_UNITS + [v for u in R_UNITS for v in mass_variants(u)]
Q_S_UNITS = ['J/mol/K', 'kcal/mol/K', 'eV/K', 'J/g/K', 'cal/kg/K']


def r_adj_expr(units, elements='self.elements'):
    """R in `units`, per the property statement: the gas constant in those
    units; per-mass units additionally divide by the molar mass"""
    for m in MASS_UNITS:
        tag = '/' + m + '/'
        if tag in units + '/':
            mol = units.replace('/' + m, '/mol')
            return ("(const.R(%r) / const.convert_unit(num=pm.get_molecular_weight(%s), initial='g', final=%r))"
                    % (mol, elements, m))
    return 'const.R(%r)' % units


# ---- the gas constant with the optional mol -> mass adjustment -----------------
for u in ALL_S_UNITS:
    contract('pmutt:_get_R_adj', P, label=u,
             args=dict(units=Const(u), elements=Const(ELEMENTS)),
             ensures=['result == ' + r_adj_expr(u, 'elements')], cross_check=(u in Q_S_UNITS))
    exp_mass = None
    for m in MASS_UNITS:
        if ('/' + m + '/') in (u + '/'):
            exp_mass = m
    contract('pmutt:_get_mass_unit', P, label=u, args=dict(units=Const(u)),
             ensures=['result == %r' % exp_mass], cross_check=False)
contract('pmutt:_get_R_adj', P, label='per-mass-without-composition',
         args=dict(units=Const('J/g/K'), elements=Const(None)),
         raises={'AttributeError': 'True'}, cross_check=False)
lemma('unit-ratio', P, forall=dict(x=Real()),
      prove=[('%s-vs-J/mol/K' % u, "pm._get_R_adj(units=%r) * const.R('J/mol/K') == "
              "pm._get_R_adj(units='J/mol/K') * const.R(%r)" % (u, u)) for u in R_UNITS])


# ---- empirical species: Cp, H, S, G ------------------------------------------------
def cov():
    return New(COV, name_i=Const('A'), name_j=Const('B'),
               intervals=ListOf([Const(0.), Real(0.2, 0.6)]), slopes=RealList(2, -30., 30.))


def nasa7(extra_model=None):
    ms = [cov(), New(EMP + 'GasPressureAdj')]
    if extra_model is not None:
        ms.append(extra_model)
    return New(NASA + 'Nasa', name=Const('A'), T_low=Real(50., 400.), T_mid=Real(500., 1500.),
               T_high=Real(2000., 6000.), a_low=RealVec(7, -50., 50.), a_high=RealVec(7, -50., 50.),
               phase=Const('G'), elements=Const(ELEMENTS), misc_models=ListOf(ms))


def nasa9(extra_model=None):
    ms = [cov(), New(EMP + 'GasPressureAdj')]
    if extra_model is not None:
        ms.append(extra_model)
    seg = New(NASA + 'SingleNasa9', T_low=Real(100., 150.), T_high=Real(2900., 3000.), a=RealVec(9, -50., 50.))
    return New(NASA + 'Nasa9', name=Const('A'), nasas=ListOf([seg]), phase=Const('G'),
               elements=Const(ELEMENTS), misc_models=ListOf(ms))


def shomate(extra_model=None):
    ms = [cov(), New(EMP + 'GasPressureAdj')]
    if extra_model is not None:
        ms.append(extra_model)
    return New(SHO + 'Shomate', name=Const('A'), T_low=Real(100., 300.), T_high=Real(2000., 6000.),
               a=RealVec(8, -50., 50.), units=Const('J/mol/K'), phase=Const('G'),
               elements=Const(ELEMENTS), misc_models=ListOf(ms))


def bare_model():
    """an attached object that has none of the getters (exercises the
    raise_error / raise_warning options)"""
    return Fields('pmutt:_pmuttBase')


SPECIES = {'Nasa': (NASA + 'Nasa', nasa7, ['0 < self.T_low', 'self.T_low < self.T_mid', 'self.T_mid < self.T_high']),
           'Nasa9': (NASA + 'Nasa9', nasa9, ['self.nasas[0].T_low <= T', 'T <= self.nasas[0].T_high']),
           'Shomate': (SHO + 'Shomate', shomate, [])}
COND = ['T > 0', 'P > 0', 'x >= 0']
for cname, (qual, mk_, req) in SPECIES.items():
    for units in Q_S_UNITS:
        hu = units[:-2]           # energy unit: J/mol/K -> J/mol
        R = r_adj_expr(units)
        for se in (None, True):
            lab = '[%s,S_elements=%s]' % (units, se)
            contract(qual + '.get_S', P, label=lab,
                     args=dict(self=mk_(), T=T, units=Const(units), S_elements=Const(se), P=PR, x=X),
                     requires=COND + req,
                     ensures=[('S=SoR*R', 'result == self.get_SoR(T=T, S_elements=S_elements, P=P, x=x) * %s' % R)])
            contract(qual + '.get_G', P, label=lab.replace(units, hu),
                     args=dict(self=mk_(), T=T, units=Const(hu), S_elements=Const(se), P=PR, x=X),
                     requires=COND + req,
                     ensures=[('G=GoRT*R*T', 'result == self.get_GoRT(T=T, S_elements=S_elements, P=P, x=x) * T * %s' % R)])
        contract(qual + '.get_Cp', P, label='[%s]' % units,
                 args=dict(self=mk_(), T=T, units=Const(units), P=PR, x=X), requires=COND + req,
                 ensures=[('Cp=CpoR*R', 'result == self.get_CpoR(T=T, P=P, x=x) * %s' % R)])
        contract(qual + '.get_H', P, label='[%s]' % hu,
                 args=dict(self=mk_(), T=T, units=Const(hu), P=PR, x=X), requires=COND + req,
                 ensures=[('H=HoRT*R*T', 'result == self.get_HoRT(T=T, P=P, x=x) * T * %s' % R)])
    # options act identically on both forms: an attached object without the
    # getter, errors suppressed -> both forms must use the default contribution
    for g, dimless, has_T in (('Cp', 'CpoR', False), ('H', 'HoRT', True), ('S', 'SoR', False), ('G', 'GoRT', True)):
        units = 'J/mol' if has_T else 'J/mol/K'
        R = "const.R('J/mol/K')" + (' * T' if has_T else '')
        contract(qual + '.get_' + g, P, label='raise_error=False-forwarded',
                 args=dict(self=mk_(bare_model()), T=T, units=Const(units), raise_error=Const(False),
                           raise_warning=Const(False), P=PR, x=X),
                 requires=COND + req,
                 ensures=[('same-options', 'result == self.get_%s(T=T, raise_error=False, raise_warning=False, P=P, x=x) * %s'
                           % (dimless, R))],
                 cross_check=False)

# ---- mode objects (generic wrappers of _ModelBase) ---------------------------------
TR = 'pmutt.statmech.trans:FreeTrans'
VB = 'pmutt.statmech.vib:HarmonicVib'
EL = 'pmutt.statmech.elec:GroundStateElec'


def ft3():
    return New(TR, n_degrees=Const(3), molecular_weight=Real(1., 500.))


def hv():
    return Fields(VB, _valid_vib_temperatures=RealSeq(15., 6500., positive=True, log=True))


def gse():
    return New(EL, potentialenergy=Real(-30., 5.), spin=Real(0., 3.))


MODES = {'FreeTrans': (ft3, ['self.molecular_weight > 0', 'P > 0'], dict(P=PR),
                       {'CvoR': '', 'CpoR': '', 'UoRT': '', 'HoRT': '', 'SoR': 'T=T, P=P', 'FoRT': 'T=T, P=P', 'GoRT': 'T=T, P=P'}),
         'HarmonicVib': (hv, [], {}, {q: 'T=T' for q in ('CvoR', 'CpoR', 'UoRT', 'HoRT', 'SoR', 'FoRT', 'GoRT')}),
         'GroundStateElec': (gse, ['self.spin >= 0'], {},
                             {'CvoR': '', 'CpoR': '', 'UoRT': 'T=T', 'HoRT': 'T=T', 'SoR': '', 'FoRT': 'T=T', 'GoRT': 'T=T'})}
MUNITS = ['J/mol/K', 'kcal/mol/K', 'eV/K']
for mname, (mk_, req, extra, margs) in MODES.items():
    for units in MUNITS:
        hu = units[:-2]
        for g, dimless, has_T in (('Cv', 'CvoR', False), ('Cp', 'CpoR', False), ('S', 'SoR', False),
                                  ('U', 'UoRT', True), ('H', 'HoRT', True), ('F', 'FoRT', True), ('G', 'GoRT', True)):
            a = dict(self=mk_(), units=Const(hu if has_T else units), T=T)
            a.update(extra)
            contract('pmutt:_ModelBase.get_' + g, P, label='%s[%s]' % (mname, hu if has_T else units),
                     args=a, requires=['T > 0'] + req,
                     ensures=[('%s=%s*R%s' % (g, dimless, '*T' if has_T else ''),
                               'result == self.get_%s(%s) * const.R(%r)%s'
                               % (dimless, margs[dimless], units, ' * T' if has_T else ''))])

# ---- statistical-mechanical species ---------------------------------------------------
SM = 'pmutt.statmech:StatMech'


def species():
    return New(SM, name=Const('A'), trans_model=ft3(), vib_model=hv(),
               rot_model=New('pmutt.statmech.rot:RigidRotor', symmetrynumber=Real(1., 24.),
                             rot_temperatures=RealList(3, 0.01, 100.), geometry=Const('nonlinear')),
               elec_model=gse(), nucl_model=New('pmutt.statmech.nucl:EmptyNucl'),
               elements=Const(ELEMENTS))


SREQ = ['T > 0', 'P > 0', 'self.trans_model.molecular_weight > 0', 'self.rot_model.symmetrynumber > 0',
        'all(t > 0 for t in self.rot_model.rot_temperatures)', 'self.elec_model.spin >= 0']
for units in Q_S_UNITS:
    hu = units[:-2]
    R = r_adj_expr(units)
    for g, dimless, has_T, takes_se in (('Cv', 'CvoR', False, False), ('Cp', 'CpoR', False, False),
                                        ('S', 'SoR', False, True), ('U', 'UoRT', True, False),
                                        ('H', 'HoRT', True, False), ('F', 'FoRT', True, True),
                                        ('G', 'GoRT', True, True)):
        for se in ((None, True) if takes_se else (None,)):
            a = dict(self=species(), units=Const(hu if has_T else units), T=T, P=PR)
            kw = 'T=T, P=P'
            if takes_se:
                a['S_elements'] = Const(se)
                kw += ', S_elements=S_elements'
            contract(SM + '.get_' + g, P, label='[%s%s]' % (hu if has_T else units, ',S_elements' if se else ''),
                     args=a, requires=SREQ,
                     ensures=[('%s=%s*R%s' % (g, dimless, '*T' if has_T else ''),
                               'result == self.get_%s(%s) * %s%s' % (dimless, kw, R, ' * T' if has_T else ''))])
    for zpe in (False, True):
        contract(SM + '.get_E', P, label='[%s,include_ZPE=%s]' % (hu, zpe),
                 args=dict(self=species(), units=Const(hu), T=T, include_ZPE=Const(zpe)), requires=SREQ[:1] + SREQ[2:],
                 ensures=[('E=EoRT*R*T', 'result == self.get_EoRT(T=T, include_ZPE=include_ZPE) * %s * T' % R)])
# verbose form: every per-mode entry scaled alike
contract(SM + '.get_H', P, label='[J/mol,verbose]',
         args=dict(self=species(), units=Const('J/mol'), T=T, P=PR, verbose=Const(True)), requires=SREQ,
         ensures=["all(result[k] == self.get_HoRT(T=T, P=P, verbose=True)[k] * const.R('J/mol/K') * T for k in range(7))"],
         cross_check=False)

# ---- reactions: state / delta / activation forms -----------------------------------------
RX = 'pmutt.reaction:Reaction'
GETTERS = ['get_q', 'get_CvoR', 'get_CpoR', 'get_UoRT', 'get_HoRT', 'get_SoR', 'get_FoRT', 'get_GoRT', 'get_EoRT']


def sp(name):
    return Stub(name, GETTERS, phase='G', elements={'H': 2})


def rxn():
    nu = lambda: Real(0.25, 4.)
    return New(RX, reactants=ListOf([sp('R0'), sp('R1')]), reactants_stoich=ListOf([nu(), nu()]),
               products=ListOf([sp('P0')]), products_stoich=ListOf([nu()]),
               transition_state=ListOf([sp('TS0')]), transition_state_stoich=ListOf([nu()]))


R0B = DictOf({'P': Real(0.1, 10.)})
RUNITS = ['J/mol/K', 'kcal/mol/K', 'eV/K']
for units in RUNITS:
    hu = units[:-2]
    for g, dimless, has_T in (('Cv', 'CvoR', False), ('Cp', 'CpoR', False), ('S', 'SoR', False),
                              ('U', 'UoRT', True), ('H', 'HoRT', True), ('F', 'FoRT', True),
                              ('G', 'GoRT', True), ('E', 'EoRT', True)):
        u_arg = hu if has_T else units
        Rx = 'const.R(%r)%s' % (units, ' * T' if has_T else '')
        for state in ('reactants', 'transition state'):
            contract(RX + '.get_%s_state' % g, P, label='[%s,%s]' % (u_arg, state.replace(' ', '_')),
                     args=dict(self=rxn(), state=Const(state), units=Const(u_arg), T=T, P=PR, R0_kwargs=R0B),
                     requires=['T > 0'],
                     ensures=[('%s=%s*R%s' % (g, dimless, '*T' if has_T else ''),
                               'result == self.get_%s_state(state=state, T=T, P=P, R0_kwargs=R0_kwargs) * %s' % (dimless, Rx))],
                     cross_check=False)
        for rev in (False, True):
            for act in (False, True):
                contract(RX + '.get_delta_%s' % g, P, label='[%s,rev=%s,act=%s]' % (u_arg, rev, act),
                         args=dict(self=rxn(), units=Const(u_arg), T=T, rev=Const(rev), act=Const(act), P=PR, R0_kwargs=R0B),
                         requires=['T > 0'],
                         ensures=[('same-direction-and-conditions',
                                   'result == self.get_delta_%s(rev=rev, act=act, T=T, P=P, R0_kwargs=R0_kwargs) * %s' % (dimless, Rx))],
                         cross_check=False)
            if g != 'E':
                contract(RX + '.get_%s_act' % g, P, label='[%s,rev=%s]' % (u_arg, rev),
                         args=dict(self=rxn(), units=Const(u_arg), T=T, rev=Const(rev), P=PR, R0_kwargs=R0B),
                         requires=['T > 0'],
                         ensures=[('same-direction-and-conditions',
                                   'result == self.get_%s_act(rev=rev, T=T, P=P, R0_kwargs=R0_kwargs) * %s' % (dimless, Rx))],
                         cross_check=False)
            else:
                contract(RX + '.get_E_act', P, label='[%s,rev=%s]' % (u_arg, rev),
                         args=dict(self=rxn(), units=Const(u_arg), T=T, rev=Const(rev), del_m=Real(0., 2.), P=PR),
                         requires=['T > 0'],
                         ensures=[('same-direction-and-conditions',
                                   'result == self.get_EoRT_act(rev=rev, del_m=del_m, T=T, P=P) * %s' % Rx)],
                         cross_check=False)

# ---- per-mass units of a second species with the same elements in other proportions (any earlier call must not matter) -----
def species_of(elements):
    return New(SM, name=Const('A'), trans_model=ft3(), elec_model=gse(), nucl_model=New('pmutt.statmech.nucl:EmptyNucl'),
               elements=Const(elements))


for first, second, label in (({'H': 2, 'O': 1}, {'H': 2, 'O': 2}, 'H2O-then-H2O2'), ({'C': 1, 'H': 4}, {'C': 2, 'H': 6}, 'CH4-then-C2H6')):
    M2 = ' + '.join("%d * const.atomic_weight[%r]" % (n, e) for e, n in second.items())
    lemma('per-mass-after-another-species[%s]' % label, P, forall=dict(a=species_of(first), b=species_of(second), T=T, P=PR),
          given=['T > 0', 'P > 0', 'a.trans_model.molecular_weight > 0', 'b.trans_model.molecular_weight > 0',
                 'a.elec_model.spin >= 0', 'b.elec_model.spin >= 0'],
          prove=[('molar-over-per-gram-is-its-own-molar-mass',
                  "(a.get_H(units='J/g', T=T, P=P), b.get_H(units='J/g', T=T, P=P))[1] * (%s) == b.get_H(units='J/mol', T=T, P=P)" % M2),
                 ('same-for-entropy',
                  "(a.get_S(units='J/g/K', T=T, P=P), b.get_S(units='J/g/K', T=T, P=P))[1] * (%s) == b.get_S(units='J/mol/K', T=T, P=P)" % M2)])

# ---- reaction classes that override the activation quantities: dimensional = dimensionless x R x T ---------------------------
for cls in ('pmutt.reaction:ChemkinReaction', 'pmutt.omkm.reaction:SurfaceReaction'):
    for ts in (True, False):
        def crxn(cls=cls, ts=ts):
            nu = lambda: Real(0.25, 4.)
            kw = dict(reactants=ListOf([sp('R0'), sp('R1')]), reactants_stoich=ListOf([nu(), nu()]),
                      products=ListOf([sp('P0')]), products_stoich=ListOf([nu()]))
            if ts:
                kw.update(transition_state=ListOf([sp('TS0')]), transition_state_stoich=ListOf([nu()]))
            return New(cls, **kw)
        for units in ('J/mol/K', 'kcal/mol/K'):
            for g, dimless in (('H', 'HoRT'), ('G', 'GoRT')):
                for rev in (False, True):
                    contract(cls + '.get_%s_act' % g, P, label='[%s,TS=%s,rev=%s]' % (units[:-2], ts, rev),
                             args=dict(self=crxn(), units=Const(units[:-2]), T=T, rev=Const(rev), P=PR), requires=['T > 0'],
                             ensures=[('same-direction-and-conditions',
                                       'result == self.get_%s_act(rev=rev, T=T, P=P) * const.R(%r) * T' % (dimless, units))],
                             cross_check=False)

# ---- the shared helpers this property's code goes through (keyword forwarding, compositions, per-mass R) ------------------
from contracts import helpers
helpers.install(P, 'kwargs', 'formula', 'per_mass')

# ---- the molecularity option left to the code (del_m=None), both directions ------------------------------------------------------
for rev in (False, True):
    contract(RX + '.get_E_act', P, label='[kJ/mol,rev=%s,del_m=None]' % rev,
             args=dict(self=rxn(), units=Const('kJ/mol'), T=T, rev=Const(rev), del_m=Const(None), P=PR), requires=['T > 0'],
             ensures=[('same-direction-and-conditions',
                       "result == self.get_EoRT_act(rev=rev, del_m=None, T=T, P=P) * const.R('kJ/mol/K') * T")],
             cross_check=False)

# ---- temperature arrays of any length and order (declared bounded: run natively on samples; never counted as proved) ----------
LADDER = [4, 5, 8, 13, 40, 300]


def plain(cls):
    if cls == 'Nasa':
        return New(NASA + 'Nasa', name=Const('A'), T_low=Real(50., 400.), T_mid=Real(500., 1500.), T_high=Real(2000., 6000.),
                   a_low=RealVec(7, -50., 50.), a_high=RealVec(7, -50., 50.), phase=Const('S'), elements=Const(ELEMENTS))
    return New(SHO + 'Shomate', name=Const('A'), T_low=Real(100., 300.), T_high=Real(2000., 6000.), a=RealVec(8, -50., 50.),
               units=Const('J/mol/K'), phase=Const('S'), elements=Const(ELEMENTS))


for cls, qual in (('Nasa', NASA + 'Nasa'), ('Shomate', SHO + 'Shomate')):
    for g, dimless, has_T in (('H', 'HoRT', True), ('G', 'GoRT', True), ('S', 'SoR', False), ('Cp', 'CpoR', False)):
        for units in ('kJ/mol', 'J/g'):
            u = units + ('' if has_T else '/K')
            contract(qual + '.get_' + g, P, label='array[%s],large' % u, shapes=dict(n=LADDER), native_only=True,
                     args=lambda n, cls=cls, u=u: dict(self=plain(cls), units=Const(u), T=RealVec(n, 100., 3000.)),
                     requires=['all(T[i] > 0 for i in range(len(T)))'] + (['0 < self.T_low', 'self.T_low < self.T_mid', 'self.T_mid < self.T_high'] if cls == 'Nasa' else []),
                     ensures=[('each-entry-is-the-scalar-value-in-these-units',
                               'all(at(result, i) == self.get_%s(T=T[i]) * %s%s for i in range(len(T)))'
                               % (dimless, r_adj_expr(u + ('/K' if has_T else '')), ' * T[i]' if has_T else ''))])
