"""C08 - reaction quantities obey Hess's law, reversal symmetry and detailed
balance (pmutt/reaction/__init__.py, keyword routing in pmutt/__init__.py).

Species are *abstract*: objects whose getters are unknown pure functions of
the keyword arguments they receive (any mix of model classes), with symbolic
real stoichiometry."""
import itertools
from pvc.dsl import *

P = 'C08'
RX = 'pmutt.reaction:'
GETTERS = ['get_q', 'get_CvoR', 'get_CpoR', 'get_UoRT', 'get_HoRT', 'get_SoR', 'get_FoRT', 'get_GoRT', 'get_EoRT']
T = Real(100., 3000.)
PR = Real(1e-3, 1e2, log=True)
NU = lambda: Real(0.25, 4.)


def sp(name):
    return Stub(name, GETTERS, phase='G', elements={'H': 2})


def reaction(cls, nr, npd, nts):
    names_r = ['R%d' % i for i in range(nr)]
    names_p = ['P%d' % i for i in range(npd)]
    names_t = ['TS%d' % i for i in range(nts)]
    kw = dict(reactants=ListOf([sp(n) for n in names_r]), reactants_stoich=ListOf([NU() for _ in names_r]),
              products=ListOf([sp(n) for n in names_p]), products_stoich=ListOf([NU() for _ in names_p]))
    if nts:
        kw['transition_state'] = ListOf([sp(n) for n in names_t])
        kw['transition_state_stoich'] = ListOf([NU() for _ in names_t])
    return New(cls, **kw)


SHAPES_Q = [(1, 1, 0), (2, 1, 1), (2, 2, 1)]
SHAPES_T = SHAPES_Q + [(1, 2, 2), (3, 2, 1), (4, 4, 2), (3, 3, 0)]
STOICH_POS = ['all(v > 0 for v in self.reactants_stoich)', 'all(v > 0 for v in self.products_stoich)']
R0_BLOCK = DictOf({'P': Real(0.1, 10.)})
QS = [('q', 'get_q'), ('CvoR', 'get_CvoR'), ('CpoR', 'get_CpoR'), ('UoRT', 'get_UoRT'), ('HoRT', 'get_HoRT'),
      ('SoR', 'get_SoR'), ('FoRT', 'get_FoRT'), ('GoRT', 'get_GoRT'), ('EoRT', 'get_EoRT')]


def state_sum(lst, stoich, meth, cond):
    """stoichiometry-weighted sum (product for q) over a state, every species
    called with the shared conditions plus its own block"""
    return ('spec.rxn.state_value(%s, %s, %r, %s)' % (lst, stoich, meth, cond))


for cls in ('Reaction', 'ChemkinReaction'):
    qual = RX + cls
    for (nr, npd, nts) in (SHAPES_Q if cls == 'Reaction' else SHAPES_Q[1:2]):
        shape = '%dR,%dP,%dTS' % (nr, npd, nts)
        rx = lambda: reaction(qual, nr, npd, nts)
        cond_args = dict(T=T, P=PR, R0_kwargs=R0_BLOCK)
        COND = "{'T': T, 'P': P}, {'R0': R0_kwargs}"
        for short, meth in QS:
            states = ['reactants', 'products'] + (['transition state'] if nts else [])
            for st_ in states:
                lst = {'reactants': 'self.reactants', 'products': 'self.products',
                       'transition state': 'self.transition_state'}[st_]
                sto = {'reactants': 'self.reactants_stoich', 'products': 'self.products_stoich',
                       'transition state': 'self.transition_state_stoich'}[st_]
                # get_EoRT_state passes its include_ZPE option (default False) on
                cond_ = COND if short != 'EoRT' else COND.replace("'P': P}", "'P': P, 'include_ZPE': False}")
                contract(qual + '.get_%s_state' % short, P, label='%s[%s]' % (st_.replace(' ', '_'), shape),
                         args=dict(self=rx(), state=Const(st_), **cond_args), requires=STOICH_POS,
                         ensures=[('stoichiometric-%s' % ('product' if short == 'q' else 'sum'),
                                   'result == ' + state_sum(lst, sto, meth, cond_)),
                                  ('blocks-unmodified', 'R0_kwargs == old(R0_kwargs)')],
                         cross_check=False)
            for rev in (False, True):
                for act in ((False, True) if nts else (False,)):
                    ini = ('self.products', 'self.products_stoich') if rev else ('self.reactants', 'self.reactants_stoich')
                    if act:
                        fin = ('self.transition_state', 'self.transition_state_stoich')
                    else:
                        fin = ('self.reactants', 'self.reactants_stoich') if rev else ('self.products', 'self.products_stoich')
                    vi = state_sum(ini[0], ini[1], meth, COND)
                    vf = state_sum(fin[0], fin[1], meth, COND)
                    expect = '%s / %s' % (vf, vi) if short == 'q' else '%s - %s' % (vf, vi)
                    contract(qual + '.get_delta_%s' % short, P, label='rev=%s,act=%s[%s]' % (rev, act, shape),
                             args=dict(self=rx(), rev=Const(rev), act=Const(act), **cond_args), requires=STOICH_POS,
                             ensures=[('final-minus-initial', 'result == ' + expect),
                                      ('blocks-unmodified', 'R0_kwargs == old(R0_kwargs)')],
                             cross_check=(short in ('HoRT', 'q', 'GoRT')))
        # lemmas over the contracts: reversal, activation difference, Keq
        CALL = 'T=T, P=P, R0_kwargs=R0_kwargs'
        for short, meth in QS:
            if short == 'q':
                rel = [('reversal', 'self.get_delta_q(rev=True, %s) * self.get_delta_q(rev=False, %s) == 1' % (CALL, CALL))]
                if nts:
                    rel.append(('act-ratio', 'self.get_delta_q(act=True, %s) / self.get_delta_q(rev=True, act=True, %s)'
                                ' == self.get_delta_q(%s)' % (CALL, CALL, CALL)))
            else:
                rel = [('reversal', 'self.get_delta_%s(rev=True, %s) == -self.get_delta_%s(rev=False, %s)'
                        % (short, CALL, short, CALL))]
                if nts:
                    rel.append(('act-difference', 'self.get_delta_%s(act=True, %s) - self.get_delta_%s(rev=True, act=True, %s)'
                                ' == self.get_delta_%s(%s)' % (short, CALL, short, CALL, short, CALL)))
            lemma('%s:%s[%s]' % (cls, short, shape), P, forall=dict(self=rx(), **cond_args), given=STOICH_POS, prove=rel)
        lemma('%s:Keq[%s]' % (cls, shape), P, forall=dict(self=rx(), **cond_args), given=STOICH_POS,
              prove=[('Keq=exp(-dG/RT)', 'self.get_Keq(%s) == exp(-self.get_delta_GoRT(%s))' % (CALL, CALL)),
                     ('Kf*Kr=1', 'self.get_Keq(rev=False, %s) * self.get_Keq(rev=True, %s) == 1' % (CALL, CALL))] +
                    [('Keq=exp(-dG/RT)[rev=%s,act=%s]' % (r_, a_),
                      'self.get_Keq(rev=%s, act=%s, %s) == exp(-self.get_delta_GoRT(rev=%s, act=%s, %s))' % (r_, a_, CALL, r_, a_, CALL))
                     for r_ in (False, True) for a_ in ((False, True) if nts else (False,))] +
                    ([('activated-constants-ratio', 'self.get_Keq(act=True, %s) == self.get_Keq(rev=True, act=True, %s) * self.get_Keq(%s)'
                       % (CALL, CALL, CALL))] if nts else []))
        # locality: a block addressed to R0 changes only R0's contribution
        lemma('%s:locality[%s]' % (cls, shape), P,
              forall=dict(self=rx(), T=T, P=PR, R0_kwargs=R0_BLOCK, other=DictOf({'P': Real(0.1, 10.)})),
              given=STOICH_POS,
              prove=[('only-R0-changes',
                      'self.get_delta_HoRT(T=T, P=P, R0_kwargs=R0_kwargs) - self.get_delta_HoRT(T=T, P=P, R0_kwargs=other)'
                      ' == -self.reactants_stoich[0] * (self.reactants[0].get_HoRT(T=T, P=R0_kwargs["P"])'
                      ' - self.reactants[0].get_HoRT(T=T, P=other["P"]))')])
for st_, exp_ in (('reactants', 'self.reactants'), ('PRODUCTS', 'self.products'), ('ts', 'self.transition_state'),
                  ('transition_state', 'self.transition_state'), ('Transition State', 'self.transition_state')):
    contract(RX + 'Reaction._parse_state', P, label=st_, args=dict(self=reaction(RX + 'Reaction', 2, 1, 1), state=Const(st_)),
             ensures=['result[0] is %s and result[1] is %s_stoich' % (exp_, exp_)], cross_check=False)
contract(RX + 'Reaction._parse_state', P, label='unknown', args=dict(self=reaction(RX + 'Reaction', 2, 1, 1), state=Const('middle')),
         raises={'ValueError': 'True'}, cross_check=False)
for rev, act, ini, fin in ((False, False, 'reactants', 'products'), (True, False, 'products', 'reactants'),
                           (False, True, 'reactants', 'transition state'), (True, True, 'products', 'transition state')):
    contract(RX + '_get_states', P, label='rev=%s,act=%s' % (rev, act), args=dict(rev=Const(rev), act=Const(act)),
             ensures=['result[0] == %r and result[1] == %r' % (ini, fin)], cross_check=False)

# ---- the same identities in energy units (the dimensional getters are evaluated at the same temperature) -------------------
for cls in ('Reaction',):
    qual = RX + cls
    rx = lambda: reaction(qual, 2, 1, 1)
    for g, u, tdep in (('Cv', 'J/mol/K', False), ('Cp', 'J/mol/K', False), ('S', 'J/mol/K', False), ('U', 'kJ/mol', True), ('H', 'kJ/mol', True),
                       ('F', 'kJ/mol', True), ('G', 'kJ/mol', True), ('E', 'kJ/mol', True)):
        CALL = "units=%r, T=T, P=P, R0_kwargs=R0_kwargs" % u
        if g == 'E':
            CALL += ', include_ZPE=False'     # stated explicitly on both sides (abstract species distinguish given from defaulted options)
        rel = [('change-is-final-minus-initial-state',
                "self.get_delta_%s(%s) == self.get_%s_state(state='products', %s) - self.get_%s_state(state='reactants', %s)"
                % (g, CALL, g, CALL, g, CALL)),
               ('activation-change-is-TS-minus-initial-state',
                "self.get_delta_%s(act=True, %s) == self.get_%s_state(state='transition state', %s) - self.get_%s_state(state='reactants', %s)"
                % (g, CALL, g, CALL, g, CALL)),
               ('reversal', 'self.get_delta_%s(rev=True, %s) == -self.get_delta_%s(rev=False, %s)' % (g, CALL, g, CALL))]
        if g != 'E':
            rel.append(('forward-minus-reverse-activation',
                        'self.get_%s_act(rev=False, %s) - self.get_%s_act(rev=True, %s) == self.get_delta_%s(%s)' % (g, CALL, g, CALL, g, CALL)))
        lemma('%s:dimensional:%s' % (cls, g), P, forall=dict(self=rx(), T=T, P=PR, R0_kwargs=R0_BLOCK), given=STOICH_POS + ['T > 0'],
              prove=rel)

# ---- shared helpers behind every reaction getter: condition routing, the string constructor, the shared reference object ----
from contracts import helpers
helpers.install(P, 'kwargs', 'reaction_parser', 'references')

# ---- states of many species evaluated over temperature arrays (declared bounded: run natively on samples; never counted as proved) --
def real_species(name):
    return New('pmutt.empirical.nasa:Nasa', name=Const(name), T_low=Const(50.), T_mid=Const(1000.), T_high=Const(6000.),
               a_low=RealVec(7, -5., 5.), a_high=RealVec(7, -5., 5.), phase=Const('S'), elements=Const({'H': 1}))


def big_reaction(nr, npd):
    return New(RX + 'Reaction', reactants=ListOf([real_species('R%d' % i) for i in range(nr)]), reactants_stoich=ListOf([NU() for _ in range(nr)]),
               products=ListOf([real_species('P%d' % i) for i in range(npd)]), products_stoich=ListOf([NU() for _ in range(npd)]))


for nr, npd in ((4, 2), (6, 5), (1, 4)):
    for q in ('HoRT', 'SoR', 'GoRT', 'CpoR'):
        contract(RX + 'Reaction.get_delta_' + q, P, label='many-species[%dR,%dP],temperature-array' % (nr, npd),
                 shapes=dict(n=[1, 2, 5, 40]), native_only=True,
                 args=lambda n, nr=nr, npd=npd: dict(self=big_reaction(nr, npd), T=RealVec(n, 100., 3000.)),
                 requires=['all(T[i] > 0 for i in range(len(T)))'],
                 ensures=[('hess-law-at-every-temperature',
                           'all(at(result, i) == sum(nu * s.get_%s(T=T[i]) for s, nu in zip(self.products, self.products_stoich))'
                           ' - sum(nu * s.get_%s(T=T[i]) for s, nu in zip(self.reactants, self.reactants_stoich)) for i in range(len(T)))' % (q, q)),
                          ('reversal', 'all(at(self.get_delta_%s(T=T, rev=True), i) == -at(result, i) for i in range(len(T)))' % q)])
    contract(RX + 'Reaction.get_Keq', P, label='many-species[%dR,%dP],temperature-array' % (nr, npd), shapes=dict(n=[1, 5, 40]), native_only=True,
             args=lambda n, nr=nr, npd=npd: dict(self=big_reaction(nr, npd), T=RealVec(n, 300., 3000.)),
             requires=['all(T[i] > 0 for i in range(len(T)))'],
             ensures=[('K=exp(-dG/RT)', 'all(at(result, i) == exp(-at(self.get_delta_GoRT(T=T), i)) for i in range(len(T)))')])
