"""C09 - kinetic parameters respect the reaction's thermodynamics
(ChemkinReaction / SurfaceReaction clamped activation quantities, BEP
relations, pre-exponential factors)."""
from pvc.dsl import *

P = 'C09'
RX = 'pmutt.reaction:'
OM = 'pmutt.omkm.reaction:'
BEPQ = 'pmutt.reaction.bep:BEP'
GETTERS = ['get_q', 'get_CvoR', 'get_CpoR', 'get_UoRT', 'get_HoRT', 'get_SoR', 'get_FoRT', 'get_GoRT', 'get_EoRT']
T = Real(100., 3000.)
PR = Real(1e-3, 1e2, log=True)
NU = lambda: Real(0.25, 4.)


def sp(name, **attrs):
    attrs.setdefault('phase', 'G')
    return Stub(name, GETTERS, elements={'H': 2}, **attrs)


def rxn(cls, ts=True, **extra):
    kw = dict(reactants=ListOf([sp('R0'), sp('R1')]), reactants_stoich=ListOf([NU(), NU()]),
              products=ListOf([sp('P0')]), products_stoich=ListOf([NU()]))
    if ts:
        kw['transition_state'] = ListOf([sp('TS0')])
        kw['transition_state_stoich'] = ListOf([NU()])
    kw.update(extra)
    return New(cls, **kw)


CALL = 'T=T, P=P'
for cls in (RX + 'ChemkinReaction', OM + 'SurfaceReaction'):
    for ts in (True, False):
        for rev in (False, True):
            lab = 'TS=%s,rev=%s' % (ts, rev)
            for q in ('HoRT', 'GoRT'):
                barrier = 'self.get_delta_%s(rev=rev, act=True, %s)' % (q, CALL) if ts else \
                    'self.get_delta_%s(rev=rev, act=False, %s)' % (q, CALL)
                change = 'self.get_delta_%s(rev=rev, act=False, %s)' % (q, CALL)
                contract(cls + '.get_%s_act' % q, P, label=lab,
                         args=dict(self=rxn(cls, ts), rev=Const(rev), T=T, P=PR),
                         ensures=[('never-below-zero', 'result >= 0'),
                                  ('never-below-barrier', 'result >= ' + barrier),
                                  ('never-below-reaction-change', 'result >= ' + change),
                                  ('is-the-largest-of-the-three',
                                   'result == 0 or result == %s or result == %s' % (barrier, change))])
                dim = q[0]
                contract(cls + '.get_%s_act' % dim, P, label=lab,
                         args=dict(self=rxn(cls, ts), units=Const('kcal/mol'), rev=Const(rev), T=T, P=PR),
                         requires=['T > 0'],
                         ensures=[('same-direction-and-conditions',
                                   "result == self.get_%s_act(rev=rev, %s) * const.R('kcal/mol/K') * T" % (q, CALL))])


# ---- BEP ----------------------------------------------------------------------------
DESCRIPTORS = ['delta_H', 'rev_delta_H', 'reactants_H', 'products_H', 'delta_E', 'rev_delta_E', 'reactants_E', 'products_E']


def bep(descriptor):
    return New(BEPQ, slope=Real(0., 1.), intercept=Real(0., 60.), name=Const('TS_BEP'),
               descriptor=Const(descriptor))


def bep_rxn(descriptor, cls=RX + 'Reaction'):
    return New(cls, reactants=ListOf([sp('R0'), sp('R1')]), reactants_stoich=ListOf([NU(), NU()]),
               products=ListOf([sp('P0')]), products_stoich=ListOf([NU()]),
               transition_state=ListOf([bep(descriptor)]), transition_state_stoich=ListOf([Const(1.)]))


BREQ = ['T > 0']
for d in DESCRIPTORS:
    for rev in (False, True):
        if 'rev_delta' in d:
            exp_slope = 'self.slope' if rev else 'self.slope - 1'
        else:
            exp_slope = 'self.slope - 1' if rev else 'self.slope'
        contract(BEPQ + '._get_adjusted_slope', P, label='%s,rev=%s' % (d, rev),
                 args=dict(self=bep(d), rev=Const(rev)), ensures=['result == ' + exp_slope])
    val = {'delta_H': "reaction.get_delta_H(units='kcal/mol', T=T, P=P)",
           'rev_delta_H': "reaction.get_delta_H(rev=True, units='kcal/mol', T=T, P=P)",
           'reactants_H': "reaction.get_H_state(state='reactants', units='kcal/mol', T=T, P=P)",
           'products_H': "reaction.get_H_state(state='products', units='kcal/mol', T=T, P=P)",
           'delta_E': "reaction.get_delta_E(units='kcal/mol', T=T, P=P)",
           'rev_delta_E': "reaction.get_delta_E(rev=True, units='kcal/mol', T=T, P=P)",
           'reactants_E': "reaction.get_E_state(state='reactants', units='kcal/mol', T=T, P=P)",
           'products_E': "reaction.get_E_state(state='products', units='kcal/mol', T=T, P=P)"}[d]
    contract(BEPQ + '._get_descriptor_val', P, label=d,
             args=dict(self=bep(d), reaction=bep_rxn(d), T=T, P=PR), requires=BREQ,
             ensures=['result == ' + val], cross_check=False)
    for rev in (False, True):
        contract(BEPQ + '.get_E_act', P, label='%s,rev=%s' % (d, rev),
                 args=dict(self=bep(d), units=Const('kcal/mol'), reaction=bep_rxn(d), rev=Const(rev), T=T, P=PR),
                 requires=BREQ,
                 ensures=[('linear-relation', 'result == self._get_adjusted_slope(rev=rev) * %s + self.intercept' % val)],
                 cross_check=False)
    if d in ('delta_H', 'rev_delta_H', 'delta_E', 'rev_delta_E'):
        delta = ("reaction.get_delta_H(units='kcal/mol', T=T, P=P)" if d.endswith('H') else
                 "reaction.get_delta_E(units='kcal/mol', T=T, P=P)")
        lemma('BEP:fwd-rev=delta[%s]' % d, P,
              forall=dict(self=bep(d), reaction=bep_rxn(d), T=T, P=PR), given=BREQ,
              prove=[('forward-minus-reverse-barrier-is-the-reaction-change',
                      "self.get_E_act(units='kcal/mol', reaction=reaction, rev=False, T=T, P=P)"
                      " - self.get_E_act(units='kcal/mol', reaction=reaction, rev=True, T=T, P=P) == " + delta)])
    lemma('BEP:TS-enthalpy[%s]' % d, P, forall=dict(reaction=bep_rxn(d), T=T, P=PR), given=BREQ,
          prove=[('same-barrier-from-relation-and-from-TS-enthalpy',
                  'reaction.get_delta_HoRT(act=True, T=T, P=P) == '
                  'reaction.transition_state[0].get_EoRT_act(reaction=reaction, rev=False, T=T, P=P)'),
                 ('U-and-H-offsets-use-the-same-barrier',
                  "reaction.transition_state[0].get_UoRT(reaction=reaction, T=T, P=P)"
                  " - reaction.get_UoRT_state(state='reactants', T=T, P=P) == "
                  "reaction.transition_state[0].get_HoRT(reaction=reaction, T=T, P=P)"
                  " - reaction.get_HoRT_state(state='reactants', T=T, P=P)")])
contract(BEPQ + '._get_descriptor_val', P, label='unsupported-descriptor',
         args=dict(self=bep('delta_G'), reaction=bep_rxn('delta_H'), T=T), raises={'ValueError': 'True'},
         cross_check=False)

# ---- pre-exponential factors ------------------------------------------------------------
KBH = "const.kb('J/K') / const.h('J s')"
for rev in (False, True):
    contract(RX + 'Reaction.get_A', P, label='entropy-route,rev=%s' % rev,
             args=dict(self=rxn(RX + 'Reaction'), T=T, rev=Const(rev), m=Real(0., 3.), use_q=Const(False), P=PR),
             requires=['T > 0'],
             ensures=[('(kT/h)exp(dS_act+m)', 'result == %s * T * exp(self.get_delta_SoR(rev=rev, act=True, T=T, P=P) + m)' % KBH),
                      ('positive', 'result > 0')], cross_check=False)
    contract(RX + 'Reaction.get_A', P, label='partition-function-route,rev=%s' % rev,
             args=dict(self=rxn(RX + 'Reaction'), T=T, rev=Const(rev), m=Real(0., 3.), P=PR),
             requires=['T > 0', 'all(v > 0 for v in self.reactants_stoich)'],
             ensures=[('(kT/h)(q_TS/q_IS)e^m', 'result == %s * T * self.get_delta_q(rev=rev, act=True, T=T, '
                       'ignore_q_elec=True, include_ZPE=False, P=P) * exp(m)' % KBH),
                      ('positive', 'result > 0')], cross_check=False)


def site(name):
    return New('pmutt.chemkin:CatSite', name=Const(name), site_density=Real(1e-11, 1e-8, log=True),
               density=Real(1., 30.), bulk_specie=Const('PT(B)'))


def surf_rxn(n_surf_stoich, ts, gas_first=True):
    """ChemkinReaction with one gas reactant and surface reactants of the
    given integer stoichiometries on one site"""
    rs, st = [], []
    if gas_first:
        rs.append(sp('G0', phase='G', cat_site=None))
        st.append(Const(1))
    for i, nu in enumerate(n_surf_stoich):
        rs.append(sp('S%d' % i, phase='S', cat_site=site('PT')))
        st.append(Const(nu))
    kw = dict(reactants=ListOf(rs), reactants_stoich=ListOf(st),
              products=ListOf([sp('P0', phase='S', cat_site=site('PT'))]), products_stoich=ListOf([Const(1)]))
    if ts:
        kw['transition_state'] = ListOf([sp('TS0', phase='S', cat_site=site('PT'))])
        kw['transition_state_stoich'] = ListOf([Const(1)])
    return New(RX + 'ChemkinReaction', **kw)


for stoichs in ((1,), (2,), (1, 1), (1, 2)):
    n_surf = sum(stoichs)
    for op in ('sum', 'min', 'max', 'mean'):
        contract(RX + 'ChemkinReaction.get_A', P, label='no-TS[n_surf=%s,%s]' % ('+'.join(map(str, stoichs)), op),
                 args=dict(self=surf_rxn(stoichs, False), sden_operation=Const(op), T=T),
                 requires=['T > 0'] + ['self.reactants[%d].cat_site.site_density > 0' % (k + 1) for k in range(len(stoichs))],
                 ensures=[('kB/h-per-unit-temperature-times-site-density-power',
                           'result * spec.rxn.eff_site_density(self, %r) ** %d == %s' % (op, n_surf - 1, KBH)),
                          ('positive', 'result > 0')], cross_check=False)
contract(RX + 'ChemkinReaction._get_n_surf', P, label='counts-surface-reactants',
         args=dict(self=surf_rxn((1, 2), False)), ensures=['result == 3'], cross_check=False)
contract(RX + 'ChemkinReaction.get_A', P, label='gas-phase-no-TS',
         args=dict(self=New(RX + 'ChemkinReaction', reactants=ListOf([sp('G0', cat_site=None)]), reactants_stoich=ListOf([Const(1)]),
                            products=ListOf([sp('G1', cat_site=None)]), products_stoich=ListOf([Const(1)])), T=T),
         requires=['T > 0'], ensures=['result == ' + KBH], cross_check=False)
contract(RX + 'ChemkinReaction.get_A', P, label='TS[n_surf=2,sum]',
         args=dict(self=surf_rxn((2,), True), T=T, P=PR), requires=['T > 0', 'self.reactants[1].cat_site.site_density > 0'],
         ensures=[('A=super.get_A/T/sden^(n-1)',
                   'result * spec.rxn.eff_site_density(self, "sum") == '
                   '%s * self.get_delta_q(act=True, T=T, ignore_q_elec=True, include_ZPE=False, P=P)' % KBH),
                  ('positive', 'result > 0')], cross_check=False)

# ---- OpenMKM surface reactions: the unit system may be given as a string or as a Units object -----------------------------
II_ = 'pmutt.omkm.phase:InteractingInterface'
TERR_ = Shared('c09:terrace', New(II_, name=Const('terrace'), site_density=Real(1e-10, 1e-8), phases=Const([])))


def osp(name, gas=False):
    return Shared('c09:' + name, Stub(name, GETTERS, phase=(Const('gas') if gas else TERR_), elements={'H': 1}))


def omkm_rxn(n_surf_stoich):
    rs, st = [osp('G0', True)], [Const(1.)]
    for i, nu in enumerate(n_surf_stoich):
        rs.append(osp('S%d' % i))
        st.append(Const(float(nu)))
    return New(OM + 'SurfaceReaction', reactants=ListOf(rs), reactants_stoich=ListOf(st), products=ListOf([osp('P0')]),
               products_stoich=ListOf([Const(1.)]))


UNIT_OBJ = lambda: New('pmutt.omkm.units:Units', length=Const('m'), quantity=Const('molec'))
for stoichs in ((1,), (2,), (1, 2)):
    n_surf = sum(stoichs)
    for ulabel, uspec in (('str:molec/m2', lambda: Const('molec/m2')), ('Units(molec,m)', UNIT_OBJ), ('str:mol/cm2', lambda: Const('mol/cm2'))):
        conv = ("const.convert_unit(initial='mol', final='molec') / const.convert_unit(initial='cm2', final='m2')"
                if 'cm2' not in ulabel else '1')
        contract(OM + 'SurfaceReaction.get_A', P, label='no-TS[n_surf=%s,%s]' % ('+'.join(map(str, stoichs)), ulabel),
                 args=dict(self=omkm_rxn(stoichs), T=T, units=uspec(), sden_operation=Const('min'), include_entropy=Const(False)),
                 ghost=dict(terrace=TERR_), requires=['T > 0', 'terrace.site_density > 0'],
                 ensures=[('kB/h-over-(site-density-in-the-requested-units)^(n_surf-1)',
                           'result * (terrace.site_density * %s) ** %d == %s' % (conv, n_surf - 1, KBH)),
                          ('positive', 'result > 0')], cross_check=False)

# ---- one BEP relation serving several reactions: every reaction gets the barrier of ITS OWN descriptor -----------------------
def two_bep_rxns(d):
    b = Shared('c09:bep:' + d, bep(d))
    mk_ = lambda tag: New(RX + 'Reaction', reactants=ListOf([sp('R0' + tag), sp('R1' + tag)]), reactants_stoich=ListOf([NU(), NU()]),
                          products=ListOf([sp('P0' + tag)]), products_stoich=ListOf([NU()]),
                          transition_state=ListOf([b]), transition_state_stoich=ListOf([Const(1.)]))
    return b, mk_('a'), mk_('b')


for d in ('delta_H', 'reactants_E'):
    b, r1, r2 = two_bep_rxns(d)
    val2 = {'delta_H': "r2.get_delta_H(units='kcal/mol', T=T, P=P)",
            'reactants_E': "r2.get_E_state(state='reactants', units='kcal/mol', T=T, P=P)"}[d]
    lemma('BEP:shared-by-two-reactions[%s]' % d, P, forall=dict(bep=b, r1=r1, r2=r2, T=T, P=PR), given=BREQ,
          prove=[('second-reaction-gets-its-own-barrier',
                  "(bep.get_E_act(units='kcal/mol', reaction=r1, T=T, P=P), bep.get_E_act(units='kcal/mol', reaction=r2, T=T, P=P))[1]"
                  " == bep._get_adjusted_slope(rev=False) * %s + bep.intercept" % val2),
                 ('TS-enthalpy-of-the-second-reaction',
                  "(r1.get_delta_HoRT(act=True, T=T, P=P), r2.get_delta_HoRT(act=True, T=T, P=P))[1] == "
                  "bep.get_EoRT_act(reaction=r2, rev=False, T=T, P=P)")])

# ---- the reaction classes that re-implement the dimensional changes (a BEP reads its descriptor through them) ---------------
for cls in (RX + 'Reaction', RX + 'ChemkinReaction', OM + 'SurfaceReaction'):
    short = cls.split(':')[1]
    for rev in (False, True):
        for act in (False, True):
            for g, dimless in (('H', 'HoRT'), ('G', 'GoRT')):
                contract(cls + '.get_delta_%s' % g, P, label='[rev=%s,act=%s]' % (rev, act),
                         args=dict(self=rxn(cls, True), units=Const('kcal/mol'), T=T, rev=Const(rev), act=Const(act), P=PR),
                         requires=['T > 0'],
                         ensures=[('same-direction-state-and-conditions',
                                   "result == self.get_delta_%s(rev=rev, act=act, T=T, P=P) * const.R('kcal/mol/K') * T" % dimless)],
                         cross_check=False)
    for d in ('delta_H', 'rev_delta_H'):
        val = "reaction.get_delta_HoRT(rev=%s, T=T, P=P) * const.R('kcal/mol/K') * T" % (d == 'rev_delta_H')
        contract(BEPQ + '._get_descriptor_val', P, label='%s,reaction-class=%s' % (d, short),
                 args=dict(self=bep(d), reaction=bep_rxn(d, cls), T=T, P=PR), requires=BREQ,
                 ensures=[('descriptor-in-the-named-direction', 'result == ' + val)], cross_check=False)
        if cls != RX + 'Reaction':
            lemma('BEP:fwd-rev=delta[%s,%s]' % (d, short), P,
                  forall=dict(self=bep(d), reaction=bep_rxn(d, cls), T=T, P=PR), given=BREQ,
                  prove=[('forward-minus-reverse-barrier-is-the-reaction-change',
                          "self.get_E_act(units='kcal/mol', reaction=reaction, rev=False, T=T, P=P)"
                          " - self.get_E_act(units='kcal/mol', reaction=reaction, rev=True, T=T, P=P) == "
                          "reaction.get_delta_HoRT(T=T, P=P) * const.R('kcal/mol/K') * T")])

from contracts import helpers
helpers.install(P, 'kwargs', 'numpy_op', 'references')

# ---- four and more occupied sites (every reactant site counts, whatever the number) -----------------------------------------------
for stoichs in ((1, 1, 1, 1), (3, 1), (2, 2, 1), (5,)):
    n_surf = sum(stoichs)
    for op in ('sum', 'min', 'mean'):
        contract(RX + 'ChemkinReaction.get_A', P, label='no-TS[n_surf=%s,%s]' % ('+'.join(map(str, stoichs)), op),
                 args=dict(self=surf_rxn(stoichs, False), sden_operation=Const(op), T=T),
                 requires=['T > 0'] + ['self.reactants[%d].cat_site.site_density > 0' % (k + 1) for k in range(len(stoichs))],
                 ensures=[('kB/h-per-unit-temperature-times-site-density-power',
                           'result * spec.rxn.eff_site_density(self, %r) ** %d == %s' % (op, n_surf - 1, KBH)),
                          ('positive', 'result > 0')], cross_check=False)
        contract(OM + 'SurfaceReaction.get_A', P, label='no-TS[n_surf=%s,%s,str:mol/cm2]' % ('+'.join(map(str, stoichs)), op),
                 args=dict(self=omkm_rxn(stoichs), T=T, units=Const('mol/cm2'), sden_operation=Const(op), include_entropy=Const(False)),
                 ghost=dict(terrace=TERR_), requires=['T > 0', 'terrace.site_density > 0'],
                 ensures=[('kB/h-over-(effective-site-density)^(n_surf-1)',
                           'result * (terrace.site_density * %s) ** %d == %s' % (str(n_surf) if op == 'sum' else '1', n_surf - 1, KBH)),
                          ('positive', 'result > 0')], cross_check=False)

# ---- pre-exponential factor by the entropy route when the transition state is a BEP relation, both directions and entropy states ----
for d in ('delta_H', 'rev_delta_H'):
    for rev in (False, True):
        for es in (None, 'reactants', 'products'):
            extra = {} if es is None else {'entropy_state': Const(es)}
            call = 'rev=rev, act=True, T=T, P=P' + ('' if es is None else ', entropy_state=entropy_state')
            contract(RX + 'Reaction.get_A', P, label='entropy-route,BEP[%s],rev=%s,entropy_state=%s' % (d, rev, es),
                     args=dict(self=bep_rxn(d), T=T, rev=Const(rev), m=Real(0., 3.), use_q=Const(False), P=PR, **extra),
                     requires=['T > 0'],
                     ensures=[('(kT/h)exp(dS_act+m)', 'result == %s * T * exp(self.get_delta_SoR(%s) + m)' % (KBH, call)),
                              ('positive', 'result > 0')], cross_check=False)
