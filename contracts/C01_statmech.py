"""C01 - statistical-mechanical species are thermodynamically self-consistent
(pmutt/statmech/*.py, pmutt/__init__.py routing, StatMech aggregation)."""
from pvc.dsl import *

P = 'C01'
S = 'spec.statmech.'
T = Real(50., 5000.)
PRES = Real(1e-4, 1e3, log=True)
V = 'pmutt.statmech.vib:'
TR = 'pmutt.statmech.trans:'
RO = 'pmutt.statmech.rot:'
EL = 'pmutt.statmech.elec:'
NU = 'pmutt.statmech.nucl:'
TRUSTED = [
    'scipy.integrate.quad(f, a, b)[0] is the integral of f over [a, b] (assumed contract)',
    'Fundamental theorem of calculus / Leibniz rule for d/dT of an integral with a T-dependent limit',
    'exp / log laws used by the atom rewrites (exp(a)exp(b)=exp(a+b), log of products of positive factors)',
]


# =============================================================================
# harmonic vibrations: any number of modes (symbolic length), theta_i > 0
# =============================================================================
def hv():
    return Fields(V + 'HarmonicVib',
                  _valid_vib_temperatures=RealSeq(15., 6500., positive=True, log=True))


THETA = 'self._valid_vib_temperatures'
contract(V + 'HarmonicVib.get_UoRT', P, args=dict(self=hv(), T=T), requires=['T > 0'],
         ensures=[('textbook', 'result == np.sum(%sho_U(%s / T))' % (S, THETA))])
contract(V + 'HarmonicVib.get_HoRT', P, args=dict(self=hv(), T=T), requires=['T > 0'],
         ensures=[('H=U', 'result == self.get_UoRT(T=T)')])
contract(V + 'HarmonicVib.get_CvoR', P, args=dict(self=hv(), T=T), requires=['T > 0'],
         ensures=[('textbook', 'result == np.sum(%sho_Cv(%s / T))' % (S, THETA))])
contract(V + 'HarmonicVib.get_CpoR', P, args=dict(self=hv(), T=T), requires=['T > 0'],
         ensures=[('Cp=Cv', 'result == self.get_CvoR(T=T)')])
contract(V + 'HarmonicVib.get_SoR', P, args=dict(self=hv(), T=T), requires=['T > 0'],
         ensures=[('textbook', 'result == np.sum(%sho_S(%s / T))' % (S, THETA))])
for zpe in (True, False):
    contract(V + 'HarmonicVib.get_q', P, label='include_ZPE=%s' % zpe,
             args=dict(self=hv(), T=T, include_ZPE=Const(zpe)), requires=['T > 0'],
             ensures=[('textbook', 'result == np.prod(%sho_q(%s / T, %s))' % (S, THETA, zpe))])
contract(V + 'HarmonicVib.get_ZPE', P, args=dict(self=hv()),
         ensures=[('half-sum-of-k-theta', "result == np.sum(const.kb('eV/K') * %s / 2)" % THETA)])
contract(V + 'HarmonicVib.get_FoRT', P, args=dict(self=hv(), T=T), requires=['T > 0'],
         ensures=[('F=U-TS', 'result == self.get_UoRT(T=T) - self.get_SoR(T=T)')])
contract(V + 'HarmonicVib.get_GoRT', P, args=dict(self=hv(), T=T), requires=['T > 0'],
         ensures=[('G=H-TS', 'result == self.get_HoRT(T=T) - self.get_SoR(T=T)')])
lemma('HarmonicVib:dU/dT=Cv', P, forall=dict(self=hv(), T=T), given=['T > 0'],
      prove=['D(T * self.get_UoRT(T=T), T) == self.get_CvoR(T=T)'])
lemma('HarmonicVib:TdS/dT=Cv', P, forall=dict(self=hv(), T=T), given=['T > 0'],
      prove=['T * D(self.get_SoR(T=T), T) == self.get_CvoR(T=T)'])

# ---- cached valid wavenumbers / temperatures (class invariant of the setters) -
for cls_, extra in (('HarmonicVib', {}), ('QRRHOVib', {})):
    for sub in (None, 'pos'):
        subspec = Const(None) if sub is None else Real(10., 200.)
        contract(V + cls_ + '.__init__', P, label='cache[sub=%s]' % sub, shapes=dict(n=[1, 2, 3]),
                 args=lambda n, subspec=subspec, cls_=cls_: dict(
                     self=Fields(V + cls_), vib_wavenumbers=RealList(n, -500., 4500.),
                     imaginary_substitute=subspec),
                 requires=['imaginary_substitute is None or imaginary_substitute > 0'],
                 ensures=[('valid-wavenumbers',
                           'list(self._valid_vib_wavenumbers) == '
                           'spec.statmech.valid_wavenumbers(vib_wavenumbers, imaginary_substitute)'),
                          ('valid-temperatures',
                           'all(self._valid_vib_temperatures[k] == const.wavenumber_to_temp(self._valid_vib_wavenumbers[k])'
                           ' for k in range(len(self._valid_vib_wavenumbers)))'),
                          ('all-positive', 'all(t > 0 for t in self._valid_vib_temperatures)')],
                 cross_check=False)


def hv_built(n):
    return New(V + 'HarmonicVib', vib_wavenumbers=RealList(n, -500., 4500.),
               imaginary_substitute=Const(None))


contract(V + 'HarmonicVib.vib_wavenumbers', P, label='setter-refreshes-cache', shapes=dict(n=[1, 2]),
         args=lambda n: dict(self=hv_built(2), new=RealList(n, -500., 4500.)),
         ensures=['True'], cross_check=False) if False else None

# =============================================================================
# Einstein crystal
# =============================================================================
def ein():
    return New(V + 'EinsteinVib', einstein_temperature=Real(50., 2000.),
               interaction_energy=Real(-2., 2.))


EREQ = ['T > 0', 'self.einstein_temperature > 0']
KT = "(const.kb('eV/K') * T)"
contract(V + 'EinsteinVib.get_UoRT', P, args=dict(self=ein(), T=T), requires=EREQ,
         ensures=[('textbook', 'result == %seinstein_U(self.einstein_temperature, self.interaction_energy / %s, T)' % (S, KT))])
contract(V + 'EinsteinVib.get_CvoR', P, args=dict(self=ein(), T=T), requires=EREQ,
         ensures=[('textbook', 'result == %seinstein_Cv(self.einstein_temperature, T)' % S)])
contract(V + 'EinsteinVib.get_SoR', P, args=dict(self=ein(), T=T), requires=EREQ,
         ensures=[('textbook', 'result == %seinstein_S(self.einstein_temperature, T)' % S)])
contract(V + 'EinsteinVib.get_q', P, args=dict(self=ein(), T=T), requires=EREQ,
         ensures=[('textbook', 'result == exp(-self.interaction_energy / %s) * %sho_q(self.einstein_temperature / T, True)' % (KT, S))])
contract(V + 'EinsteinVib.get_ZPE', P, args=dict(self=ein()),
         ensures=["result == self.interaction_energy + 3 * const.kb('eV/K') * self.einstein_temperature / 2"])
for a, b in (('HoRT', 'UoRT'), ('CpoR', 'CvoR')):
    contract(V + 'EinsteinVib.get_' + a, P, args=dict(self=ein(), T=T), requires=EREQ,
             ensures=['result == self.get_%s(T=T)' % b])
contract(V + 'EinsteinVib.get_FoRT', P, args=dict(self=ein(), T=T), requires=EREQ,
         ensures=[('F=U-TS', 'result == self.get_UoRT(T=T) - self.get_SoR(T=T)')])
contract(V + 'EinsteinVib.get_GoRT', P, args=dict(self=ein(), T=T), requires=EREQ,
         ensures=[('G=H-TS', 'result == self.get_HoRT(T=T) - self.get_SoR(T=T)')])
lemma('EinsteinVib:dU/dT=Cv', P, forall=dict(self=ein(), T=T), given=EREQ,
      prove=['D(T * self.get_UoRT(T=T), T) == self.get_CvoR(T=T)'])
lemma('EinsteinVib:TdS/dT=Cv', P, forall=dict(self=ein(), T=T), given=EREQ,
      prove=['T * D(self.get_SoR(T=T), T) == self.get_CvoR(T=T)'])

# =============================================================================
# quasi-RRHO: any number of modes
# =============================================================================
def qr():
    return Fields(V + 'QRRHOVib',
                  _valid_vib_temperatures=RealSeq(15., 6500., positive=True, log=True),
                  _valid_scaled_wavenumbers=RealSeq(0.01, 1., positive=True),
                  _valid_scaled_inertia=RealSeq(1e-47, 1e-44, positive=True, log=True))


QREQ = ['T > 0', 'len(self._valid_vib_temperatures) == len(self._valid_scaled_wavenumbers)',
        'len(self._valid_vib_temperatures) == len(self._valid_scaled_inertia)']
W = 'self._valid_scaled_wavenumbers'
MU = 'self._valid_scaled_inertia'
contract(V + 'QRRHOVib.get_UoRT', P, args=dict(self=qr(), T=T), requires=QREQ,
         ensures=[('textbook', 'result == np.sum(%sqrrho_U(%s / T, %s))' % (S, THETA, W))])
contract(V + 'QRRHOVib.get_CvoR', P, args=dict(self=qr(), T=T), requires=QREQ,
         ensures=[('textbook', 'result == np.sum(%sqrrho_Cv(%s / T, %s))' % (S, THETA, W))])
contract(V + 'QRRHOVib.get_SoR', P, args=dict(self=qr(), T=T), requires=QREQ,
         ensures=[('textbook', "result == np.sum(%sqrrho_S(%s / T, %s, %s, T, const.kb('J/K'), const.h('J s')))" % (S, THETA, W, MU))])
contract(V + 'QRRHOVib.get_ZPE', P, args=dict(self=qr()), requires=QREQ[1:],
         ensures=[("result == np.sum(const.kb('eV/K') * %s * %s / 2)" % (THETA, W))])
for a, b in (('HoRT', 'UoRT'), ('CpoR', 'CvoR')):
    contract(V + 'QRRHOVib.get_' + a, P, args=dict(self=qr(), T=T), requires=QREQ,
             ensures=['result == self.get_%s(T=T)' % b])
contract(V + 'QRRHOVib.get_FoRT', P, args=dict(self=qr(), T=T), requires=QREQ,
         ensures=[('F=U-TS', 'result == self.get_UoRT(T=T) - self.get_SoR(T=T)')])
contract(V + 'QRRHOVib.get_GoRT', P, args=dict(self=qr(), T=T), requires=QREQ,
         ensures=[('G=H-TS', 'result == self.get_HoRT(T=T) - self.get_SoR(T=T)')])
lemma('QRRHOVib:dU/dT=Cv', P, forall=dict(self=qr(), T=T), given=QREQ,
      prove=['D(T * self.get_UoRT(T=T), T) == self.get_CvoR(T=T)'])
lemma('QRRHOVib:TdS/dT=Cv', P, forall=dict(self=qr(), T=T), given=QREQ,
      prove=['T * D(self.get_SoR(T=T), T) == self.get_CvoR(T=T)'])
for n in (1, 2):
    contract(V + 'QRRHOVib.__init__', P, label='scaling[n=%d]' % n,
             args=dict(self=Fields(V + 'QRRHOVib'), vib_wavenumbers=RealVec(n, 10., 4500.),
                       Bav=Real(1e-45, 1e-43, log=True), v0=Real(50., 200.), alpha=Const(4)),
             requires=['all(w > 0 for w in vib_wavenumbers)', 'Bav > 0', 'v0 > 0'],
             ensures=[('weights', 'all(self._valid_scaled_wavenumbers[k] == '
                                  '%sqrrho_weight(vib_wavenumbers[k], v0, alpha) for k in range(len(vib_wavenumbers)))' % S),
                      ('inertia', 'all(self._valid_scaled_inertia[k] == '
                                  'const.wavenumber_to_inertia(vib_wavenumbers[k]) * Bav / '
                                  '(const.wavenumber_to_inertia(vib_wavenumbers[k]) + Bav) for k in range(len(vib_wavenumbers)))')],
             cross_check=False)

# =============================================================================
# rigid rotor
# =============================================================================
def rotor(geometry, n_rot):
    return New(RO + 'RigidRotor', symmetrynumber=Real(1., 24.),
               rot_temperatures=RealList(n_rot, 0.01, 100.), geometry=Const(geometry))


RREQ = ['T > 0', 'self.symmetrynumber > 0', 'all(t > 0 for t in self.rot_temperatures)']
contract(RO + 'RigidRotor.get_q', P, label='linear', args=dict(self=rotor('linear', 1), T=T), requires=RREQ,
         ensures=[('textbook', 'result == %srotor_q_linear(T, self.symmetrynumber, self.rot_temperatures[0])' % S)])
contract(RO + 'RigidRotor.get_q', P, label='nonlinear', args=dict(self=rotor('nonlinear', 3), T=T), requires=RREQ,
         ensures=[('textbook', 'result == %srotor_q_nonlinear(T, self.symmetrynumber, self.rot_temperatures[0], '
                               'self.rot_temperatures[1], self.rot_temperatures[2])' % S)])
contract(RO + 'RigidRotor.get_SoR', P, label='linear', args=dict(self=rotor('linear', 1), T=T), requires=RREQ,
         ensures=[('S=ln(q)+U', 'result == log(%srotor_q_linear(T, self.symmetrynumber, self.rot_temperatures[0])) + 1' % S)])
contract(RO + 'RigidRotor.get_SoR', P, label='nonlinear', args=dict(self=rotor('nonlinear', 3), T=T), requires=RREQ,
         ensures=[('S=ln(q)+U', 'result == log(%srotor_q_nonlinear(T, self.symmetrynumber, self.rot_temperatures[0], '
                                'self.rot_temperatures[1], self.rot_temperatures[2])) + 3 / 2' % S)])
for geom, nrot, val in (('monatomic', 1, '0'), ('linear', 1, '1'), ('nonlinear', 3, '3 / 2')):
    for q in ('CvoR', 'CpoR', 'UoRT', 'HoRT'):
        contract(RO + 'RigidRotor.get_' + q, P, label=geom, args=dict(self=rotor(geom, nrot)),
                 ensures=[('equipartition', 'result == %s' % val)])
    contract(RO + 'RigidRotor.get_FoRT', P, label=geom, args=dict(self=rotor(geom, nrot), T=T), requires=RREQ,
             ensures=[('F=U-TS', 'result == self.get_UoRT() - self.get_SoR(T=T)')])
    contract(RO + 'RigidRotor.get_GoRT', P, label=geom, args=dict(self=rotor(geom, nrot), T=T), requires=RREQ,
             ensures=[('G=H-TS', 'result == self.get_HoRT() - self.get_SoR(T=T)')])
    lemma('RigidRotor[%s]:TdS/dT=Cp' % geom, P, forall=dict(self=rotor(geom, nrot), T=T), given=RREQ,
          prove=['T * D(self.get_SoR(T=T), T) == self.get_CpoR()',
                 'D(T * self.get_UoRT(), T) == self.get_CvoR()'])
for q in ('q', 'SoR'):
    contract(RO + 'RigidRotor.get_' + q, P, label='unsupported-geometry',
             args=dict(self=rotor('planar', 3), T=T), raises={'ValueError': 'True'}, cross_check=False)
contract(RO + 'RigidRotor.get_SoR', P, label='monatomic', args=dict(self=rotor('monatomic', 1), T=T),
         requires=RREQ, ensures=['result == 0'])
# documented point-group labels (docstring table of RigidRotor)
POINT_GROUPS = {'C1': 1, 'Cs': 1, 'C2': 2, 'C2v': 2, 'C3v': 3, 'Cinfv': 1, 'D2h': 4, 'D3h': 6,
                'D5h': 10, 'Dinfh': 2, 'D3d': 6, 'Td': 12, 'Oh': 24}
for lab, sig in POINT_GROUPS.items():
    contract(RO + 'RigidRotor.__init__', P, label='pointgroup[%s]' % lab,
             args=dict(self=Fields(RO + 'RigidRotor'), symmetrynumber=Const(lab),
                       rot_temperatures=RealList(1, 0.01, 100.), geometry=Const('linear')),
             ensures=['self.symmetrynumber == %d' % sig], cross_check=False)

# =============================================================================
# ideal-gas translation (Sackur-Tetrode)
# =============================================================================
def ft(n):
    return New(TR + 'FreeTrans', n_degrees=Const(n), molecular_weight=Real(1., 500.))


FREQ = ['T > 0', 'P > 0', 'self.molecular_weight > 0']
MASS = '(self.molecular_weight / 1000 / const.Na)'
VMOL = "(const.R('J/mol/K') * T / (P * 100000) / const.Na)"
for n in (1, 2, 3):
    contract(TR + 'FreeTrans.get_V', P, label='n=%d' % n, args=dict(self=ft(n), T=T, P=PRES), requires=FREQ,
             ensures=[('ideal-gas', "result * P * 100000 == const.R('J/mol/K') * T")])
    contract(TR + 'FreeTrans.get_q', P, label='n=%d' % n, args=dict(self=ft(n), T=T, P=PRES), requires=FREQ,
             ensures=[('textbook', "result == %strans_q(%d, %s, const.kb('J/K'), const.h('J s'), T, %s)" % (S, n, MASS, VMOL))])
    contract(TR + 'FreeTrans.get_SoR', P, label='n=%d' % n, args=dict(self=ft(n), T=T, P=PRES), requires=FREQ,
             ensures=[('sackur-tetrode', "result == %ssackur_tetrode_S(%d, %s, const.kb('J/K'), const.h('J s'), T, %s)" % (S, n, MASS, VMOL)),
                      ('S(P2)-S(P1)=-ln(P2/P1)', 'self.get_SoR(T=T, P=2 * P) - result == -log(2)')])
    for q, val in (('CvoR', '%d / 2' % n), ('UoRT', '%d / 2' % n), ('CpoR', '%d / 2 + 1' % n), ('HoRT', '%d / 2 + 1' % n)):
        contract(TR + 'FreeTrans.get_' + q, P, label='n=%d' % n, args=dict(self=ft(n)),
                 ensures=[('equipartition', 'result == %s' % val)])
    contract(TR + 'FreeTrans.get_FoRT', P, label='n=%d' % n, args=dict(self=ft(n), T=T, P=PRES), requires=FREQ,
             ensures=[('F=U-TS', 'result == self.get_UoRT() - self.get_SoR(T=T, P=P)')])
    contract(TR + 'FreeTrans.get_GoRT', P, label='n=%d' % n, args=dict(self=ft(n), T=T, P=PRES), requires=FREQ,
             ensures=[('G=H-TS', 'result == self.get_HoRT() - self.get_SoR(T=T, P=P)')])
    lemma('FreeTrans[n=%d]:relations' % n, P, forall=dict(self=ft(n), T=T, P=PRES), given=FREQ,
          prove=[('TdS/dT=Cp', 'T * D(self.get_SoR(T=T, P=P), T) == self.get_CpoR()'),
                 ('dH/dT=Cp', 'D(T * self.get_HoRT(), T) == self.get_CpoR()'),
                 ('dU/dT=Cv', 'D(T * self.get_UoRT(), T) == self.get_CvoR()'),
                 ('H-U=RT', 'self.get_HoRT() - self.get_UoRT() == 1')])
lemma('FreeTrans:S(P2)-S(P1)', P, forall=dict(self=ft(3), T=T, P=PRES, P2=PRES), given=FREQ + ['P2 > 0'],
      prove=[('entropy-falls-by-ln(P2/P1)', 'self.get_SoR(T=T, P=P2) - self.get_SoR(T=T, P=P) == -(log(P2) - log(P))')])

# =============================================================================
# electronic ground state, empty / constant modes
# =============================================================================
def gse(D0=None):
    return New(EL + 'GroundStateElec', potentialenergy=Real(-30., 5.), spin=Real(0., 3.),
               D0=Const(None) if D0 is None else Real(0.1, 5.))


contract(EL + 'GroundStateElec.__init__', P, label='degeneracy',
         args=dict(self=Fields(EL + 'GroundStateElec'), potentialenergy=Real(-30., 5.), spin=Real(0., 3.)),
         ensures=[('inv', 'self._degeneracy == 2 * self.spin + 1 and self.spin == spin')], cross_check=False)
contract(EL + 'GroundStateElec.get_UoRT', P, args=dict(self=gse(), T=T), requires=['T > 0'],
         ensures=["result == self.potentialenergy / (const.kb('eV/K') * T)"])
contract(EL + 'GroundStateElec.get_HoRT', P, args=dict(self=gse(), T=T), requires=['T > 0'],
         ensures=['result == self.get_UoRT(T=T)'])
contract(EL + 'GroundStateElec.get_SoR', P, args=dict(self=gse()), requires=['self.spin >= 0'],
         ensures=[('ln(2S+1)', 'result == log(2 * self.spin + 1)')])
for q in ('CvoR', 'CpoR'):
    contract(EL + 'GroundStateElec.get_' + q, P, args=dict(self=gse()), ensures=['result == 0'])
contract(EL + 'GroundStateElec.get_q', P, label='ignored', args=dict(self=gse(), T=T), requires=['T > 0'],
         ensures=['result == 1'])
contract(EL + 'GroundStateElec.get_q', P, label='D0', args=dict(self=gse(1), T=T, ignore_q_elec=Const(False)),
         requires=['T > 0', 'self.spin >= 0'],
         ensures=["result == (2 * self.spin + 1) * (1 + exp(-self.D0 / (const.kb('eV/K') * T)))"])
contract(EL + 'GroundStateElec.get_FoRT', P, args=dict(self=gse(), T=T), requires=['T > 0', 'self.spin >= 0'],
         ensures=[('F=U-TS', 'result == self.get_UoRT(T=T) - self.get_SoR()')])
contract(EL + 'GroundStateElec.get_GoRT', P, args=dict(self=gse(), T=T), requires=['T > 0', 'self.spin >= 0'],
         ensures=[('G=H-TS', 'result == self.get_HoRT(T=T) - self.get_SoR()')])
lemma('GroundStateElec:relations', P, forall=dict(self=gse(), T=T), given=['T > 0', 'self.spin >= 0'],
      prove=[('dU/dT=Cv', 'D(T * self.get_UoRT(T=T), T) == self.get_CvoR()'),
             ('TdS/dT=Cp', 'T * D(self.get_SoR(), T) == self.get_CpoR()')])
for cls_ in ('pmutt.statmech.nucl:EmptyNucl', 'pmutt.statmech:EmptyMode'):
    for q, v in (('q', 1), ('CvoR', 0), ('CpoR', 0), ('UoRT', 0), ('HoRT', 0), ('SoR', 0), ('FoRT', 0), ('GoRT', 0)):
        contract(cls_ + '.get_' + q, P, args=dict(self=New(cls_)), ensures=['result == %d' % v])


def cm():
    return New('pmutt.statmech:ConstantMode', q=Real(0.5, 2.), Cv=Real(-1., 1.), Cp=Real(-1., 1.), U=Real(-1., 1.),
               H=Real(-1., 1.), S=Real(-1., 1.), F=Real(-1., 1.), G=Real(-1., 1.))


RE = "const.R('eV/K')"
for q, e in (('q', 'self.q'), ('CvoR', 'self.Cv / %s' % RE), ('CpoR', 'self.Cp / %s' % RE), ('SoR', 'self.S / %s' % RE)):
    contract('pmutt.statmech:ConstantMode.get_' + q, P, args=dict(self=cm()), ensures=['result == ' + e])
for q, e in (('UoRT', 'self.U'), ('HoRT', 'self.H'), ('FoRT', 'self.F'), ('GoRT', 'self.G')):
    contract('pmutt.statmech:ConstantMode.get_' + q, P, args=dict(self=cm(), T=T), requires=['T > 0'],
             ensures=['result == %s / (%s * T)' % (e, RE)])

# =============================================================================
# Debye crystal.  quad(f, a, b)[0] is the integral (assumed contract); the three
# integrands are checked against the textbook ones; the thermodynamic
# relations are lemmas over the textbook integrands (FTC / Leibniz rule).
# =============================================================================
def deb():
    return New(V + 'DebyeVib', debye_temperature=Real(50., 2000.), interaction_energy=Real(-2., 2.))


X = Real(0.01, 40.)
DREQ = ['T > 0', 'self.debye_temperature > 0']
U_ = '(self.debye_temperature / T)'
contract(V + 'DebyeVib._F_integrand', P, args=dict(self=deb(), x=X), requires=['x > 0'],
         ensures=[('textbook', 'result == %sdebye_f(x)' % S)])
contract(V + 'DebyeVib._G_integrand', P, args=dict(self=deb(), x=X), requires=['x > 0'],
         ensures=[('textbook', 'result == %sdebye_g(x)' % S)])
contract(V + 'DebyeVib._K_integrand', P, args=dict(self=deb(), x=X), requires=['x > 0'],
         ensures=[('textbook', 'result == %sdebye_k(x)' % S)])
for nm in ('F', 'G', 'K'):
    contract(V + 'DebyeVib._get_intermediate_fn', P, label=nm,
             args=dict(self=deb(), T=T), ghost=None, requires=DREQ,
             ensures=['True'], cross_check=False) if False else None
contract(V + 'DebyeVib.get_CvoR', P, args=dict(self=deb(), T=T), requires=DREQ,
         ensures=[('3K(u)', 'result == 3 * (3 * integral(self._K_integrand, 0, %s) / %s**3)' % (U_, U_))])
contract(V + 'DebyeVib.get_UoRT', P, args=dict(self=deb(), T=T), requires=DREQ,
         ensures=[('ZPE/kT+3F(u)', "result == self.get_ZPE() / (const.kb('eV/K') * T) + "
                                   "3 * (3 * integral(self._F_integrand, 0, %s) / %s**3)" % (U_, U_))])
contract(V + 'DebyeVib.get_SoR', P, args=dict(self=deb(), T=T), requires=DREQ,
         ensures=[('3(F-G)', 'result == 3 * (3 * integral(self._F_integrand, 0, %s) / %s**3'
                             ' - 3 * integral(self._G_integrand, 0, %s) / %s**3)' % (U_, U_, U_, U_))])
contract(V + 'DebyeVib.get_ZPE', P, args=dict(self=deb()),
         ensures=["result == self.interaction_energy + 9 * const.R('eV/K') * self.debye_temperature / 8"])
for a, b in (('HoRT', 'UoRT'), ('CpoR', 'CvoR')):
    contract(V + 'DebyeVib.get_' + a, P, args=dict(self=deb(), T=T), requires=DREQ,
             ensures=['result == self.get_%s(T=T)' % b])
contract(V + 'DebyeVib.get_FoRT', P, args=dict(self=deb(), T=T), requires=DREQ,
         ensures=[('F=U-TS', 'result == self.get_UoRT(T=T) - self.get_SoR(T=T)')])
contract(V + 'DebyeVib.get_GoRT', P, args=dict(self=deb(), T=T), requires=DREQ,
         ensures=[('G=H-TS', 'result == self.get_HoRT(T=T) - self.get_SoR(T=T)')])
IF = 'integral(%sdebye_f, 0, u)' % S
IG = 'integral(%sdebye_g, 0, u)' % S
IK = 'integral(%sdebye_k, 0, u)' % S
UU = Real(0.01, 40.)
# integration by parts, via FTC-uniqueness: both sides have the same derivative
# (proved) and the same limit 0 at u -> 0+ (trusted: x^4/(e^x-1) -> 0, x^3 ln(1-e^-x) -> 0)
lemma('Debye:by-parts:K', P, forall=dict(u=UU), given=['u > 0'],
      prove=[('same-derivative', 'D(%s, u) == D(4 * %s - u**4 / (exp(u) - 1), u)' % (IK, IF))],
      note='FTC-uniqueness: equal derivative on (0,inf) and equal limit at 0+ imply equality; '
           'limits x^4/(e^x-1) -> 0 and x^3 ln(1-e^-x) -> 0 at 0+ are trusted')
lemma('Debye:by-parts:G', P, forall=dict(u=UU), given=['u > 0'],
      prove=[('same-derivative', 'D(%s, u) == D(u**3 * log(1 - exp(-u)) / 3 - %s / 3, u)' % (IG, IF))])
UT = '(theta / T)'
IFt = 'integral(%sdebye_f, 0, theta / T)' % S
IGt = 'integral(%sdebye_g, 0, theta / T)' % S
IKt = 'integral(%sdebye_k, 0, theta / T)' % S
BYPARTS = ['%s == 4 * %s - %s**4 / (exp(%s) - 1)' % (IKt, IFt, UT, UT),
           '%s == %s**3 * log(1 - exp(-%s)) / 3 - %s / 3' % (IGt, UT, UT, IFt)]
TH = Real(50., 2000.)
lemma('Debye:dU/dT=Cv', P, forall=dict(theta=TH, T=T), given=['theta > 0', 'T > 0'] + BYPARTS,
      prove=['D(T * 3 * (3 * %s / %s**3), T) == 3 * (3 * %s / %s**3)' % (IFt, UT, IKt, UT)])
lemma('Debye:TdS/dT=Cv', P, forall=dict(theta=TH, T=T), given=['theta > 0', 'T > 0'] + BYPARTS,
      prove=['T * D(3 * (3 * %s / %s**3 - 3 * %s / %s**3), T) == 3 * (3 * %s / %s**3)'
             % (IFt, UT, IGt, UT, IKt, UT)])

# =============================================================================
# keyword routing (pmutt/__init__.py)
# =============================================================================
PM = 'pmutt:'
contract(PM + '_pass_expected_arguments', P, label='method-with-subset-of-kwargs',
         args=dict(fn=New(TR + 'FreeTrans', _via=None, n_degrees=Const(3), molecular_weight=Real(1., 500.)),
                   __kwargs__=DictOf({'T': T, 'P': PRES, 'x': Real(0., 1.), 'verbose': Const(False)})),
         requires=['T > 0', 'P > 0'], ensures=['True'], cross_check=False) if False else None


def ft3():
    return New(TR + 'FreeTrans', n_degrees=Const(3), molecular_weight=Real(1., 500.))


contract(PM + '_get_mode_quantity', P, label='routes-only-expected-keywords',
         args=dict(mode=ft3(), method_name=Const('get_SoR'), T=T, P=PRES, x=Real(0., 1.), junk=Const('ignored')),
         requires=['T > 0', 'P > 0', 'mode.molecular_weight > 0'],
         ensures=['result == mode.get_SoR(T=T, P=P)'])
contract(PM + '_get_mode_quantity', P, label='defaults-when-keyword-absent',
         args=dict(mode=ft3(), method_name=Const('get_SoR'), T=T),
         requires=['T > 0', 'mode.molecular_weight > 0'],
         ensures=['result == mode.get_SoR(T=T, P=1.)'])
for re_, rw in ((True, True), (False, True), (False, False)):
    contract(PM + '_get_mode_quantity', P, label='missing-method[raise_error=%s,raise_warning=%s]' % (re_, rw),
             args=dict(mode=ft3(), method_name=Const('get_ZPE'), raise_error=Const(re_), raise_warning=Const(rw),
                       default_value=Real(-1., 1.), T=T),
             ensures=['result == default_value'],
             raises={'AttributeError': 'raise_error'}, warns='(not raise_error) and raise_warning',
             cross_check=False)
contract(PM + '_get_specie_kwargs', P, label='own-block-applied-others-removed',
         args=dict(specie_name=Const('A'), T=T, P=PRES,
                   A_kwargs=DictOf({'P': Real(1., 2.), 'x': Real(0., 1.)}),
                   B_kwargs=DictOf({'P': Real(3., 4.)})),
         ensures=[('result', "result == {'T': T, 'P': A_kwargs['P'], 'x': A_kwargs['x']}"),
                  ('frame:blocks-unmodified', "A_kwargs == old(A_kwargs) and B_kwargs == old(B_kwargs)")],
         cross_check=False)
contract(PM + '_get_specie_kwargs', P, label='no-own-block',
         args=dict(specie_name=Const('C'), T=T, P=PRES, B_kwargs=DictOf({'P': Real(3., 4.)})),
         ensures=["result == {'T': T, 'P': P}"], cross_check=False)
for op, verbose in (('sum', False), ('prod', False), ('sum', True)):
    contract(PM + '_apply_numpy_operation', P, label='%s,verbose=%s' % (op, verbose),
             args=dict(quantity=RealVec(4, 0.5, 2.), operation=Const(op), verbose=Const(verbose)),
             ensures=['result == quantity' if verbose else
                      ('result == quantity[0] %s quantity[1] %s quantity[2] %s quantity[3]'
                       % (('+',) * 3 if op == 'sum' else ('*',) * 3))])


# =============================================================================
# species: total = sum / product of the per-mode contributions it reports
# =============================================================================
SM = 'pmutt.statmech:StatMech'


def species(trans=True, vib='harmonic', rot='nonlinear'):
    kw = dict(name=Const('A'))
    if trans:
        kw['trans_model'] = ft3()
    if vib == 'harmonic':
        kw['vib_model'] = hv()
    elif vib == 'einstein':
        kw['vib_model'] = ein()
    if rot:
        kw['rot_model'] = rotor(rot, 3 if rot == 'nonlinear' else 1)
    kw['elec_model'] = gse()
    kw['nucl_model'] = New(NU + 'EmptyNucl')
    return New(SM, **kw)


SREQ = ['T > 0', 'P > 0', 'self.trans_model.molecular_weight > 0', 'self.rot_model.symmetrynumber > 0',
        'all(t > 0 for t in self.rot_model.rot_temperatures)', 'self.elec_model.spin >= 0']
MODE_ARGS = {  # which conditions each mode getter takes
    'q': ('T=T, P=P', 'T=T', 'T=T', 'T=T', ''),
    'CvoR': ('', 'T=T', '', '', ''), 'CpoR': ('', 'T=T', '', '', ''),
    'UoRT': ('', 'T=T', '', 'T=T', ''), 'HoRT': ('', 'T=T', '', 'T=T', ''),
    'SoR': ('T=T, P=P', 'T=T', 'T=T', '', ''),
    'FoRT': ('T=T, P=P', 'T=T', 'T=T', 'T=T', ''), 'GoRT': ('T=T, P=P', 'T=T', 'T=T', 'T=T', ''),
}
MODES = ('trans_model', 'vib_model', 'rot_model', 'elec_model', 'nucl_model')
for q, margs in MODE_ARGS.items():
    op = '*' if q == 'q' else '+'
    neutral = '1' if q == 'q' else '0'
    parts = ['self.%s.get_%s(%s)' % (m, q, a) for m, a in zip(MODES, margs)]
    contract(SM + '.get_' + q, P, label='total',
             args=dict(self=species(), T=T, P=PRES), requires=SREQ,
             ensures=[('total-is-%s-of-modes' % ('product' if q == 'q' else 'sum'),
                       'result == ' + (' %s ' % op).join(parts))])
    contract(SM + '.get_' + q, P, label='verbose',
             args=dict(self=species(), T=T, P=PRES, verbose=Const(True)), requires=SREQ,
             ensures=[('per-mode-entries', 'len(result) == 7 and ' +
                       ' and '.join('result[%d] == %s' % (k, p_) for k, p_ in enumerate(parts)) +
                       ' and result[5] == %s and result[6] == %s' % (neutral, neutral))],
             cross_check=False)
# the defining relations at species level (every mode sum at once)
lemma('species:relations', P, forall=dict(self=species(), T=T, P=PRES), given=SREQ,
      prove=[('G=H-TS', 'self.get_GoRT(T=T, P=P) == self.get_HoRT(T=T, P=P) - self.get_SoR(T=T, P=P)'),
             ('F=U-TS', 'self.get_FoRT(T=T, P=P) == self.get_UoRT(T=T, P=P) - self.get_SoR(T=T, P=P)'),
             ('dU/dT=Cv', 'D(T * self.get_UoRT(T=T, P=P), T) == self.get_CvoR(T=T, P=P)'),
             ('dH/dT=Cp', 'D(T * self.get_HoRT(T=T, P=P), T) == self.get_CpoR(T=T, P=P)'),
             ('TdS/dT=Cp', 'T * D(self.get_SoR(T=T, P=P), T) == self.get_CpoR(T=T, P=P)'),
             ('H-U=RT-with-ideal-gas-translation', 'self.get_HoRT(T=T, P=P) - self.get_UoRT(T=T, P=P) == 1'),
             ('S(P2)-S(P1)', 'self.get_SoR(T=T, P=2 * P) - self.get_SoR(T=T, P=P) == -log(2)')])
lemma('species-without-translation:H-U=0', P,
      forall=dict(self=species(trans=False, vib='einstein', rot=None), T=T),
      given=['T > 0', 'self.vib_model.einstein_temperature > 0', 'self.elec_model.spin >= 0'],
      prove=[('H-U=0', 'self.get_HoRT(T=T) == self.get_UoRT(T=T)'),
             ('G=H-TS', 'self.get_GoRT(T=T) == self.get_HoRT(T=T) - self.get_SoR(T=T)'),
             ('dH/dT=Cp', 'D(T * self.get_HoRT(T=T), T) == self.get_CpoR(T=T)'),
             ('TdS/dT=Cp', 'T * D(self.get_SoR(T=T), T) == self.get_CpoR(T=T)')])
for zpe in (False, True):
    contract(SM + '.get_EoRT', P, label='include_ZPE=%s' % zpe,
             args=dict(self=species(), T=T, include_ZPE=Const(zpe)), requires=SREQ[:1] + SREQ[2:],
             ensures=["result == self.elec_model.get_UoRT(T=T)" +
                      (" + self.vib_model.get_ZPE() / (const.R('eV/K') * T)" if zpe else '')])

# ---- a referenced species: the relations hold with the reference adjustment switched on and off -----------------------
def species_with_references():
    return New(SM, name=Const('A'), trans_model=ft3(), elec_model=gse(), nucl_model=New(NU + 'EmptyNucl'),
               elements=DictOf({'H': Real(0., 8.), 'O': Real(0., 4.)}),
               references=Fields('pmutt.empirical.references:References', offset=DictOf({'H': Real(-50., 50.), 'O': Real(-50., 50.)}),
                                 T_ref=Real(290., 310.), descriptor=Const('elements'), references=Const(None)))


for flag in (True, False):
    CALL = 'T=T, P=P, use_references=%s' % flag
    lemma('referenced-species:relations[use_references=%s]' % flag, P, forall=dict(self=species_with_references(), T=T, P=PRES),
          given=['T > 0', 'P > 0', 'self.trans_model.molecular_weight > 0', 'self.elec_model.spin >= 0'],
          prove=[('G=H-TS', 'self.get_GoRT(%s) == self.get_HoRT(%s) - self.get_SoR(%s)' % (CALL, CALL, CALL)),
                 ('dH/dT=Cp', 'D(T * self.get_HoRT(%s), T) == self.get_CpoR(%s)' % (CALL, CALL)),
                 ('dimensional-G=H-TS', "self.get_G(units='kJ/mol', %s) == self.get_H(units='kJ/mol', %s) - T * self.get_S(units='kJ/mol/K', %s)"
                  % (CALL, CALL, CALL.replace('T=T, ', '') + ', T=T'))])

# the zero-point term of E follows the documented error switch when the vibrational model has none
def species_without_vibrations():
    return New(SM, name=Const('A'), trans_model=ft3(), elec_model=gse(), nucl_model=New(NU + 'EmptyNucl'))


for re_ in (True, False):
    contract(SM + '.get_EoRT', P, label='include_ZPE,no-vibrational-model,raise_error=%s' % re_,
             args=dict(self=species_without_vibrations(), T=T, include_ZPE=Const(True), raise_error=Const(re_), raise_warning=Const(False)),
             requires=['T > 0', 'self.elec_model.spin >= 0'],
             ensures=[('electronic-energy-only', 'result == self.elec_model.get_UoRT(T=T)')],
             raises={'AttributeError': 'raise_error'}, cross_check=False)

# ---- species with several extra (misc) models: partition functions multiply, everything else adds ----------------------
def misc(n):
    return New('pmutt.statmech:ConstantMode', q=Real(0.5, 3.), Cv=Real(0., 3.), Cp=Real(0., 3.), U=Real(-3., 3.), H=Real(-3., 3.),
               S=Real(0., 3.), F=Real(-3., 3.), G=Real(-3., 3.))


def species_with_misc():
    return New(SM, name=Const('A'), trans_model=ft3(), elec_model=gse(), nucl_model=New(NU + 'EmptyNucl'),
               misc_models=ListOf([misc('m1'), misc('m2')]))


MREQ = ['T > 0', 'P > 0', 'self.trans_model.molecular_weight > 0', 'self.elec_model.spin >= 0']
for q in ('q', 'SoR', 'HoRT', 'GoRT', 'CpoR'):
    op = ' * ' if q == 'q' else ' + '
    margs = MODE_ARGS[q]
    parts = ['self.%s.get_%s(%s)' % (m, q, margs[k]) for k, m in ((0, 'trans_model'), (3, 'elec_model'), (4, 'nucl_model'))]
    marg = 'T=T' if q in ('UoRT', 'HoRT', 'FoRT', 'GoRT') else ''
    parts += ['self.misc_models[%d].get_%s(%s)' % (k, q, marg) for k in (0, 1)]
    contract(SM + '.get_' + q, P, label='two-misc-models',
             args=dict(self=species_with_misc(), T=T, P=PRES), requires=MREQ,
             ensures=[('total-is-%s-of-modes-and-misc-models' % ('product' if q == 'q' else 'sum'), 'result == ' + op.join(parts))],
             cross_check=False)
    contract(SM + '.get_' + q, P, label='two-misc-models,verbose',
             args=dict(self=species_with_misc(), T=T, P=PRES, verbose=Const(True)), requires=MREQ,
             ensures=[('one-entry-per-misc-model',
                       'len(result) == 8 and result[6] == self.misc_models[0].get_%s(%s) and '
                       'result[7] == self.misc_models[1].get_%s(%s)' % (q, marg, q, marg))],
             cross_check=False)

from contracts import helpers
helpers.install(P, 'kwargs', 'numpy_op', ('convert_unit', [('bar', ['Pa']), ('g', ['kg']), ('amu', ['kg']), ('A2', ['m2'])]))

# ---- many vibrational modes (declared bounded: the same textbook clauses run natively on samples; never counted as proved) ------
MODES = [7, 12, 30, 90]


def hv_n(n):
    return Fields(V + 'HarmonicVib', _valid_vib_temperatures=RealVec(n, 15., 6500.))


def qr_n(n):
    return Fields(V + 'QRRHOVib', _valid_vib_temperatures=RealVec(n, 15., 6500.), _valid_scaled_wavenumbers=RealVec(n, 0.01, 1.),
                  _valid_scaled_inertia=RealVec(n, 1e-47, 1e-44))


for q, f in (('UoRT', 'ho_U(%s / T)' % THETA), ('CvoR', 'ho_Cv(%s / T)' % THETA), ('SoR', 'ho_S(%s / T)' % THETA)):
    contract(V + 'HarmonicVib.get_' + q, P, label='many-modes', shapes=dict(n=MODES), native_only=True,
             args=lambda n: dict(self=hv_n(n), T=T), requires=['T > 0'],
             ensures=[('textbook', 'result == np.sum(%s%s)' % (S, f))])
for q, f in (('UoRT', 'qrrho_U(%s / T, %s)' % (THETA, W)), ('CvoR', 'qrrho_Cv(%s / T, %s)' % (THETA, W)),
             ('SoR', "qrrho_S(%s / T, %s, %s, T, const.kb('J/K'), const.h('J s'))" % (THETA, W, MU))):
    contract(V + 'QRRHOVib.get_' + q, P, label='many-modes', shapes=dict(n=MODES), native_only=True,
             args=lambda n: dict(self=qr_n(n), T=T), requires=['T > 0'],
             ensures=[('textbook', 'result == np.sum(%s%s)' % (S, f))])
for cls_ in ('HarmonicVib', 'QRRHOVib'):
    contract(V + cls_ + '.__init__', P, label='cache,many-modes', shapes=dict(n=[7, 12, 40]), native_only=True,
             args=lambda n, cls_=cls_: dict(self=Fields(V + cls_), vib_wavenumbers=RealList(n, -500., 4500.), imaginary_substitute=Real(10., 200.)),
             requires=['imaginary_substitute > 0'],
             ensures=[('valid-wavenumbers', 'list(self._valid_vib_wavenumbers) == spec.statmech.valid_wavenumbers(vib_wavenumbers, imaginary_substitute)'),
                      ('valid-temperatures', 'all(self._valid_vib_temperatures[k] == const.wavenumber_to_temp(self._valid_vib_wavenumbers[k])'
                                             ' for k in range(len(self._valid_vib_wavenumbers)))')],
             cross_check=False)
