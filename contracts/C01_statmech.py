"""C01 - statistical-mechanical species are thermodynamically self-consistent
(pmutt/statmech/*.py, pmutt/__init__.py routing, StatMech aggregation)."""
from pvc.dsl import *

P = 'C01'
S = 'spec.statmech.'
T = Real(50., 5000.)
PRES = Real(1e-4, 1e3, log=True)
V = 'pmutt.statmech.vib:'
TR = 'pmutt.statmech.trans:'
RO = 'pmutt.statmech.rot:'
EL = 'pmutt.statmech.elec:'
NU = 'pmutt.statmech.nucl:'
TRUSTED = [
    'scipy.integrate.quad(f, a, b)[0] is the integral of f over [a, b] (assumed contract)',
    'Fundamental theorem of calculus / Leibniz rule for d/dT of an integral with a T-dependent limit',
    'exp / log laws used by the atom rewrites (exp(a)exp(b)=exp(a+b), log of products of positive factors)',
]


# =============================================================================
# harmonic vibrations: any number of modes (symbolic length), theta_i > 0
# =============================================================================
def hv():
    return Fields(V + 'HarmonicVib',
                  _valid_vib_temperatures=RealSeq(15., 6500., positive=True, log=True))


THETA = 'self._valid_vib_temperatures'
contract(V + 'HarmonicVib.get_UoRT', P, args=dict(self=hv(), T=T), requires=['T > 0'],
         ensures=[('textbook', 'result == np.sum(%sho_U(%s / T))' % (S, THETA))])
contract(V + 'HarmonicVib.get_HoRT', P, args=dict(self=hv(), T=T), requires=['T > 0'],
         ensures=[('H=U', 'result == self.get_UoRT(T=T)')])
contract(V + 'HarmonicVib.get_CvoR', P, args=dict(self=hv(), T=T), requires=['T > 0'],
         ensures=[('textbook', 'result == np.sum(%sho_Cv(%s / T))' % (S, THETA))])
contract(V + 'HarmonicVib.get_CpoR', P, args=dict(self=hv(), T=T), requires=['T > 0'],
         ensures=[('Cp=Cv', 'result == self.get_CvoR(T=T)')])
contract(V + 'HarmonicVib.get_SoR', P, args=dict(self=hv(), T=T), requires=['T > 0'],
         ensures=[('textbook', 'result == np.sum(%sho_S(%s / T))' % (S, THETA))])
for zpe in (True, False):
    contract(V + 'HarmonicVib.get_q', P, label='include_ZPE=%s' % zpe,
             args=dict(self=hv(), T=T, include_ZPE=Const(zpe)), requires=['T > 0'],
             ensures=[('textbook', 'result == np.prod(%sho_q(%s / T, %s))' % (S, THETA, zpe))])
contract(V + 'HarmonicVib.get_ZPE', P, args=dict(self=hv()),
         ensures=[('half-sum-of-k-theta', "result == np.sum(const.kb('eV/K') * %s / 2)" % THETA)])
contract(V + 'HarmonicVib.get_FoRT', P, args=dict(self=hv(), T=T), requires=['T > 0'],
         ensures=[('F=U-TS', 'result == self.get_UoRT(T=T) - self.get_SoR(T=T)')])
contract(V + 'HarmonicVib.get_GoRT', P, args=dict(self=hv(), T=T), requires=['T > 0'],
         ensures=[('G=H-TS', 'result == self.get_HoRT(T=T) - self.get_SoR(T=T)')])
lemma('HarmonicVib:dU/dT=Cv', P, forall=dict(self=hv(), T=T), given=['T > 0'],
      prove=['D(T * self.get_UoRT(T=T), T) == self.get_CvoR(T=T)'])
lemma('HarmonicVib:TdS/dT=Cv', P, forall=dict(self=hv(), T=T), given=['T > 0'],
      prove=['T * D(self.get_SoR(T=T), T) == self.get_CvoR(T=T)'])

# ---- cached valid wavenumbers / temperatures (class invariant of the setters) -
for cls_, extra in (('HarmonicVib', {}), ('QRRHOVib', {})):
    for sub in (None, 'pos'):
        subspec = Const(None) if sub is None else Real(10., 200.)
        contract(V + cls_ + '.__init__', P, label='cache[sub=%s]' % sub, shapes=dict(n=[1, 2, 3]),
                 args=lambda n, subspec=subspec, cls_=cls_: dict(
                     self=Fields(V + cls_), vib_wavenumbers=RealList(n, -500., 4500.),
                     imaginary_substitute=subspec),
                 requires=['imaginary_substitute is None or imaginary_substitute > 0'],
                 ensures=[('valid-wavenumbers',
                           'list(self._valid_vib_wavenumbers) == '
                           'spec.statmech.valid_wavenumbers(vib_wavenumbers, imaginary_substitute)'),
                          ('valid-temperatures',
                           'all(self._valid_vib_temperatures[k] == const.wavenumber_to_temp(self._valid_vib_wavenumbers[k])'
                           ' for k in range(len(self._valid_vib_wavenumbers)))'),
                          ('all-positive', 'all(t > 0 for t in self._valid_vib_temperatures)')],
                 cross_check=False)


def hv_built(n):
    return New(V + 'HarmonicVib', vib_wavenumbers=RealList(n, -500., 4500.),
               imaginary_substitute=Const(None))


contract(V + 'HarmonicVib.vib_wavenumbers', P, label='setter-refreshes-cache', shapes=dict(n=[1, 2]),
         args=lambda n: dict(self=hv_built(2), new=RealList(n, -500., 4500.)),
         ensures=['True'], cross_check=False) if False else None

# =============================================================================
# Einstein crystal
# =============================================================================
def ein():
    return New(V + 'EinsteinVib', einstein_temperature=Real(50., 2000.),
               interaction_energy=Real(-2., 2.))


EREQ = ['T > 0', 'self.einstein_temperature > 0']
KT = "(const.kb('eV/K') * T)"
contract(V + 'EinsteinVib.get_UoRT', P, args=dict(self=ein(), T=T), requires=EREQ,
         ensures=[('textbook', 'result == %seinstein_U(self.einstein_temperature, self.interaction_energy / %s, T)' % (S, KT))])
contract(V + 'EinsteinVib.get_CvoR', P, args=dict(self=ein(), T=T), requires=EREQ,
         ensures=[('textbook', 'result == %seinstein_Cv(self.einstein_temperature, T)' % S)])
contract(V + 'EinsteinVib.get_SoR', P, args=dict(self=ein(), T=T), requires=EREQ,
         ensures=[('textbook', 'result == %seinstein_S(self.einstein_temperature, T)' % S)])
contract(V + 'EinsteinVib.get_q', P, args=dict(self=ein(), T=T), requires=EREQ,
         ensures=[('textbook', 'result == exp(-self.interaction_energy / %s) * %sho_q(self.einstein_temperature / T, True)' % (KT, S))])
contract(V + 'EinsteinVib.get_ZPE', P, args=dict(self=ein()),
         ensures=["result == self.interaction_energy + 3 * const.kb('eV/K') * self.einstein_temperature / 2"])
for a, b in (('HoRT', 'UoRT'), ('CpoR', 'CvoR')):
    contract(V + 'EinsteinVib.get_' + a, P, args=dict(self=ein(), T=T), requires=EREQ,
             ensures=['result == self.get_%s(T=T)' % b])
contract(V + 'EinsteinVib.get_FoRT', P, args=dict(self=ein(), T=T), requires=EREQ,
         ensures=[('F=U-TS', 'result == self.get_UoRT(T=T) - self.get_SoR(T=T)')])
contract(V + 'EinsteinVib.get_GoRT', P, args=dict(self=ein(), T=T), requires=EREQ,
         ensures=[('G=H-TS', 'result == self.get_HoRT(T=T) - self.get_SoR(T=T)')])
lemma('EinsteinVib:dU/dT=Cv', P, forall=dict(self=ein(), T=T), given=EREQ,
      prove=['D(T * self.get_UoRT(T=T), T) == self.get_CvoR(T=T)'])
lemma('EinsteinVib:TdS/dT=Cv', P, forall=dict(self=ein(), T=T), given=EREQ,
      prove=['T * D(self.get_SoR(T=T), T) == self.get_CvoR(T=T)'])

# =============================================================================
# quasi-RRHO: any number of modes
# =============================================================================
def qr():
    return Fields(V + 'QRRHOVib',
                  _valid_vib_temperatures=RealSeq(15., 6500., positive=True, log=True),
                  _valid_scaled_wavenumbers=RealSeq(0.01, 1., positive=True),
                  _valid_scaled_inertia=RealSeq(1e-47, 1e-44, positive=True, log=True))


QREQ = ['T > 0', 'len(self._valid_vib_temperatures) == len(self._valid_scaled_wavenumbers)',
        'len(self._valid_vib_temperatures) == len(self._valid_scaled_inertia)']
W = 'self._valid_scaled_wavenumbers'
MU = 'self._valid_scaled_inertia'
contract(V + 'QRRHOVib.get_UoRT', P, args=dict(self=qr(), T=T), requires=QREQ,
         ensures=[('textbook', 'result == np.sum(%sqrrho_U(%s / T, %s))' % (S, THETA, W))])
contract(V + 'QRRHOVib.get_CvoR', P, args=dict(self=qr(), T=T), requires=QREQ,
         ensures=[('textbook', 'result == np.sum(%sqrrho_Cv(%s / T, %s))' % (S, THETA, W))])
contract(V + 'QRRHOVib.get_SoR', P, args=dict(self=qr(), T=T), requires=QREQ,
         ensures=[('textbook', "result == np.sum(%sqrrho_S(%s / T, %s, %s, T, const.kb('J/K'), const.h('J s')))" % (S, THETA, W, MU))])
contract(V + 'QRRHOVib.get_ZPE', P, args=dict(self=qr()), requires=QREQ[1:],
         ensures=[("result == np.sum(const.kb('eV/K') * %s * %s / 2)" % (THETA, W))])
for a, b in (('HoRT', 'UoRT'), ('CpoR', 'CvoR')):
    contract(V + 'QRRHOVib.get_' + a, P, args=dict(self=qr(), T=T), requires=QREQ,
             ensures=['result == self.get_%s(T=T)' % b])
contract(V + 'QRRHOVib.get_FoRT', P, args=dict(self=qr(), T=T), requires=QREQ,
         ensures=[('F=U-TS', 'result == self.get_UoRT(T=T) - self.get_SoR(T=T)')])
contract(V + 'QRRHOVib.get_GoRT', P, args=dict(self=qr(), T=T), requires=QREQ,
         ensures=[('G=H-TS', 'result == self.get_HoRT(T=T) - self.get_SoR(T=T)')])
lemma('QRRHOVib:dU/dT=Cv', P, forall=dict(self=qr(), T=T), given=QREQ,
      prove=['D(T * self.get_UoRT(T=T), T) == self.get_CvoR(T=T)'])
lemma('QRRHOVib:TdS/dT=Cv', P, forall=dict(self=qr(), T=T), given=QREQ,
      prove=['T * D(self.get_SoR(T=T), T) == self.get_CvoR(T=T)'])
for n in (1, 2):
    contract(V + 'QRRHOVib.__init__', P, label='scaling[n=%d]' % n,
             args=dict(self=Fields(V + 'QRRHOVib'), vib_wavenumbers=RealVec(n, 10., 4500.),
                       Bav=Real(1e-45, 1e-43, log=True), v0=Real(50., 200.), alpha=Const(4)),
             requires=['all(w > 0 for w in vib_wavenumbers)', 'Bav > 0', 'v0 > 0'],
             ensures=[('weights', 'all(self._valid_scaled_wavenumbers[k] == '
                                  '%sqrrho_weight(vib_wavenumbers[k], v0, alpha) for k in range(len(vib_wavenumbers)))' % S),
                      ('inertia', 'all(self._valid_scaled_inertia[k] == '
                                  'const.wavenumber_to_inertia(vib_wavenumbers[k]) * Bav / '
                                  '(const.wavenumber_to_inertia(vib_wavenumbers[k]) + Bav) for k in range(len(vib_wavenumbers)))')],
             cross_check=False)
