"""Contracts of the shared helper layer (pmutt/__init__.py helpers, pmutt.constants.convert_unit, the JSON hook).

Verification is modular: a property's own contracts call these helpers (or name them in their clauses), so a change
*inside* a helper is only noticed by a property if that property's check carries the helper's contract.  Every property
file therefore installs, under its own property id, the groups of helper contracts its code depends on:

    from contracts import helpers
    helpers.install(P, 'kwargs', 'formula', ('convert_unit', [('bar', ['Pa']), ('Pa', ['bar'])]))

The clauses are taken from what the helpers are documented / relied on to do, never from their current text."""
from pvc.dsl import *
from pvc import live

PM = 'pmutt:'
CONST = 'pmutt.constants:'
_T = Real(100., 3000.)
_X = Real(0., 1.)


def _kwargs(P):
    # ---- _get_specie_kwargs: general conditions + exactly the species' own block, in a new dictionary --------------
    for n1, n2 in (('O', 'CO'), ('CO', 'O'), ('H2', 'CH2')):
        for order in ((n1, n2), (n2, n1)):
            args = {'specie_name': Const(n1), 'T': _T, 'P': Real(0.1, 10.)}
            for nm in order:
                args[nm + '_kwargs'] = DictOf({'x': _X, 'P': Real(11., 20.)})
            contract(PM + '_get_specie_kwargs', P, label='helper:names=%s,%s;keywords=%s,%s' % (n1, n2, order[0], order[1]),
                     args=args,
                     ensures=[('own-block-only', "result == {'T': T, 'P': %s_kwargs['P'], 'x': %s_kwargs['x']}" % (n1, n1)),
                              ('frame:blocks-unmodified', '%s_kwargs == old(%s_kwargs) and %s_kwargs == old(%s_kwargs)'
                               % (n1, n1, n2, n2)),
                              ('fresh-result', 'result is not %s_kwargs and result is not %s_kwargs' % (n1, n2))],
                     cross_check=False)
    # the species' own block wins over a shared condition wherever the two appear in the call
    for first in ('block', 'shared'):
        blocks = {'O_kwargs': DictOf({'P': Real(11., 20.)}), 'CO_kwargs': DictOf({'P': Real(21., 30.)})}
        shared = {'T': _T, 'P': Real(0.1, 10.)}
        args = {'specie_name': Const('O')}
        args.update(blocks if first == 'block' else shared)
        args.update(shared if first == 'block' else blocks)
        contract(PM + '_get_specie_kwargs', P, label='helper:own-block-wins,%s-listed-first' % first, args=args,
                 ensures=[('own-block-overrides-the-shared-condition', "result == {'T': T, 'P': O_kwargs['P']}")], cross_check=False)
    contract(PM + '_get_specie_kwargs', P, label='helper:no-own-block',
             args={'specie_name': Const('N2'), 'T': _T, 'O_kwargs': DictOf({'x': _X})},
             ensures=[('general-conditions-only', "result == {'T': T}")], cross_check=False)
    contract(PM + '_get_specie_kwargs', P, label='helper:None-valued-condition-kept',
             args={'specie_name': Const('O'), 'T': _T, 'entropy_state': Const(None), 'O_kwargs': DictOf({'x': _X})},
             ensures=[('None-is-a-value', "result == {'T': T, 'entropy_state': None, 'x': O_kwargs['x']}")], cross_check=False)
    # ---- keyword forwarding: every keyword the callee can take reaches it unchanged (None is a value) ---------------
    sp = Stub('callee', ['get_SoR'])
    lemma('helper:_force_pass_arguments:callee-with-**kwargs-gets-everything', P,
          forall=dict(callee=sp, T=_T, x=_X), given=[],
          prove=[('all-keywords-forwarded',
                  'pm._force_pass_arguments(callee.get_SoR, T=T, x=x, entropy_state=None, verbose=False)'
                  ' == callee.get_SoR(T=T, x=x, entropy_state=None, verbose=False)')])
    lemma('helper:_force_pass_arguments:callee-with-named-parameters', P,
          forall=dict(T=_T, x=_X), given=[],
          prove=[('expected-keywords-forwarded-others-dropped',
                  'pm._force_pass_arguments(spec.util.probe, a=T, b=None, unknown=x) == spec.util.probe(a=T, b=None)'),
                 ('None-is-forwarded', 'pm._force_pass_arguments(spec.util.probe, a=T, b=None)[1] is None'),
                 ('missing-keyword-leaves-the-default', "pm._force_pass_arguments(spec.util.probe, a=T)[1] == 'default'"),
                 ('zero-and-False-are-forwarded', 'pm._force_pass_arguments(spec.util.probe, a=0, b=False) == (0, False)')])
    lemma('helper:_pass_expected_arguments', P, forall=dict(T=_T, x=_X), given=[],
          prove=[('only-the-named-parameters', 'pm._pass_expected_arguments(spec.util.probe, a=T, b=x, c=1) == (T, x)'),
                 ('None-is-forwarded', 'pm._pass_expected_arguments(spec.util.probe, a=T, b=None)[1] is None')])


def _formula(P):
    # ---- composition strings -------------------------------------------------------------------------------------
    cases = (('CH3CH2OH', {'C': 2, 'H': 6, 'O': 1}), ('C10H22', {'C': 10, 'H': 22}), ('C4H10', {'C': 4, 'H': 10}),
             ('Uuo2O3', {'Uuo': 2, 'O': 3}), ('NaCl', {'Na': 1, 'Cl': 1}), ('PtO2', {'Pt': 1, 'O': 2}),
             ('C120H2', {'C': 120, 'H': 2}), ('NaAlSi3O8', {'Na': 1, 'Al': 1, 'Si': 3, 'O': 8}),
             ('ZrTiPbO3H2C', {'Zr': 1, 'Ti': 1, 'Pb': 1, 'O': 3, 'H': 2, 'C': 1}))
    for f, comp in cases:
        contract(PM + 'parse_formula', P, label='helper:' + f, args=dict(formula=Const(f)),
                 ensures=[('composition', 'result == %r' % comp)], cross_check=False)
        contract(PM + 'get_molecular_weight', P, label='helper:formula:' + f, args=dict(elements=Const(f)), cross_check=False,
                 ensures=[('sum-of-atomic-weights',
                           'result == ' + ' + '.join('const.atomic_weight[%r] * %d' % kv for kv in comp.items()))])
    lemma('helper:parse_formula-hands-out-a-new-dictionary', P, forall=dict(), given=[],
          prove=[('same-composition-after-editing-an-earlier-result',
                  "spec.util.call_edit_call(pm.parse_formula, 'C10H22', 'H') == {'C': 10, 'H': 22}"),
                 ('two-results-are-distinct-objects', "pm.parse_formula('H2O') is not pm.parse_formula('H2O')")])
    for lab, els in (('3-elements', ['C', 'H', 'Pt']), ('6-elements-in-no-particular-order', ['Si', 'Na', 'O', 'Al', 'H', 'C']),
                     ('9-elements', ['Zr', 'Ti', 'Pb', 'O', 'H', 'C', 'N', 'S', 'Ar'])):
        contract(PM + 'get_molecular_weight', P, label='helper:dict,' + lab,
                 args=dict(elements=DictOf({e: Real(0., 20.) for e in els})),
                 ensures=[('sum-of-atomic-weights', 'result == ' + ' + '.join('const.atomic_weight[%r] * elements[%r]' % (e, e) for e in els)),
                          ('frame:composition-unmodified', 'elements == old(elements)')])


def _per_mass(P):
    # ---- R per unit mass: R / M with M from the composition (dictionary or formula string) ------------------------
    for f, comp in (('C10H22', {'C': 10, 'H': 22}), ('H2O', {'H': 2, 'O': 1})):
        M = ' + '.join('const.atomic_weight[%r] * %d' % kv for kv in comp.items())
        for units, mol_units, mass in (('J/g/K', 'J/mol/K', 'g'), ('kJ/kg/K', 'kJ/mol/K', 'kg')):
            contract(PM + '_get_R_adj', P, label='helper:%s,%s' % (f, units),
                     args=dict(units=Const(units), elements=Const(f)), cross_check=False,
                     ensures=[('R-over-molar-mass', "result * const.convert_unit(num=%s, initial='g', final=%r) == const.R(%r)"
                               % (M, mass, mol_units))])


def _convert_unit(P, pairs):
    """pairs: (initial, [finals]) as the property's code uses them"""
    NUM = Real(-500., 500.)
    for a, finals in pairs:
        for b in finals:
            ens = [('proportional-also-at-zero', 'result == num * const.convert_unit(num=1., initial=initial, final=final)'),
                   ('factor-only-call-is-the-unit-factor',
                    'const.convert_unit(initial=initial, final=final) == const.convert_unit(num=1., initial=initial, final=final)'),
                   ('inverse', 'const.convert_unit(num=result, initial=final, final=initial) == num'),
                   ('positional-call', 'const.convert_unit(num, initial, final) == result')]
            if a == b:
                ens.append(('reflexive', 'result == num'))
            contract(CONST + 'convert_unit', P, label='helper:%s->%s' % (a, b),
                     args=dict(num=NUM, initial=Const(a), final=Const(b)), ensures=ens, cross_check=False)
            # a call with a number must not change what a later factor-only call returns (and the reverse)
            lemma('helper:convert_unit:%s->%s:factor-after-a-call-with-a-number' % (a, b), P,
                  forall=dict(num=NUM), given=[],
                  prove=[('factor-unchanged',
                          '(const.convert_unit(num=num, initial=%r, final=%r), const.convert_unit(initial=%r, final=%r))[1]'
                          ' == const.convert_unit(num=1., initial=%r, final=%r)' % (a, b, a, b, a, b)),
                         ('number-after-factor',
                          '(const.convert_unit(initial=%r, final=%r), const.convert_unit(num=num, initial=%r, final=%r))[1]'
                          ' == num * const.convert_unit(num=1., initial=%r, final=%r)' % (a, b, a, b, a, b))])
    # the tables themselves are C12's subject; here: conversions never edit them
    lemma('helper:convert_unit:tables-unchanged', P, forall=dict(num=NUM), given=[],
          prove=[('type-table-unchanged-by-a-conversion',
                  "spec.util.unchanged_by(lambda: dict(const.type_dict), lambda: const.convert_unit(num=num, initial='eV', final='J'))")])


def _numpy_op(P):
    q = RealVec(4, 0.5, 2.)
    for op, expr in (('sum', 'quantity[0] + quantity[1] + quantity[2] + quantity[3]'),
                     ('prod', 'quantity[0] * quantity[1] * quantity[2] * quantity[3]'),
                     ('min', 'min(quantity[0], quantity[1], quantity[2], quantity[3])'),
                     ('max', 'max(quantity[0], quantity[1], quantity[2], quantity[3])'),
                     ('mean', '(quantity[0] + quantity[1] + quantity[2] + quantity[3]) / 4')):
        contract(PM + '_apply_numpy_operation', P, label='helper:' + op,
                 args=dict(quantity=q, operation=Const(op), verbose=Const(False)),
                 ensures=[('is-the-named-reduction', 'result == ' + expr)])
    contract(PM + '_apply_numpy_operation', P, label='helper:verbose',
             args=dict(quantity=q, operation=Const('min'), verbose=Const(True)),
             ensures=[('every-entry-returned', 'all(result[k] == quantity[k] for k in range(4))')])


def _list_to_dict(P):
    def named(n):
        return Stub(n, ['get_GoRT'], name=n)
    lemma('helper:pmutt_list_to_dict', P, forall=dict(a=named('A'), b=named('B'), c=named('C')), given=[],
          prove=[('maps-every-name-to-its-object',
                  "spec.util.keys_and_ids(pm.pmutt_list_to_dict([a, b])) == [('A', id(a)), ('B', id(b))]"),
                 ('recomputed-after-the-list-was-edited-in-place',
                  "spec.util.keys_and_ids(spec.util.list_to_dict_after_edit(pm.pmutt_list_to_dict, [a, b], 1, c))"
                  " == [('A', id(a)), ('C', id(c))]")])


def _references(P):
    # ---- the reference adjustment object shared by referenced species: a function of the composition it is asked about ----
    RF = 'pmutt.empirical.references:'
    fitted = Fields(RF + 'References', offset=DictOf({'H': Real(-50., 50.), 'O': Real(-50., 50.)}), T_ref=Real(290., 310.),
                    descriptor=Const('elements'), references=Const(None))
    for q in ('HoRT', 'GoRT'):
        contract(RF + 'References.get_' + q, P, label='helper:known-descriptors',
                 args=dict(self=fitted, descriptors=DictOf({'H': Real(0., 8.), 'O': Real(0., 4.)}), T=_T), requires=['T > 0'],
                 ensures=[('-sum(offset*n)*T_ref/T',
                           "result == -(self.offset['H'] * descriptors['H'] + self.offset['O'] * descriptors['O']) * self.T_ref / T"),
                          ('frame:offsets-and-composition-unmodified',
                           'self.offset == old(self.offset) and descriptors == old(descriptors) and self.T_ref == old(self.T_ref)')],
                 cross_check=False)


def _reaction_parser(P):
    # ---- reaction strings: repeated species accumulate, coefficients may be omitted ------------------------------------
    for text, delim, expect in (('CH3 + CH3', '+', (['CH3'], [2.])), ('H + H + M', '+', (['H', 'M'], [2., 1.])),
                                ('2A + B + 0.5A', '+', (['A', 'B'], [2.5, 1.])), ('A>>3B>>B', '>>', (['A', 'B'], [1., 4.])),
                                ('H2 + H2 + O2 + O2', '+', (['H2', 'O2'], [2., 2.])),
                                ('H2 + H2 + O2 + CH4 + O2', '+', (['H2', 'O2', 'CH4'], [2., 2., 1.])),
                                ('A + B + A + C + B + D + C + A', '+', (['A', 'B', 'C', 'D'], [3., 2., 2., 1.])),
                                ('20CO2 + 100H2 + 3N2', '+', (['CO2', 'H2', 'N2'], [20., 100., 3.]))):
        contract('pmutt.reaction:_parse_reaction_state', P, label='helper:%s' % text,
                 args=dict(reaction_str=Const(text), species_delimiter=Const(delim)),
                 ensures=[('species-once-with-summed-coefficients', 'result == %r' % (expect,))], cross_check=False)

    def named(n):
        return Stub(n, ['get_HoRT'], name=n, phase='G', elements={'H': 1})
    lemma('helper:from_string-with-a-repeated-species', P,
          forall=dict(a=named('CH3'), b=named('C2H6'), T=_T), given=[],
          prove=[('stoichiometry', "spec.rxn.from_string_stoich(pm.reaction.Reaction, 'CH3 + CH3 = C2H6', {'CH3': a, 'C2H6': b})"
                                   " == ([2.], [1.])"),
                 ('enthalpy-change',
                  "pm.reaction.Reaction.from_string('CH3 + CH3 = C2H6', {'CH3': a, 'C2H6': b}).get_delta_HoRT(T=T)"
                  " == b.get_HoRT(T=T) - 2 * a.get_HoRT(T=T)")])


GROUPS = {'references': _references, 'reaction_parser': _reaction_parser,
'kwargs': _kwargs, 'formula': _formula, 'per_mass': _per_mass, 'numpy_op': _numpy_op,
          'list_to_dict': _list_to_dict}
GROUPS['kwargs'] = _kwargs


def install(P, *groups):
    for g in groups:
        if isinstance(g, tuple) and g[0] == 'convert_unit':
            _convert_unit(P, list(g[1]))
        else:
            GROUPS[g](P)
