"""C20 - equations of state invert consistently (pmutt/eos/__init__.py)."""
from pvc.dsl import *

P = 'C20'
E = 'pmutt.eos:'
TRUSTED = ['np.roots returns all complex roots of the polynomial it is given '
           '(assumed contract); existence of a real root of the cubic']
st = dict(T=Real(50., 3000.), P=Real(1e-3, 1e3, log=True),
          n=Real(1e-3, 1e3, log=True), V=Real(1e-4, 10., log=True))
POSITIVE = ['T > 0', 'P > 0', 'n > 0', 'V > 0']


def ig():
    return New(E + 'IdealGasEOS')


R_IG = "const.R('m3 bar/mol/K')"
contract(E + 'IdealGasEOS.get_V', P, args=dict(self=ig(), T=st['T'], P=st['P'], n=st['n']),
         requires=['T > 0', 'P > 0', 'n > 0'],
         ensures=[('PV=nRT', 'P * result == n * %s * T' % R_IG),
                  ('V-linear-in-n', 'self.get_V(T=T, P=P, n=2 * n) == 2 * result'),
                  ('back:P', 'self.get_P(T=T, V=result, n=n) == P'),
                  ('back:T', 'self.get_T(V=result, P=P, n=n) == T'),
                  ('back:n', 'self.get_n(V=result, P=P, T=T) == n')])
contract(E + 'IdealGasEOS.get_P', P, args=dict(self=ig(), T=st['T'], V=st['V'], n=st['n']),
         requires=['T > 0', 'V > 0', 'n > 0'],
         ensures=[('PV=nRT', 'result * V == n * %s * T' % R_IG),
                  ('back:V', 'self.get_V(T=T, P=result, n=n) == V'),
                  ('back:T', 'self.get_T(V=V, P=result, n=n) == T'),
                  ('back:n', 'self.get_n(V=V, P=result, T=T) == n')])
contract(E + 'IdealGasEOS.get_T', P, args=dict(self=ig(), V=st['V'], P=st['P'], n=st['n']),
         requires=['V > 0', 'P > 0', 'n > 0'],
         ensures=[('PV=nRT', 'P * V == n * %s * result' % R_IG),
                  ('back:V', 'self.get_V(T=result, P=P, n=n) == V'),
                  ('back:P', 'self.get_P(T=result, V=V, n=n) == P'),
                  ('back:n', 'self.get_n(V=V, P=P, T=result) == n')])
contract(E + 'IdealGasEOS.get_n', P, args=dict(self=ig(), V=st['V'], P=st['P'], T=st['T']),
         requires=['V > 0', 'P > 0', 'T > 0'],
         ensures=[('PV=nRT', 'P * V == result * %s * T' % R_IG),
                  ('back:V', 'self.get_V(T=T, P=P, n=result) == V'),
                  ('back:P', 'self.get_P(T=T, V=V, n=result) == P'),
                  ('back:T', 'self.get_T(V=V, P=P, n=result) == T')])
lemma('unit-constants', P, forall=dict(x=Real()),
      prove=[('R(m3 bar)=R(J)*1e-5',
              "const.R('m3 bar/mol/K') * 100000 == const.R('J/mol/K')"),
             ('bar->Pa', "const.convert_unit(initial='bar', final='Pa') == 100000"),
             ('Pa->bar', "const.convert_unit(initial='Pa', final='bar') * 100000 == 1")])


# ---- van der Waals ----------------------------------------------------------
def vdw():
    return New(E + 'vanDerWaalsEOS', a=Real(0.003, 3., log=True),
               b=Real(1e-5, 2e-4, log=True))


AB = ['self.a > 0', 'self.b > 0']
RJ = "const.R('J/mol/K')"
TOL = '1e-6'
for gas in (True, False):
    contract(E + 'vanDerWaalsEOS.get_Vm', P, label='gas_phase=%s' % gas,
             args=dict(self=vdw(), T=st['T'], P=st['P'], gas_phase=Const(gas)),
             requires=AB + ['T > 0', 'P > 0'],
             ensures=[('is-vdw-root', 'isclose((P * 100000 + self.a / result**2) * (result - self.b), %s * T, %s)' % (RJ, TOL)),
                      ('back:P', 'implies(result != self.b, isclose(self.get_P(T=T, V=result, n=1.), P, %s))' % TOL),
                      ('back:T', 'isclose(self.get_T(V=result, P=P, n=1.), T, %s)' % TOL)])
    contract(E + 'vanDerWaalsEOS.get_V', P, label='gas_phase=%s' % gas,
             args=dict(self=vdw(), T=st['T'], P=st['P'], n=st['n'], gas_phase=Const(gas)),
             requires=AB + ['T > 0', 'P > 0', 'n > 0'],
             ensures=[('back:P', 'implies(result != n * self.b, isclose(self.get_P(T=T, V=result, n=n), P, %s))' % TOL),
                      ('back:T', 'isclose(self.get_T(V=result, P=P, n=n), T, %s)' % TOL)])
    contract(E + 'vanDerWaalsEOS.get_n', P, label='gas_phase=%s' % gas,
             args=dict(self=vdw(), V=st['V'], P=st['P'], T=st['T'], gas_phase=Const(gas)),
             requires=AB + ['T > 0', 'P > 0', 'V > 0'],
             ensures=[('back:T', 'implies(result > 0, isclose(self.get_T(V=V, P=P, n=result), T, %s))' % TOL),
                      ('back:P', 'implies(result > 0 and V != result * self.b, isclose(self.get_P(T=T, V=V, n=result), P, %s))' % TOL)])
contract(E + 'vanDerWaalsEOS.get_P', P,
         args=dict(self=vdw(), T=st['T'], V=st['V'], n=st['n']),
         ghost=dict(IG=ig()),
         requires=AB + ['T > 0', 'V > 0', 'n > 0', 'V != n * self.b'],
         ensures=[('vdw', '(result * 100000 + self.a * (n / V)**2) * (V / n - self.b) == %s * T' % RJ),
                  ('back:T', 'isclose(self.get_T(V=V, P=result, n=n), T, 1e-6)'),
                  ('low-density-bound',
                   'implies(V / n >= 2 * self.b, abs(result - IG.get_P(T=T, V=V, n=n)) * 100000 * (V / n)**2'
                   ' <= 2 * %s * T * self.b + self.a)' % RJ)])
contract(E + 'vanDerWaalsEOS.get_T', P,
         args=dict(self=vdw(), V=st['V'], P=st['P'], n=st['n']),
         requires=AB + ['P > 0', 'V > 0', 'n > 0'],
         ensures=[('vdw', '(P * 100000 + self.a * (n / V)**2) * (V / n - self.b) == %s * result' % RJ),
                  ('back:P', 'implies(V != n * self.b, isclose(self.get_P(T=result, V=V, n=n), P, 1e-6))')])
contract(E + 'vanDerWaalsEOS.get_Vc', P, args=dict(self=vdw(), n=st['n']),
         ensures=['result == 3 * n * self.b'])
contract(E + 'vanDerWaalsEOS.get_Tc', P, args=dict(self=vdw()), requires=AB,
         ensures=['result == 8 * self.a / (27 * self.b * %s)' % RJ])
contract(E + 'vanDerWaalsEOS.get_Pc', P, args=dict(self=vdw()), requires=AB,
         ensures=['result * 100000 == self.a / (27 * self.b**2)'])
contract(E + 'vanDerWaalsEOS.from_critical', P,
         args=dict(Tc=Real(5., 1000.), Pc=Real(1., 300.)),
         requires=['Tc > 0', 'Pc > 0'],
         ensures=[('Tc-roundtrip', 'result.get_Tc() == Tc'),
                  ('Pc-roundtrip', 'result.get_Pc() == Pc'),
                  ('Vc=3nb', 'result.get_Vc(n=2.) == 3 * 2 * result.b'),
                  ('critical-point-is-on-the-isotherm',
                   'result.get_P(T=Tc, V=result.get_Vc(n=1.), n=1.) == Pc')])

# ---- asking for one root must not decide which root a later request gets (any earlier call) --------------------------------
for first, second in ((True, False), (False, True)):
    lemma('vdW:root-requested-after-the-other[%s-then-%s]' % ('gas' if first else 'liquid', 'gas' if second else 'liquid'), P,
          forall=dict(self=vdw(), T=st['T'], P=st['P'], n=st['n']), given=AB + ['T > 0', 'P > 0', 'n > 0'],
          prove=[('V-is-n-times-the-requested-molar-volume',
                  '(self.get_V(T=T, P=P, n=n, gas_phase=%s), self.get_V(T=T, P=P, n=n, gas_phase=%s))[1] == n * self.get_Vm(T=T, P=P, gas_phase=%s)'
                  % (first, second, second)),
                 ('n-from-that-volume',
                  '(self.get_n(V=n, T=T, P=P, gas_phase=%s), self.get_n(V=n, T=T, P=P, gas_phase=%s))[1] * self.get_Vm(T=T, P=P, gas_phase=%s) == n'
                  % (first, second, second))])

# ---- an equation of state that went through its dictionary / JSON form is the same equation of state -------------------------
lemma('vdW:reloaded-object-has-the-same-parameters', P, forall=dict(self=vdw(), T=st['T'], V=st['V'], n=st['n']),
      given=AB + ['T > 0', 'V > 0', 'n > 0', 'V != n * self.b'],
      prove=[('a-and-b', 'spec.eos.reloaded(self).a == self.a and spec.eos.reloaded(self).b == self.b'),
             ('same-pressure', 'spec.eos.reloaded(self).get_P(T=T, V=V, n=n) == self.get_P(T=T, V=V, n=n)'),
             ('same-critical-point', 'spec.eos.reloaded(self).get_Tc() == self.get_Tc() and spec.eos.reloaded(self).get_Pc() == self.get_Pc()')])
lemma('vdW:from_critical-then-reloaded', P, forall=dict(Tc=Real(100., 700.), Pc=Real(10., 250.)), given=['Tc > 0', 'Pc > 0'],
      prove=[('critical-point-recovered-after-reload',
              'spec.eos.reloaded(pm.eos.vanDerWaalsEOS.from_critical(Tc=Tc, Pc=Pc)).get_Tc() == Tc and '
              'spec.eos.reloaded(pm.eos.vanDerWaalsEOS.from_critical(Tc=Tc, Pc=Pc)).get_Pc() == Pc')])

from contracts import helpers
helpers.install(P, ('convert_unit', [('bar', ['Pa']), ('Pa', ['bar'])]))

# ---- arrays of states of any length (declared bounded: run natively on samples; never counted as proved) --------------------------
for n_ in (4, 40, 255, 256, 1000):
    contract(E + 'vanDerWaalsEOS.get_P', P, label='array-of-%d-volumes' % n_, native_only=True,
             args=dict(self=vdw(), T=st['T'], V=RealVec(n_, 1e-3, 1.), n=Real(0.5, 5.)),
             requires=AB + ['T > 0', 'n > 0', 'all(V[i] > n * self.b for i in range(len(V)))'],
             ensures=[('each-entry-is-the-scalar-value', 'all(at(result, i) == self.get_P(T=T, V=V[i], n=n) for i in range(len(V)))'),
                      ('back:T', 'all(isclose(self.get_T(V=V[i], P=at(result, i), n=n), T, 1e-6) for i in range(len(V)))')])
    contract(E + 'vanDerWaalsEOS.get_T', P, label='array-of-%d-volumes' % n_, native_only=True,
             args=dict(self=vdw(), P=st['P'], V=RealVec(n_, 1e-3, 1.), n=Real(0.5, 5.)),
             requires=AB + ['P > 0', 'n > 0', 'all(V[i] > n * self.b for i in range(len(V)))'],
             ensures=[('each-entry-is-the-scalar-value', 'all(at(result, i) == self.get_T(P=P, V=V[i], n=n) for i in range(len(V)))')])
    contract(E + 'IdealGasEOS.get_P', P, label='array-of-%d-volumes' % n_, native_only=True,
             args=dict(self=ig(), T=st['T'], V=RealVec(n_, 1e-3, 1.), n=Real(0.5, 5.)), requires=['T > 0', 'n > 0'],
             ensures=[('each-entry-is-the-scalar-value', 'all(at(result, i) == self.get_P(T=T, V=V[i], n=n) for i in range(len(V)))')])
