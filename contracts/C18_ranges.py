"""C18 - identifier ranges and CTI line wrapping preserve their contents
(pmutt/cantera/__init__.py:_get_omkm_range, pmutt/io/cantera.py:obj_to_cti).

Identifiers are structured strings: a literal prefix followed by the decimal
text of a SYMBOLIC integer in a field of given width; tokens are unknown
separator-free words of SYMBOLIC length (pvc/sstr.py)."""
import itertools
from pvc.dsl import *

P = 'C18'
RNG = 'pmutt.cantera:_get_omkm_range'
CTI = 'pmutt.io.cantera:obj_to_cti'
PREFIXES = ['r_', '', 'lat_int_']

# ---- ids the four-digit notation can encode: reproduced verbatim -----------------------
SHAPES_Q = [('r_',), ('',), ('r_', 'r_'), ('r_', 'lat_int_'), ('', 'r_'), ('r_', 'r_', 'r_'), ('lat_int_', 'r_', 'lat_int_')]
SHAPES_T = SHAPES_Q + [t for t in itertools.product(PREFIXES, repeat=3)] + [('r_',) * 4, ('r_', '', 'r_', '')]
for fmt in ('list', 'str'):
    for shape in SHAPES_Q:
        k = len(shape)
        ids = ListOf([IdText(pfx, 4) for pfx in shape])
        ens = []
        if fmt == 'list':
            ens.append(('denotes-exactly-the-given-ids', 'spec.ids.denotes_exactly(result, objs)'))
        else:
            ens.append(('same-items-as-list-form',
                        'result == "[" + ", ".join(pm.cantera._get_omkm_range(objs=objs, format="list")) + "]"'))
        contract(RNG, P, label='%s[%s]' % (fmt, ','.join(p or '-' for p in shape)),
                 args=dict(objs=ids, format=Const(fmt)), ensures=ens, cross_check=False)
# objects with id / name attributes are read the same way
contract(RNG, P, label='objects-with-id',
         args=dict(objs=ListOf([Fields('pmutt:_pmuttBase', id=IdText('r_', 4)), Fields('pmutt:_pmuttBase', name=IdText('r_', 4))]),
                   format=Const('list')),
         ensures=['spec.ids.denotes_exactly(result, [objs[0].id, objs[1].name])'], cross_check=False)
# ---- ids it cannot encode are rejected, not altered ----------------------------------------
for w in (1, 2, 3, 5):
    for pfx in ('r_', ''):
        contract(RNG, P, label='width-%d-suffix[%s]' % (w, pfx or '-'),
                 args=dict(objs=ListOf([IdText(pfx, w)]), format=Const('list')),
                 ensures=[('verbatim-if-accepted', 'spec.ids.denotes_exactly(result, objs)')],
                 may_raise=('ValueError', 'TypeError'), cross_check=False)
contract(RNG, P, label='non-numeric-suffix', args=dict(objs=Const(['r_12ab']), format=Const('list')),
         raises={'ValueError': 'True'}, cross_check=False)
contract(RNG, P, label='non-string-id', args=dict(objs=Const([12]), format=Const('list')),
         raises={'TypeError': 'True'}, cross_check=False)
contract(RNG, P, label='empty-prefix-with-delimiter',
         args=dict(objs=ListOf([IdText('_', 4)]), format=Const('list')),
         ensures=[('verbatim-if-accepted', 'spec.ids.denotes_exactly(result, objs)')],
         may_raise=('ValueError',), cross_check=False)
contract(RNG, P, label='string-passthrough', args=dict(objs=Const('"r_0001 to r_0004"')),
         ensures=['result == objs'], cross_check=False)
contract(RNG, P, label='empty', args=dict(objs=Const([])), ensures=['result == "[]"'], cross_check=False)

# ---- CTI line wrapping -----------------------------------------------------------------------
for ntok in (1, 2, 3, 4):
    for (line_len, max_line_len) in ((30, 30), (40, 80)):
        indent = max_line_len - line_len + 3
        toks = ListOf([Token(1, 30) for _ in range(ntok)])
        contract(CTI, P, label='wrap[%d tokens,line_len=%d,max=%d]' % (ntok, line_len, max_line_len),
                 args=dict(obj=toks, line_len=Const(line_len), max_line_len=Const(max_line_len)),
                 ensures=[('single-line-form-when-short',
                           'implies(len(" ".join(obj)) < line_len - 2, result == \'"\' + " ".join(obj) + \'"\')'),
                          ('tokens-preserved-in-order',
                           'implies(len(" ".join(obj)) >= line_len - 2, '
                           'spec.ids.tokens_of_wrapped(result, %d) == obj + [\'"""\'])' % indent),
                          ('no-line-too-long-unless-single-token',
                           'implies(len(" ".join(obj)) >= line_len - 2, '
                           'all(len(line) <= (line_len if k == 0 else max_line_len) or '
                           '(" " not in (line[3:] if k == 0 else line[%d:])) '
                           'for k, line in enumerate(result.split("\\n"))))' % indent)],
                 cross_check=False)
for v, exp in ((None, '""'), ('abc', '"abc"'), ({'C': 1, 'H': 4}, '"C:1 H:4"'), (('a', 'b'), '"a b"')):
    contract(CTI, P, label='short:%s' % type(v).__name__, args=dict(obj=Const(v)), ensures=['result == %r' % exp],
             cross_check=False)

# ---- the collections handed to the range writer: what a BEP / a phase lists is exactly what was registered with it -----------
lemma('default-built-BEPs-keep-separate-member-lists', P, forall=dict(), given=[],
      prove=[('first-bep', "spec.ids.ids_of(spec.ids.two_default_beps()[0].cleavage_reactions) == ['OH_0001'] and "
                           "spec.ids.ids_of(spec.ids.two_default_beps()[0].synthesis_reactions) == ['OH_0003']"),
             ('second-bep', "spec.ids.ids_of(spec.ids.two_default_beps()[1].cleavage_reactions) == ['CH_0007'] and "
                            "spec.ids.ids_of(spec.ids.two_default_beps()[1].synthesis_reactions) == []"),
             ('written-range-of-the-second',
              "pm.cantera._get_omkm_range(spec.ids.two_default_beps()[1].cleavage_reactions, format='list') == ['\"CH_0007\"']")])
for ids in ([None, None, None], ['r_0001', None, None, 'r_0004'], ['a_1', 'a_1', 'b_2'], [None]):
    n = len(ids)
    lemma('every-reaction-is-listed-once-for-each-of-its-phases%r' % (ids,), P, forall=dict(), given=[],
          prove=[('all-positions-in-order', "spec.ids.phases_of_reactions(%r) == {'gas': %r, 'terrace': %r}"
                  % (ids, list(range(n)), list(range(n))))])
