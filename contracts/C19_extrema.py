"""C19 - phase diagrams and energy spans select the true extrema
(pmutt/reaction/phasediagram.py, Reactions.get_E_span)."""
from pvc.dsl import *

P = 'C19'
PD = 'pmutt.reaction.phasediagram:PhaseDiagram'
RS = 'pmutt.reaction:Reactions'
T = Real(300., 1500.)


def frxn(i):
    """abstract formation reaction: get_delta_GoRT is an unknown pure function
    of the conditions it receives"""
    return Stub('rxn%d' % i, ['get_delta_GoRT'], positive=())


def diagram(n):
    return New(PD, reactions=ListOf([frxn(i) for i in range(n)]),
               norm_factors=RealList(n, 0.5, 4.))


NORM = ['all(f > 0 for f in self.norm_factors)']
for n in (1, 2, 3):
    for m in (1, 2, 3):
        for units in (None, 'kJ/mol'):
            scale = '' if units is None else " * const.R('kJ/mol/K') * T"
            contract(PD + '.get_GoRT_1D', P, label='n_rxn=%d,n_x=%d,units=%s' % (n, m, units),
                     args=dict(self=diagram(n), x_name=Const('P'), x_values=RealList(m, 0.01, 10.),
                               G_units=Const(units), T=T),
                     requires=NORM + ['T > 0'],
                     ensures=[('table-shape', 'len(result[0]) == %d and all(len(row) == %d for row in result[0])' % (n, m)),
                              ('table-entries',
                               'all(result[0][i][j] == self.reactions[i].get_delta_GoRT(T=T, P=x_values[j])'
                               ' / self.norm_factors[i]%s for i in range(%d) for j in range(%d))' % (scale, n, m)),
                              ('one-stable-phase-per-grid-point', 'len(result[1]) == %d' % m),
                              ('stable-phase-has-the-lowest-energy',
                               'all(result[0][result[1][j]][j] <= result[0][i][j] for j in range(%d) for i in range(%d))' % (m, n))],
                     cross_check=False)
# a temperature scan: each column is converted with its own temperature
for n in (1, 2):
    for m in (2, 3):
        contract(PD + '.get_GoRT_1D', P, label='T-scan,n_rxn=%d,n_x=%d,units=eV' % (n, m),
                 args=dict(self=diagram(n), x_name=Const('T'), x_values=RealList(m, 300., 1500.), G_units=Const('eV'), P=Real(0.01, 10.)),
                 requires=NORM + ['all(t > 0 for t in x_values)'],
                 ensures=[('table-entries',
                           "all(result[0][i][j] == self.reactions[i].get_delta_GoRT(T=x_values[j], P=P)"
                           " / self.norm_factors[i] * const.R('eV/K') * x_values[j] for i in range(%d) for j in range(%d))" % (n, m)),
                          ('stable-phase-has-the-lowest-energy',
                           'all(result[0][result[1][j]][j] <= result[0][i][j] for j in range(%d) for i in range(%d))' % (m, n))],
                 cross_check=False)
for n in (1, 2, 3):
    for (m1, m2) in ((1, 1), (2, 2), (2, 3)):
        if n == 3 and (m1, m2) == (2, 3):
            continue
        contract(PD + '.get_GoRT_2D', P, label='n_rxn=%d,grid=%dx%d' % (n, m1, m2),
                 args=dict(self=diagram(n), x1_name=Const('T'), x1_values=RealList(m1, 300., 1500.),
                           x2_name=Const('P'), x2_values=RealList(m2, 0.01, 10.)),
                 requires=NORM,
                 ensures=[('table-entries',
                           'all(result[0][i][j][k] == self.reactions[i].get_delta_GoRT(T=x1_values[j], P=x2_values[k])'
                           ' / self.norm_factors[i] for i in range(%d) for j in range(%d) for k in range(%d))' % (n, m1, m2)),
                          ('stable-phase-has-the-lowest-energy',
                           'all(result[0][int(result[1][j][k])][j][k] <= result[0][i][j][k]'
                           ' for j in range(%d) for k in range(%d) for i in range(%d))' % (m1, m2, n))],
                 cross_check=False)
# one- and two-parameter scans agree (a 2-D scan with a single value on one axis)
lemma('1D-2D-agree', P, forall=dict(self=diagram(3), xs=RealList(2, 0.01, 10.), T=T), given=NORM + ['T > 0'],
      prove=['all(self.get_GoRT_1D(x_name="P", x_values=xs, T=T)[1][k] == '
             'self.get_GoRT_2D(x1_name="T", x1_values=[T], x2_name="P", x2_values=xs)[1][0][k] for k in range(2))'])


# ---- energy span ---------------------------------------------------------------------
def step(i, ts):
    return Stub('step%d' % i, ['get_G_state'], positive=(), reactants='R', products='P',
                transition_state=('TS' if ts else None))


def seq(ts_flags):
    return New(RS, reactions=ListOf([step(i, ts) for i, ts in enumerate(ts_flags)]))


for flags in ((False,), (True,), (True, False), (True, True), (False, True, True)):
    contract(RS + '.get_E_span', P, label='steps=%s' % ''.join('T' if f else '-' for f in flags),
             args=dict(self=seq(flags), units=Const('eV'), T=T), requires=['T > 0'],
             ensures=[('span', 'result == spec.rxn.energy_span(spec.rxn.state_energies(self, "eV", T))')],
             cross_check=False)
# 2-D scans in energy units: each grid point is converted with its own temperature
for (tname, label) in (('x1', 'T-on-axis-1'), ('x2', 'T-on-axis-2')):
    a1 = dict(x1_name=Const('T'), x1_values=RealList(2, 300., 1500.), x2_name=Const('P'), x2_values=RealList(2, 0.01, 10.)) \
        if tname == 'x1' else \
        dict(x1_name=Const('P'), x1_values=RealList(2, 0.01, 10.), x2_name=Const('T'), x2_values=RealList(2, 300., 1500.))
    call = 'T=x1_values[j], P=x2_values[k]' if tname == 'x1' else 'P=x1_values[j], T=x2_values[k]'
    Tjk = 'x1_values[j]' if tname == 'x1' else 'x2_values[k]'
    contract(PD + '.get_GoRT_2D', P, label='units=eV,' + label, args=dict(self=diagram(2), G_units=Const('eV'), **a1),
             requires=NORM + ['all(t > 0 for t in %s_values)' % tname],
             ensures=[('table-entries',
                       "all(result[0][i][j][k] == self.reactions[i].get_delta_GoRT(%s) / self.norm_factors[i]"
                       " * const.R('eV/K') * %s for i in range(2) for j in range(2) for k in range(2))" % (call, Tjk))],
             cross_check=False)

from contracts import helpers
helpers.install(P, 'kwargs', 'reaction_parser')

# ---- a scanned variable that is also given as a fixed condition: the scanned value is the one that counts -------------------------
for units in ('eV', None):
    extra = {} if units is None else {'G_units': Const(units)}
    conv = '' if units is None else " * const.R('eV/K') * x_values[j]"
    contract(PD + '.get_GoRT_1D', P, label='T-scan-with-a-fixed-T-among-the-conditions,units=%s' % units,
             args=dict(self=diagram(2), x_name=Const('T'), x_values=RealList(3, 300., 1500.), P=Real(0.01, 10.), T=Real(200., 299.), **extra),
             requires=NORM + ['all(t > 0 for t in x_values)', 'T > 0'],
             ensures=[('table-entries-at-the-scanned-temperature',
                       "all(result[0][i][j] == self.reactions[i].get_delta_GoRT(T=x_values[j], P=P)"
                       " / self.norm_factors[i]%s for i in range(2) for j in range(3))" % conv)],
             cross_check=False)
    contract(PD + '.get_GoRT_1D', P, label='P-scan-with-a-fixed-P-among-the-conditions,units=%s' % units,
             args=dict(self=diagram(2), x_name=Const('P'), x_values=RealList(3, 0.01, 10.), P=Real(20., 30.), T=Real(300., 1500.), **extra),
             requires=NORM + ['T > 0'],
             ensures=[('table-entries-at-the-scanned-pressure',
                       "all(result[0][i][j] == self.reactions[i].get_delta_GoRT(T=T, P=x_values[j])"
                       " / self.norm_factors[i]%s for i in range(2) for j in range(3))" % conv.replace('x_values[j]', 'T'))],
             cross_check=False)

# ---- long sequences (declared bounded: the same clause run natively on samples; never counted as proved) ----------------------------
for flags in ((True,) * 5, (False,) * 7, (True, False, True, True, False, True), (True,) * 12):
    contract(RS + '.get_E_span', P, label='long-sequence,steps=%s' % ''.join('T' if f else '-' for f in flags), native_only=True,
             args=dict(self=seq(flags), units=Const('eV'), T=T), requires=['T > 0'],
             ensures=[('span', 'result == spec.rxn.energy_span(spec.rxn.state_energies(self, "eV", T))')],
             cross_check=False)
