"""C07 - OpenMKM / Cantera input files transcribe the model faithfully
(pmutt/io/omkm.py, pmutt/omkm, pmutt/cantera, emitters of the species,
reaction, interaction and phase classes).

YAML files: PyYAML is external - contracts are stated on the dictionaries
handed to yaml.dump (recorded by the `ext_call` ghost) and on the dictionaries
the emitters return; the dumped text and the global quote stripping are only
reached by the bounded check.  CTI: emitters return structured strings whose
numbers are format(value, spec) / str(value) pieces."""
from pvc.dsl import *

P = 'C07'
LEVEL = 'other'
OM = 'pmutt.omkm:'
IO = 'pmutt.io.omkm:'
TRUSTED = ['yaml.dump writes the dictionary it is given (PyYAML, external): contracts are stated on that dictionary; the dumped text, '
           'its re-loading and the replace("\'", "") post-processing are covered by the labelled bounded check only',
           'str(x) / format(x, spec) of a float is a function of the value (uninterpreted text piece)']
UNITS = lambda: New('pmutt.omkm.units:Units', length=Const('cm'), quantity=Const('mol'), act_energy=Const('kcal/mol'),
                    mass=Const('g'), energy=Const('kcal'))
PLAIN = dict(plain_real_text=True)


def param(label, val, units):
    return New(OM + '_Param', label=Const(label), val=val, units=Const(units))


# ---- _assign_yaml_val: every supplied value reaches the header with its unit, nothing else changes -------
HEADER = lambda: DictOf({'type': Const('"cstr"'), 'nodes': Const(3)})
for vlabel, val, units_spec, expect in (
        ('float+unit', Real(0.1, 100.), '_length3/_time', 'spec.omkm.with_unit(param.val, param.units, units)'),
        ('int+unit', Int(1, 50, assume=True), '_pressure', 'spec.omkm.with_unit(param.val, param.units, units)'),
        ('float,no-unit', Real(0.1, 100.), None, 'param.val'),
        ('bool,no-unit', Bool(), None, 'param.val'),
        ('str,no-unit', Const('pfr'), None, '"\\"pfr\\""'),
        ('str-with-own-units', Const('1 cm3/s'), '_length3/_time', '"\\"1 cm3/s\\""'),
        ('list+unit', RealList(2, 0.1, 100.), '_pressure', '[spec.omkm.with_unit(v, param.units, units) for v in param.val]'),
        ('list,no-unit', RealList(2, 0.1, 100.), None, 'param.val'),
        ('dict,no-unit', Const({'atol': 1e-8}), None, 'param.val')):
    contract(OM + '_assign_yaml_val', P, label=vlabel,
             args=dict(param=param('volume', val, units_spec), header=HEADER(), units=UNITS()),
             ensures=[('carried-with-its-unit', 'header["volume"] == ' + expect),
                      ('nothing-else-changes', 'spec.omkm.keys(header) == ["nodes", "type", "volume"] and header["type"] == "\\"cstr\\"" '
                                               'and header["nodes"] == 3')],
             options=PLAIN, cross_check=False)
contract(OM + '_assign_yaml_val', P, label='omitted', args=dict(param=param('volume', Const(None), '_length3'), header=HEADER(), units=UNITS()),
         ensures=[('absent', 'spec.omkm.keys(header) == ["nodes", "type"]')], cross_check=False)
contract(OM + '_assign_yaml_val', P, label='user-dictionary-wins',
         args=dict(param=param('nodes', Int(1, 50), None), header=HEADER(), units=UNITS()),
         ensures=[('kept', 'header == old(header)')], cross_check=False)
contract(OM + '_assign_yaml_val', P, label='no-unit-system(SI)',
         args=dict(param=param('volume', Real(0.1, 100.), '_length3'), header=HEADER(), units=Const(None)),
         ensures=[('value-as-given', 'header["volume"] == param.val and spec.omkm.keys(header) == ["nodes", "type", "volume"]')],
         cross_check=False)

# ---- write_yaml: the reactor file carries every supplied operating value with its unit and nothing else ------
R = lambda lo=0.1, hi=100.: Real(lo, hi)
WU = 'spec.omkm.with_unit'
DUMPED = 'ext_call("yaml.dump")["data"]'
contract(IO + 'write_yaml', P, label='nothing-given', args=dict(),
         ensures=[('empty-document', DUMPED + ' == {}'), ('starts-with-comment', 'result.startswith("# ")')], cross_check=False)
contract(IO + 'write_yaml', P, label='all-scalar-options',
         args=dict(reactor_type=Const('cstr'), temperature_mode=Const('isothermal'), pressure_mode=Const('isobaric'), nodes=Int(1, 50),
                   V=R(), T=R(300., 900.), P=R(), A=R(), L=R(), cat_abyv=R(), flow_rate=R(), residence_time=R(), mass_flow_rate=R(),
                   end_time=R(), transient=Bool(), stepping=Const('logarithmic'), init_step=R(1e-9, 1e-3), step_size=R(1., 10.),
                   atol=R(1e-12, 1e-6), rtol=R(1e-12, 1e-6), full_SA=Bool(), output_format=Const('csv'), units=UNITS()),
         ensures=[('reactor', DUMPED + '["reactor"] == {"type": "\\"cstr\\"", "temperature_mode": "\\"isothermal\\"", '
                   '"pressure_mode": "\\"isobaric\\"", "nodes": nodes, "volume": %s(V, "_length3", units), "area": %s(A, "_length2", units), '
                   '"length": %s(L, "_length", units), "cat_abyv": %s(cat_abyv, "/_length", units), "temperature": T, '
                   '"pressure": %s(P, "_pressure", units)}' % (WU, WU, WU, WU, WU)),
                  ('inlet_gas', DUMPED + '["inlet_gas"] == {"residence_time": %s(residence_time, "_time", units), '
                   '"mass_flow_rate": %s(mass_flow_rate, "_mass/_time", units), "flow_rate": %s(flow_rate, "_length3/_time", units)}' % (WU, WU, WU)),
                  ('simulation', DUMPED + '["simulation"] == {"end_time": %s(end_time, "_time", units), "transient": transient, '
                   '"stepping": "\\"logarithmic\\"", "step_size": step_size, "init_step": init_step, "output_format": "\\"csv\\"", '
                   '"solver": {"atol": atol, "rtol": rtol}, "sensitivity": {"full": full_SA}}' % WU),
                  ('nothing-else', 'spec.omkm.keys(%s) == ["inlet_gas", "reactor", "simulation"]' % DUMPED)],
         options=PLAIN, cross_check=False)
contract(IO + 'write_yaml', P, label='multi-run-inputs',
         args=dict(multi_T=RealList(2, 300., 900.), multi_P=RealList(3, 0.1, 10.), multi_flow_rate=RealList(2, 0.1, 10.), units=UNITS()),
         ensures=[('first-run-is-the-reactor-state', DUMPED + '["reactor"] == {"temperature": multi_T[0], "pressure": %s(multi_P[0], "_pressure", units)}' % WU),
                  ('first-flow-rate', DUMPED + '["inlet_gas"] == {"flow_rate": %s(multi_flow_rate[0], "_length3/_time", units)}' % WU),
                  ('all-runs-listed', DUMPED + '["simulation"] == {"multi_input": {"temperature": multi_T, '
                   '"pressure": [%s(p, "_pressure", units) for p in multi_P], '
                   '"flow_rate": [%s(q, "_length3/_time", units) for q in multi_flow_rate]}}' % (WU, WU))],
         options=PLAIN, cross_check=False)
contract(IO + 'write_yaml', P, label='single-values-win-over-multi',
         args=dict(T=R(300., 900.), multi_T=RealList(2, 300., 900.), units=UNITS()),
         ensures=[('reactor-temperature-is-T', DUMPED + '["reactor"] == {"temperature": T}')], options=PLAIN, cross_check=False)
contract(IO + 'write_yaml', P, label='user-dictionaries-win',
         args=dict(T=R(300., 900.), V=R(), reactor=DictOf({'temperature': Real(300., 900.), 'custom': Const('x')}),
                   misc=DictOf({'extra': Const(1)}), units=UNITS()),
         ensures=[('reactor', DUMPED + '["reactor"] == {"temperature": old(reactor["temperature"]), "custom": "x", '
                              '"volume": %s(V, "_length3", units)}' % WU),
                  ('misc-kept', DUMPED + '["extra"] == 1 and spec.omkm.keys(%s) == ["extra", "reactor"]' % DUMPED)],
         options=PLAIN, cross_check=False)
contract(IO + 'write_yaml', P, label='sensitivity-targets',
         args=dict(reactions_SA=ListOf([Const('r_0001'), Fields('pmutt.omkm.reaction:SurfaceReaction', _id=Const('r_0002'))]),
                   species_SA=ListOf([Const('H2'), Fields('pmutt.empirical.nasa:Nasa', name=Const('N2'))]), units=UNITS()),
         ensures=[(DUMPED + ' == {"simulation": {"sensitivity": {"reactions": ["r_0001", "r_0002"], "species": ["H2", "N2"]}}}')],
         cross_check=False)
contract(IO + 'write_yaml', P, label='sensitivity-target-without-id', args=dict(reactions_SA=Const([3.5])),
         raises={'TypeError': 'True'}, cross_check=False)


def ph(cls, name, init):
    return New('pmutt.omkm.phase:' + cls, name=Const(name), species=Const(None), initial_state=init, **(
        dict(site_density=Real(1e-10, 1e-8), phases=Const([])) if cls == 'InteractingInterface' else {}))


contract(IO + 'write_yaml', P, label='phases-list',
         args=dict(phases=ListOf([ph('IdealGas', 'gas', DictOf({'H2': Real(0., 1.), 'N2': Real(0., 1.)})),
                                  ph('StoichSolid', 'bulk', Const(None)),
                                  ph('InteractingInterface', 'terrace', DictOf({'RU(S)': Real(0., 1.)})),
                                  ph('InteractingInterface', 'step', Const(None))]), units=UNITS()),
         ensures=[('one-entry-per-phase-with-its-initial-state',
                   DUMPED + ' == {"phases": {"gas": {"name": "gas", "initial_state": "\\"H2:{}, N2:{}\\"".format('
                   'phases[0].initial_state["H2"], phases[0].initial_state["N2"])}, "bulk": {"name": "bulk"}, '
                   '"surfaces": [{"name": "terrace", "initial_state": "\\"RU(S):{}\\"".format(phases[2].initial_state["RU(S)"])}, '
                   '{"name": "step"}]}}')],
         options=PLAIN, cross_check=False)
contract(IO + 'write_yaml', P, label='phases-dict-passthrough',
         args=dict(phases=DictOf({'gas': ListOf([DictOf({'name': Const('gas')})]),
                                  'surfaces': ListOf([DictOf({'name': Const('terrace')})])})),
         ensures=[(DUMPED + ' == {"phases": {"gas": {"name": "gas"}, "surfaces": [{"name": "terrace"}]}}'),
                  ('argument-not-modified', 'phases == old(phases)')], cross_check=False)

# ---- phases as a data structure: abstract view = the list of species; every operation is specified on the whole view
# ---- and on the OTHER phases (frame) --------------------------------------------------------------------------------
CPH = 'pmutt.cantera.phase:Phase'
II = 'pmutt.omkm.phase:InteractingInterface'


def member(name, elements):
    return Fields('pmutt.empirical.nasa:Nasa', name=Const(name), elements=Const(elements), phase=Const(None), n_sites=Const(None))


def phase3():
    return New(CPH, name=Const('p'), species=ListOf([member('A', {'H': 2}), member('B', {'H': 1, 'O': 1}), member('C', {'N': 2})]))


def other():
    return New(CPH, name=Const('q'), species=ListOf([member('X', {'Ar': 1})]))


VIEW = '[s.name for s in self.species]'
FRAME = ('other-phases-untouched', '[s.name for s in q.species] == ["X"] and q.species[0].phase is q')
contract(CPH + '.__init__', P, label='species-given',
         args=dict(self=Fields(CPH), name=Const('p'), species=ListOf([member('A', {'H': 2}), member('B', {'O': 2})])),
         ensures=[('view', VIEW + ' == ["A", "B"]'), ('members-know-their-phase', 'all(s.phase is self for s in self.species)'),
                  ('names', 'self.species_names == ["A", "B"]'), ('elements-are-the-union', 'sorted(self.elements) == ["H", "O"]')],
         cross_check=False)
contract(CPH + '.__init__', P, label='no-species', args=dict(self=Fields(CPH), name=Const('p')),
         ensures=[('empty-view', 'self.species == []'), ('no-elements', 'len(self.elements) == 0')], cross_check=False)
OBSERVED = ['sorted(self.elements) == ["H", "N", "O"]', 'self.species_names == ["A", "B", "C"]']   # the phase has been read (written) before
contract(CPH + '.append_species', P, args=dict(self=phase3(), val=member('D', {'O': 2})), ghost=dict(q=other()), requires=OBSERVED,
         ensures=[('view', VIEW + ' == ["A", "B", "C", "D"]'), ('member-knows-its-phase', 'val.phase is self'),
                  ('elements-follow', 'sorted(self.elements) == ["H", "N", "O"]'), FRAME], cross_check=False)
contract(CPH + '.extend_species', P, args=dict(self=phase3(), val=ListOf([member('D', {'O': 2}), member('E', {'C': 1})])), ghost=dict(q=other()),
         requires=OBSERVED,
         ensures=[('view', VIEW + ' == ["A", "B", "C", "D", "E"]'), ('members-know-their-phase', 'all(s.phase is self for s in val)'),
                  ('elements-follow', 'sorted(self.elements) == ["C", "H", "N", "O"]'), FRAME], cross_check=False)
for i, rest, els in ((0, ['B', 'C'], ['H', 'N', 'O']), (1, ['A', 'C'], ['H', 'N']), (2, ['A', 'B'], ['H', 'O'])):
    contract(CPH + '.pop_species', P, label='i=%d' % i, args=dict(self=phase3(), i=Const(i)), ghost=dict(q=other()), requires=OBSERVED,
             ensures=[('view', VIEW + ' == %r' % rest), ('elements-follow', 'sorted(self.elements) == %r' % els), FRAME], cross_check=False)
    contract(CPH + '.remove_species', P, label='name=%s' % 'ABC'[i], args=dict(self=phase3(), name=Const('ABC'[i])), ghost=dict(q=other()),
             requires=OBSERVED,
             ensures=[('view', VIEW + ' == %r' % rest), ('elements-follow', 'sorted(self.elements) == %r' % els), FRAME], cross_check=False)
contract(CPH + '.remove_species', P, label='absent-name', args=dict(self=phase3(), name=Const('Z')), raises={'ValueError': 'True'},
         cross_check=False)
contract(CPH + '.clear_species', P, args=dict(self=phase3()), ghost=dict(q=other()), requires=OBSERVED,
         ensures=[('view', 'self.species == []'), ('elements-follow', 'len(self.elements) == 0'), FRAME], cross_check=False)
contract(CPH + '.copy_species', P, args=dict(self=phase3()),
         ensures=[('same-members', '[s.name for s in result] == ["A", "B", "C"]'), ('not-the-phase-own-list', 'result is not self.species')],
         cross_check=False)
contract(CPH + '.index_species', P, args=dict(self=phase3(), name=Const('C')), ensures=['result == 2'], cross_check=False)
# phases populated incrementally: two interfaces created without species do not see each other's members
contract(CPH + '.append_species', P, label='two-interfaces-built-empty',
         args=dict(self=New(II, name=Const('a'), site_density=Real(1e-10, 1e-8), phases=Const([])), val=member('D', {'O': 2})),
         ghost=dict(q=New(II, name=Const('b'), site_density=Real(1e-10, 1e-8), phases=Const([]))),
         ensures=[('view', VIEW + ' == ["D"]'), ('the-other-interface-stays-empty', 'q.species == []')], cross_check=False)

# ---- phase emitters ---------------------------------------------------------------------------------------------------
OPH = 'pmutt.omkm.phase:'
SR = 'pmutt.omkm.reaction:SurfaceReaction'
UNITS2 = lambda: New('pmutt.omkm.units:Units', length=Const('m'), quantity=Const('molec'), act_energy=Const('J/mol'),
                     mass=Const('kg'), energy=Const('J'), pressure=Const('Pa'))


def members3():
    return ListOf([member('A', {'H': 2}), member('B', {'H': 1, 'O': 1}), member('C', {'N': 2})])


def rx_ids(*ids):
    return ListOf([Fields(SR, _id=Const(i)) for i in ids])


def gas_rxs(*ids):
    """real reactions among species that belong to no other phase"""
    return ListOf([New(SR, id=Const(i), reactants=ListOf([member('A', {'H': 2})]), reactants_stoich=ListOf([Const(1.)]),
                       products=ListOf([member('B', {'H': 2})]), products_stoich=ListOf([Const(1.)])) for i in ids])


for has_rx in (False, True):
    kw = dict(reactions=gas_rxs('r_0001', 'r_0002')) if has_rx else {}
    contract(OPH + 'IdealGas.to_omkm_yaml', P, label='reactions=%s' % has_rx,
             args=dict(self=New(OPH + 'IdealGas', name=Const('gas'), species=members3(), **kw)),
             ensures=[('lists-exactly-its-species', 'result["species"] == ["A", "B", "C"] and result["name"] == "gas"'),
                      ('elements-are-the-union', 'sorted(result["elements"]) == ["H", "N", "O"]'),
                      ('model', 'result["thermo"] == "ideal-gas" and result["kinetics"] == "gas" and result["reactions"] == %r'
                       % ('all' if has_rx else 'none')),
                      ('nothing-else', 'spec.omkm.keys(result) == ["elements", "kinetics", "name", "reactions", "species", "thermo"]')],
             cross_check=False)
contract(OPH + 'StoichSolid.to_omkm_yaml', P, args=dict(self=New(OPH + 'StoichSolid', name=Const('bulk'), species=members3(), density=Real(1., 25.))),
         ensures=[('lists-exactly-its-species', 'result["species"] == ["A", "B", "C"] and result["name"] == "bulk"'),
                  ('elements-are-the-union', 'sorted(result["elements"]) == ["H", "N", "O"]'),
                  ('nothing-else', 'spec.omkm.keys(result) == ["elements", "name", "species", "thermo"]')], cross_check=False)
SDEN = "self.site_density * const.convert_unit(initial='mol', final=units.quantity) / const.convert_unit(initial='cm2', final=units.length + '2')"
for ulabel, U in (('mol-cm', UNITS), ('molec-m', UNITS2)):
    for inter, rxs in ((False, False), (True, True)):
        kw = {}
        if inter:
            kw['interactions'] = ListOf([Fields('pmutt.mixture.cov:PiecewiseCovEffect', name=Const('i_0001'))])
        if rxs:
            kw['reactions'] = rx_ids('r_0001', 'r_0002')
        contract(OPH + 'InteractingInterface.to_omkm_yaml', P, label='%s,interactions=%s,reactions=%s' % (ulabel, inter, rxs),
                 args=dict(self=New(II, name=Const('terrace'), species=members3(), site_density=Real(1e-10, 1e-8), phases=Const(['gas', 'bulk']), **kw),
                           units=U()),
                 requires=['self.site_density > 0'],
                 ensures=[('lists-exactly-its-species', 'result["species"] == ["A", "B", "C"] and result["name"] == "terrace"'),
                          ('elements-are-the-union', 'sorted(result["elements"]) == ["H", "N", "O"]'),
                          ('site-density-in-the-requested-units',
                           'result["site-density"] == spec.omkm.with_unit(%s, "_quantity/_length^2", units)' % SDEN),
                          ('declares-interactions-and-reactions',
                           'result["interactions"] == %r and result["reactions"] == %r' % (
                               'declared-species' if inter else 'none', 'declared-species' if rxs else 'none')),
                          ('nothing-else', 'spec.omkm.keys(result) == ["beps", "elements", "interactions", "kinetics", "name", "reactions", '
                                           '"site-density", "species", "thermo"]')],
                 options=PLAIN, cross_check=False)
# CTI directives of the phases
CTI_TOK = lambda field: 'sorted(result.split(\'%s="\')[1].split(\'"\')[0].split(" "))' % field
contract('pmutt.cantera.phase:IdealGas.to_cti', P, args=dict(self=New(OPH + 'IdealGas', name=Const('gas'), species=members3(),
                                                                 reactions=gas_rxs('r_0001', 'r_0002', 'r_0003'))),
         ensures=[('directive', 'result.startswith(\'ideal_gas(name="gas",\\n\') and result.endswith(")\\n")'),
                  ('species', '\'species="A B C",\' in result'), ('elements', CTI_TOK('elements') + ' == ["H", "N", "O"]'),
                  ('reactions-as-id-range', '\'reactions=["r_0001 to r_0003"]\' in result')], cross_check=False)
contract('pmutt.cantera.phase:StoichSolid.to_cti', P,
         args=dict(self=New(OPH + 'StoichSolid', name=Const('bulk'), species=members3(), density=Real(1., 25.)), units=UNITS2()),
         requires=['self.density > 0'],
         ensures=[('directive', 'result.startswith(\'stoichiometric_solid(name="bulk",\\n\') and result.endswith(")\\n")'),
                  ('species', '\'species="A B C",\' in result'), ('elements', CTI_TOK('elements') + ' == ["H", "N", "O"]'),
                  ('density-in-the-requested-units',
                   "result.split('density=')[1] == '{})\\n'.format(self.density * const.convert_unit(initial='g', final='kg') / "
                   "const.convert_unit(initial='cm3', final='m3'))")],
         options=PLAIN, cross_check=False)
contract(II + '.to_cti', P,
         args=dict(self=New(II, name=Const('terrace'), species=members3(), site_density=Real(1e-10, 1e-8), phases=Const(['gas', 'bulk']),
                            reactions=rx_ids('r_0001', 'r_0002'),
                            interactions=ListOf([Fields('pmutt.mixture.cov:PiecewiseCovEffect', name=Const('i_0001'))])), units=UNITS2()),
         requires=['self.site_density > 0'],
         ensures=[('directive', 'result.startswith(\'interacting_interface(name="terrace",\\n\') and result.endswith(")\\n")'),
                  ('species', '\'species="A B C",\' in result'), ('elements', CTI_TOK('elements') + ' == ["H", "N", "O"]'),
                  ('adjacent-phases', '\'phases="gas bulk",\' in result'),
                  ('site-density-in-the-requested-units',
                   "result.split('site_density=')[1].split(',\\n')[0] == '{}'.format(%s)" % SDEN),
                  ('interactions-and-reactions-as-id-ranges',
                   '\'interactions=["i_0001"],\' in result and \'reactions=["r_0001 to r_0002"]\' in result')],
         options=PLAIN, cross_check=False)

# ---- species emitters: name, composition, occupancy, temperature ranges, coefficients ----------------------------------
NS = 'pmutt.empirical.nasa:'
SH = 'pmutt.empirical.shomate:Shomate'
for sites in (None, 2):
    nasa7 = New(NS + 'Nasa', name=Const('H2O'), T_low=Real(100., 300.), T_mid=Real(500., 1500.), T_high=Real(2000., 6000.),
                a_low=RealVec(7, -5., 5.), a_high=RealVec(7, -5., 5.), elements=Const({'H': 2, 'O': 1}), n_sites=Const(sites))
    extra = [('occupancy', 'result["sites"] == 2')] if sites else []
    keys = sorted(['composition', 'name', 'thermo'] + (['sites'] if sites else []))
    contract(NS + 'Nasa.to_omkm_yaml', P, label='sites=%s' % sites, args=dict(self=nasa7),
             ensures=[('name-and-composition', 'result["name"] == "H2O" and result["composition"] == {"H": 2, "O": 1}'),
                      ('ranges', 'result["thermo"]["model"] == "NASA7" and result["thermo"]["temperature-ranges"] == [self.T_low, self.T_mid, self.T_high]'),
                      ('coefficients', 'result["thermo"]["data"] == [list(self.a_low), list(self.a_high)]'),
                      ('nothing-else', 'spec.omkm.keys(result) == %r' % keys)] + extra, cross_check=False)
    sho = New(SH, name=Const('H2O'), T_low=Real(100., 300.), T_high=Real(2000., 6000.), a=RealVec(8, -5., 5.),
              elements=Const({'H': 2, 'O': 1}), n_sites=Const(sites))
    contract(SH + '.to_omkm_yaml', P, label='sites=%s' % sites, args=dict(self=sho),
             ensures=[('name-and-composition', 'result["name"] == "H2O" and result["composition"] == {"H": 2, "O": 1}'),
                      ('ranges', 'result["thermo"]["model"] == "Shomate" and result["thermo"]["temperature-ranges"] == [self.T_low, self.T_high]'),
                      ('coefficients-A-to-G', 'result["thermo"]["data"] == [list(self.a)[:7]]'),
                      ('nothing-else', 'spec.omkm.keys(result) == %r' % keys)] + extra, cross_check=False)
    n9 = New(NS + 'Nasa9', name=Const('H2O'), elements=Const({'H': 2, 'O': 1}), n_sites=Const(sites),
             nasas=ListOf([New(NS + 'SingleNasa9', T_low=Const(1000.), T_high=Const(6000.), a=RealVec(9, -5., 5.)),
                           New(NS + 'SingleNasa9', T_low=Const(200.), T_high=Const(1000.), a=RealVec(9, -5., 5.))]))
    contract(NS + 'Nasa9.to_omkm_yaml', P, label='sites=%s' % sites, args=dict(self=n9),
             ensures=[('name-and-composition', 'result["name"] == "H2O" and result["composition"] == {"H": 2, "O": 1}'),
                      ('ranges-ascending', 'result["thermo"]["model"] == "NASA9" and result["thermo"]["temperature-ranges"] == [200., 1000., 6000.]'),
                      ('coefficients-in-the-order-of-the-ranges', 'result["thermo"]["data"] == [list(self.nasas[1].a), list(self.nasas[0].a)]'),
                      ('nothing-else', 'spec.omkm.keys(result) == %r' % keys)] + extra, cross_check=False)
SCI = lambda x: '"{: 2.8E}".format(%s)' % x
contract(NS + 'Nasa.to_cti', P,
         args=dict(self=New(NS + 'Nasa', name=Const('H2O'), T_low=Const(200.), T_mid=Const(1000.), T_high=Const(3000.),
                            a_low=RealVec(7, 0.001, 5.), a_high=RealVec(7, 0.001, 5.), elements=Const({'H': 2, 'O': 1}), n_sites=Const(2))),
         requires=['all(x > 0.001 for x in self.a_low)', 'all(x > 0.001 for x in self.a_high)', 'all(x < 1000 for x in self.a_low)',
                   'all(x < 1000 for x in self.a_high)'],
         ensures=[('directive', 'result.startswith(\'species(name="H2O", atoms="H:2 O:1", size=2,\\n\')'),
                  ('ranges', '"NASA([200.0, 1000.0]," in result and "NASA([1000.0, 3000.0]," in result'),
                  ('coefficients-low', 'result.split("NASA([200.0, 1000.0],")[1].split("])")[0].replace("\\n", "").replace("[", "").replace(" ", "")'
                                       '.split(",") == [%s.replace(" ", "") for x in self.a_low]' % SCI('x')),
                  ('coefficients-high', 'result.split("NASA([1000.0, 3000.0],")[1].split("])")[0].replace("\\n", "").replace("[", "").replace(" ", "")'
                                        '.split(",") == [%s.replace(" ", "") for x in self.a_high]' % SCI('x'))],
         cross_check=False)

# ---- lateral interactions -----------------------------------------------------------------------------------------
COV = 'pmutt.mixture.cov:PiecewiseCovEffect'
FACTOR = "const.convert_unit(initial='kcal', final=units.energy) / const.convert_unit(initial='mol', final=units.quantity)"
for ulabel, U, factor in (('kcal/mol', UNITS, '1'),
                          ('J/mol', lambda: New('pmutt.omkm.units:Units', energy=Const('J'), quantity=Const('mol')), FACTOR),
                          ('cal/molec', lambda: New('pmutt.omkm.units:Units'), FACTOR)):
    cov = New(COV, name_i=Const('N(S)'), name_j=Const('H(S)'), intervals=ListOf([Const(0.), Real(0.1, 0.9)]), slopes=RealList(2, -50., 50.),
              name=Const('i_0003'))
    contract(COV + '.to_omkm_yaml', P, label=ulabel, args=dict(self=cov, units=U()),
             ensures=[('members-and-id', 'result["species"] == ["N(S)", "H(S)"] and result["id"] == "i_0003"'),
                      ('thresholds', 'result["coverage-threshold"] == self.intervals'),
                      ('strength-in-the-requested-units',
                       'result["strength"] == [spec.omkm.with_unit(s * %s, "%s", units) for s in self.slopes]' % (factor, ulabel)),
                      ('nothing-else', 'spec.omkm.keys(result) == ["coverage-threshold", "id", "species", "strength"]')],
             options=PLAIN, cross_check=False)
    contract(COV + '.to_cti', P, label=ulabel, args=dict(self=cov, units=U()),
             ensures=[('directive', 'result.startswith(\'lateral_interaction("N(S) H(S)",\\n\') and result.endswith(\'id="i_0003")\')'),
                      ('thresholds', "result.split('coverage_thresholds=')[1].split(',\\n')[0] == '{}'.format(self.intervals)"),
                      ('strengths-in-the-requested-units',
                       "result.split('strengths=')[1].split(',\\n')[0] == '{}'.format([s * %s for s in self.slopes])" % factor)],
             options=PLAIN, cross_check=False)

# ---- surface reactions: equation, id, rate parameters equal to the model's values in the requested units -------------
OGET = ['get_q', 'get_HoRT', 'get_SoR', 'get_GoRT', 'get_EoRT']
TERR = Shared('terrace', New(II, name=Const('terrace'), site_density=Real(1e-10, 1e-8), phases=Const([])))


def osp(name, gas=False):
    return Shared('osp:' + name, Stub(name, OGET, phase=(Const('gas') if gas else TERR), elements={'H': 1}))


def srx(reactants, products, ts=None, **kw):
    d = dict(reactants=ListOf([osp(n, g) for n, _nu, g in reactants]), reactants_stoich=ListOf([Const(float(nu)) for _n, nu, _g in reactants]),
             products=ListOf([osp(n, g) for n, _nu, g in products]), products_stoich=ListOf([Const(float(nu)) for _n, nu, _g in products]))
    if ts:
        d['transition_state'] = ListOf([ts if isinstance(ts, Spec) else osp(ts)])
        d['transition_state_stoich'] = ListOf([Const(1.)])
    d.update(kw)
    return New(SR, **d)


S_ADS = lambda **kw: srx([('H2', 1, True), ('RU(S)', 2, False)], [('H(S)', 2, False)], is_adsorption=Const(True),
                         sticking_coeff=Real(0.01, 1.), **kw)
S_ADS_SITE_FIRST = lambda **kw: srx([('RU(S)', 2, False), ('H2', 1, True)], [('H(S)', 2, False)], is_adsorption=Const(True), **kw)
S_SURF = lambda **kw: srx([('NH(S)', 1, False), ('RU(S)', 1, False)], [('N(S)', 1, False), ('H(S)', 1, False)], ts='TS1(S)', **kw)
S_SURF_NOTS = lambda **kw: srx([('NH(S)', 1, False), ('RU(S)', 1, False)], [('N(S)', 1, False), ('H(S)', 1, False)], **kw)
TT = Real(300., 1000.)
for ulabel, U in (('kcal-mol-cm', UNITS), ('J-molec-m', UNITS2)):
    AU = "units.quantity + '/' + units.length + '2'"
    for label, f, eq in (('with-TS', S_SURF, 'NH(S) + RU(S) <=> N(S) + H(S)'), ('no-TS', S_SURF_NOTS, 'NH(S) + RU(S) <=> N(S) + H(S)')):
        contract(SR + '.to_omkm_yaml', P, label='%s,%s' % (label, ulabel),
                 args=dict(self=f(id=Const('r_0007'), beta=Real(0., 2.)), T=TT, units=U()), ghost=dict(terrace=TERR),
                 requires=['T > 0', 'terrace.site_density > 0'],
                 ensures=[('equation-and-id', 'result["equation"] == %r and result["equation"] == spec.omkm.equation(self) and result["id"] == "r_0007"' % eq),
                          ('rate-constant',
                           'result["rate-constant"] == {"A": self.get_A(T=T, P=const.P0("bar"), include_entropy=False, units=%s), "b": self.beta, '
                           '"Ea": spec.omkm.with_unit(self.get_G_act(units=units.act_energy, T=T, P=const.P0("bar")), "_act_energy", units)}' % AU),
                          ('nothing-else', 'spec.omkm.keys(result) == ["equation", "id", "rate-constant"]')],
                 options=PLAIN, cross_check=False)
    contract(SR + '.to_omkm_yaml', P, label='adsorption,%s' % ulabel,
             args=dict(self=S_ADS(id=Const('r_0001'), beta=Real(0., 2.), use_motz_wise=Bool()), T=TT, units=U()), ghost=dict(terrace=TERR),
             requires=['T > 0', 'terrace.site_density > 0'],
             ensures=[('equation-and-id', 'result["equation"] == "H2 + 2 RU(S) <=> 2 H(S)" and result["id"] == "r_0001"'),
                      ('sticking-coefficient',
                       'result["sticking-coefficient"] == {"A": self.sticking_coeff, "b": self.beta, '
                       '"Ea": spec.omkm.with_unit(self.get_H_act(units=units.act_energy, T=T, P=const.P0("bar")), "_act_energy", units)}'),
                      ('sticking-species-and-Motz-Wise', 'result["sticking-species"] == "H2" and result["Motz-Wise"] == self.use_motz_wise'),
                      ('nothing-else', 'spec.omkm.keys(result) == ["Motz-Wise", "equation", "id", "sticking-coefficient", "sticking-species"]')],
             options=PLAIN, cross_check=False)
    contract(SR + '.to_omkm_yaml', P, label='user-A-and-Ea,%s' % ulabel,
             args=dict(self=S_SURF(id=Const('r_0002'), A=Real(1e10, 1e20), Ea=Real(0., 50.), beta=Real(0., 2.)), T=TT, units=U()),
             requires=['T > 0'],
             ensures=[('given-values-win',
                       'result["rate-constant"] == {"A": self.A, "b": self.beta, '
                       '"Ea": spec.omkm.with_unit(const.convert_unit(self.Ea, initial="kcal/mol", final=units.act_energy), "_act_energy", units)}')],
             options=PLAIN, cross_check=False)
contract(SR + '.to_omkm_yaml', P, label='adsorption-site-written-first',
         args=dict(self=S_ADS_SITE_FIRST(id=Const('r_0001')), T=TT, units=UNITS()), ghost=dict(terrace=TERR),
         requires=['T > 0', 'terrace.site_density > 0'],
         ensures=[('sticking-species-is-the-gas-reactant', 'result["sticking-species"] == "H2"')], options=PLAIN, cross_check=False)

# ---- CTI form of the reactions ---------------------------------------------------------------------------------------------
E5 = lambda x: '"{: .5e}".format(%s)' % x
for ulabel, U in (('kcal-mol-cm', UNITS), ('J-molec-m', UNITS2)):
    AU = "units.quantity + '/' + units.length + '2'"
    contract(SR + '.to_cti', P, label='with-TS,%s' % ulabel,
             args=dict(self=S_SURF(id=Const('r_0007'), beta=Real(0., 2.)), T=TT, units=U()), ghost=dict(terrace=TERR),
             requires=['T > 0', 'terrace.site_density > 0'],
             ensures=[('directive-equation-id',
                       'result.startswith(\'surface_reaction("NH(S) + RU(S) <=> N(S) + H(S)",\\n\') and result.endswith(\',\\n                 id="r_0007")\')'),
                      ('A-b-Ea', "result.split('[')[1].split(']')[0] == %s + ', {}, '.format(self.beta) + %s" % (
                          E5('self.get_A(T=T, P=const.P0("bar"), include_entropy=False, units=%s)' % AU),
                          E5('self.get_G_act(units=units.act_energy, T=T, P=const.P0("bar"))')))],
             options=PLAIN, cross_check=False)
    contract(SR + '.to_cti', P, label='adsorption,%s' % ulabel,
             args=dict(self=S_ADS(id=Const('r_0001'), beta=Real(0., 2.)), T=TT, units=U()), ghost=dict(terrace=TERR),
             requires=['T > 0', 'terrace.site_density > 0'],
             ensures=[('directive-equation-id',
                       'result.startswith(\'surface_reaction("H2 + 2 RU(S) <=> 2 H(S)",\\n\') and result.endswith(\',\\n                 id="r_0001")\')'),
                      ('stick-b-Ea', "result.split('stick(')[1].split(')')[0] == %s + ', {}, '.format(self.beta) + %s" % (
                          E5('self.sticking_coeff'), E5('self.get_H_act(units=units.act_energy, T=T, P=const.P0("bar"))')))],
             options=PLAIN, cross_check=False)
contract(SR + '.to_cti', P, label='no-id', args=dict(self=S_SURF(beta=Real(0., 2.), A=Real(1e10, 1e20), Ea=Real(0., 50.)), T=TT, units=UNITS()),
         requires=['T > 0'],
         ensures=[('no-id-clause', '"id=" not in result and result.endswith("])")'),
                  ('given-A-and-Ea', "result.split('[')[1].split(']')[0] == %s + ', {}, '.format(self.beta) + %s" % (
                      E5('self.A'), E5('const.convert_unit(self.Ea, initial="kcal/mol", final=units.act_energy)')))],
         options=PLAIN, cross_check=False)

# ---- pre-exponential factor of a surface reaction --------------------------------------------------------------------------
for label, f, nsurf in (('2-surface-reactants', S_SURF_NOTS, 2), ('adsorption-2-sites', S_ADS, 2)):
    contract(SR + '.get_A', P, label=label, args=dict(self=f(), T=TT, include_entropy=Const(False), units=Const('molec/cm2'), sden_operation=Const('min')),
             ghost=dict(terrace=TERR), requires=['T > 0', 'terrace.site_density > 0'],
             ensures=[('kB/h-over-site-density^(n_surf-1)',
                       "result == const.kb('J/K') / const.h('J s') / (terrace.site_density * const.convert_unit(initial='mol', final='molec'))"
                       " ** %d" % (nsurf - 1))])
contract(SR + '.get_A', P, label='user-value', args=dict(self=S_SURF(A=Real(1e10, 1e20)), T=TT), requires=['T > 0'], ensures=['result == self.A'])
contract(SR + '.get_A', P, label='no-site', args=dict(self=srx([('H2', 1, True)], [('H', 2, True)]), T=TT), requires=['T > 0'],
         raises={'ValueError': 'True'}, cross_check=False)

# ---- BEP relations -------------------------------------------------------------------------------------------------------
OBEP = 'pmutt.omkm.reaction:BEP'


def obep(direction, syn=(), cle=()):
    return New(OBEP, name=Const('N2_dissoc'), slope=Real(0., 1.), intercept=Real(0., 60.), direction=Const(direction),
               descriptor=Const('delta_H'), synthesis_reactions=rx_ids(*syn), cleavage_reactions=rx_ids(*cle))


for ulabel, U in (('kcal/mol', UNITS), ('J/mol', UNITS2)):
    contract(OBEP + '.to_omkm_yaml', P, label='cleavage,' + ulabel,
             args=dict(self=obep('cleavage', cle=('r_0002', 'r_0003', 'r_0005')), units=U()),
             ensures=[('members-and-parameters',
                       'result == {"id": "N2_dissoc", "slope": self.slope, "intercept": spec.omkm.with_unit(const.convert_unit(self.intercept, '
                       '"kcal/mol", units.act_energy), "_act_energy", units), "direction": "cleavage", '
                       '"cleavage-reactions": ["\\"r_0002 to r_0003\\"", "\\"r_0005\\""]}')],
             options=PLAIN, cross_check=False)
    contract(OBEP + '.to_cti', P, label='synthesis,' + ulabel,
             args=dict(self=obep('synthesis', syn=('r_0001',)), units=U()),
             ensures=[('directive',
                       'result == \'bep(id="N2_dissoc",\\n    slope={},\\n    intercept={},\\n    direction="synthesis",\\n    '
                       'cleavage_reactions=[],\\n    synthesis_reactions=["r_0001"])\\n\'.format(self.slope, const.convert_unit(self.intercept, '
                       '"kcal/mol", units.act_energy))')],
             options=PLAIN, cross_check=False)

# ---- whole files: every object once, in its section, unique ids ------------------------------------------------------------
def plain_nasa(name, sites=None):
    return New(NS + 'Nasa', name=Const(name), T_low=Const(200.), T_mid=Const(1000.), T_high=Const(3000.),
               a_low=NpConst([3.5, 1e-3, -2e-7, 0., 0., -1e4, 5.]), a_high=NpConst([3.1, 2e-3, -1e-7, 0., 0., -9e3, 6.]),
               elements=Const({'H': 2}), n_sites=Const(sites))


def cov_i(name):
    return New(COV, name_i=Const('N(S)'), name_j=Const('H(S)'), intervals=ListOf([Const(0.), Real(0.1, 0.9)]), slopes=RealList(2, -50., 50.),
               name=Const(name))


def model_args():
    return dict(phases=ListOf([New(OPH + 'IdealGas', name=Const('gas'), species=ListOf([member('H2', {'H': 2})])), TERR]),
                species=ListOf([plain_nasa('H2'), plain_nasa('H(S)', 1)]),
                reactions=ListOf([S_SURF_NOTS(beta=Real(0., 2.), A=Real(1e10, 1e20), Ea=Real(0., 50.)),
                                  S_SURF(id=Const('r_0000'), beta=Real(0., 2.), A=Real(1e10, 1e20), Ea=Real(0., 50.)),
                                  S_ADS(beta=Real(0., 2.), Ea=Real(0., 50.))]),
                lateral_interactions=ListOf([cov_i(None), cov_i('i_0000')]), units=UNITS(), T=TT)


DUMP = lambda k: 'ext_call("yaml.dump", %d)["data"]' % k
contract(IO + 'write_thermo_yaml', P, label='model', args=model_args(), ghost=dict(terrace=TERR),
         requires=['T > 0', 'terrace.site_density > 0'],
         ensures=[('ids-unique-and-user-ids-kept',
                   'spec.omkm.distinct([r.id for r in reactions]) and reactions[1].id == "r_0000" and all(r.id is not None for r in reactions) and '
                   'spec.omkm.distinct([i.name for i in lateral_interactions]) and lateral_interactions[1].name == "i_0000" and '
                   'lateral_interactions[0].name is not None'),
                  ('sections-in-order', '[list(%s.keys()) for k in (0, 1, 2, 3, 4)] == [["units"], ["phases"], ["species"], ["reactions"], ["interactions"]]'
                   .replace('%s', 'ext_call("yaml.dump", k)["data"]')),
                  ('units', DUMP(0) + '["units"] == units.to_omkm_yaml()'),
                  ('each-phase-once', DUMP(1) + '["phases"] == [phases[0].to_omkm_yaml(units=units), phases[1].to_omkm_yaml(units=units)]'),
                  ('each-species-once', DUMP(2) + '["species"] == [s.to_omkm_yaml() for s in species]'),
                  ('each-reaction-once-at-the-requested-T', DUMP(3) + '["reactions"] == [r.to_omkm_yaml(units=units, T=T) for r in reactions]'),
                  ('each-interaction-once', DUMP(4) + '["interactions"] == [i.to_omkm_yaml(units=units) for i in lateral_interactions]')],
         options=PLAIN, cross_check=False)
contract(IO + 'write_cti', P, label='model', args=model_args(), ghost=dict(terrace=TERR),
         requires=['T > 0', 'terrace.site_density > 0'],
         ensures=[('ids-unique-and-user-ids-kept',
                   'spec.omkm.distinct([r.id for r in reactions]) and reactions[1].id == "r_0000" and all(r.id is not None for r in reactions) and '
                   'spec.omkm.distinct([i.name for i in lateral_interactions]) and lateral_interactions[1].name == "i_0000"'),
                  ('sections-in-order', 'spec.omkm.cti_titles(result) == ["UNITS", "PHASES", "SPECIES", "LATERAL INTERACTIONS", "REACTION OPTIONS", "REACTIONS"]'),
                  ('units', 'spec.omkm.cti_section(result, "UNITS") == units.to_cti()'),
                  ('each-phase-once', 'spec.omkm.cti_section(result, "PHASES") == phases[0].to_cti() + "\\n" + phases[1].to_cti(units=units)'),
                  ('each-species-once', 'spec.omkm.cti_section(result, "SPECIES") == species[0].to_cti() + "\\n" + species[1].to_cti()'),
                  ('each-interaction-once', 'spec.omkm.cti_section(result, "LATERAL INTERACTIONS") == '
                                            '"\\n".join([i.to_cti(units=units) for i in lateral_interactions])'),
                  ('each-reaction-once-at-the-requested-T', 'spec.omkm.cti_section(result, "REACTIONS") == '
                                                            '"\\n".join([r.to_cti(units=units, T=T) for r in reactions])'),
                  ('motz-wise-switch', 'spec.omkm.cti_section(result, "REACTION OPTIONS") == "disable_motz_wise()\\n"')],
         options=PLAIN, cross_check=False)


# a model whose reactions share Bronsted-Evans-Polanyi relations, one of them unnamed
BEP1 = Shared('bep1', New(OBEP, name=Const('N2_dissoc'), slope=Real(0., 1.), intercept=Real(0., 60.), direction=Const('cleavage'),
                          descriptor=Const('delta_H')))
BEP2 = Shared('bep2', New(OBEP, name=Const(None), slope=Real(0., 1.), intercept=Real(0., 60.), direction=Const('cleavage'),
                          descriptor=Const('delta_H')))


def bep_rx(bep, **kw):
    return srx([('NH(S)', 1, False), ('RU(S)', 1, False)], [('N(S)', 1, False), ('H(S)', 1, False)], ts=bep, direction=Const('cleavage'),
               A=Real(1e10, 1e20), Ea=Real(0., 50.), beta=Real(0., 2.), **kw)


def bep_model():
    return dict(reactions=ListOf([bep_rx(BEP1), bep_rx(BEP2, id=Const('r_0000')), bep_rx(BEP1)]), units=UNITS(), T=TT)


contract(IO + 'write_thermo_yaml', P, label='with-BEPs', args=bep_model(), ghost=dict(b1=BEP1, b2=BEP2), requires=['T > 0'],
         ensures=[('ids-unique', 'spec.omkm.distinct([r.id for r in reactions]) and reactions[1].id == "r_0000"'),
                  ('beps-named-and-distinct', 'b1.name == "N2_dissoc" and b2.name is not None and b2.name != b1.name'),
                  ('sections-in-order', '[list(ext_call("yaml.dump", k)["data"].keys()) for k in (0, 1, 2)] == [["units"], ["reactions"], ["beps"]]'),
                  ('each-bep-once-with-its-members',
                   DUMP(2) + '["beps"] == [b1.to_omkm_yaml(units=units), b2.to_omkm_yaml(units=units)] and '
                   'spec.ids.denotes_exactly(' + DUMP(2) + '["beps"][0]["cleavage-reactions"], [reactions[0].id, reactions[2].id]) and '
                   'spec.ids.denotes_exactly(' + DUMP(2) + '["beps"][1]["cleavage-reactions"], [reactions[1].id])')],
         options=PLAIN, cross_check=False)
contract(IO + 'write_cti', P, label='with-BEPs', args=bep_model(), ghost=dict(b1=BEP1, b2=BEP2), requires=['T > 0'],
         ensures=[('ids-unique', 'spec.omkm.distinct([r.id for r in reactions]) and reactions[1].id == "r_0000"'),
                  ('beps-named-and-distinct', 'b1.name == "N2_dissoc" and b2.name is not None and b2.name != b1.name'),
                  ('sections-in-order', 'spec.omkm.cti_titles(result) == ["UNITS", "REACTION OPTIONS", "REACTIONS", "BEP Relationships"]'),
                  ('each-bep-once', 'spec.omkm.cti_section(result, "BEP Relationships") == b1.to_cti(units=units) + "\\n" + b2.to_cti(units=units)')],
         options=PLAIN, cross_check=False)

# ---- CTI species directives are closed and use the directive of their polynomial family ------------------------------
POS9 = ['all(x > 0.001 for x in n.a) and all(x < 1000 for x in n.a)']
contract(NS + 'Nasa9.to_cti', P,
         args=dict(self=New(NS + 'Nasa9', name=Const('H2O'), elements=Const({'H': 2, 'O': 1}), n_sites=Const(None),
                            nasas=ListOf([New(NS + 'SingleNasa9', T_low=Const(200.), T_high=Const(1000.), a=RealVec(9, 0.001, 5.)),
                                          New(NS + 'SingleNasa9', T_low=Const(1000.), T_high=Const(6000.), a=RealVec(9, 0.001, 5.))]))),
         requires=['all(x > 0.001 for x in self.nasas[0].a)', 'all(x < 1000 for x in self.nasas[0].a)',
                   'all(x > 0.001 for x in self.nasas[1].a)', 'all(x < 1000 for x in self.nasas[1].a)'],
         ensures=[('directive-balanced', 'spec.omkm.balanced(result) and result.startswith(\'species(name="H2O", atoms="H:2 O:1",\')'),
                  ('nine-coefficient-directives', 'len(result.split("NASA9([")) == 3 and "NASA([" not in result'),
                  ('ranges', '"NASA9([200.0, 1000.0]," in result and "NASA9([1000.0, 6000.0]," in result'),
                  ('coefficients-first-range', 'result.split("NASA9([200.0, 1000.0],")[1].split("])")[0].replace("\\n", "").replace("[", "").replace(" ", "")'
                                               '.split(",") == [%s.replace(" ", "") for x in self.nasas[0].a]' % SCI('x'))],
         cross_check=False)
contract(SH + '.to_cti', P,
         args=dict(self=New(SH, name=Const('H2O'), T_low=Const(298.), T_high=Const(3000.), a=RealVec(8, 0.001, 5.),
                            elements=Const({'H': 2, 'O': 1}), n_sites=Const(2))),
         requires=['all(x > 0.001 for x in self.a)', 'all(x < 1000 for x in self.a)'],
         ensures=[('directive-balanced', 'spec.omkm.balanced(result) and result.startswith(\'species(name="H2O", atoms="H:2 O:1", size=2,\')'),
                  ('coefficients-A-to-G', 'result.split("Shomate([298.0, 3000.0],")[1].split("])")[0].replace("\\n", "").replace("[", "").replace(" ", "")'
                                          '.split(",") == [%s.replace(" ", "") for x in list(self.a)[:7]]' % SCI('x'))],
         cross_check=False)
contract(NS + 'Nasa.to_cti', P, label='balanced',
         args=dict(self=New(NS + 'Nasa', name=Const('H2O'), T_low=Const(200.), T_mid=Const(1000.), T_high=Const(3000.),
                            a_low=NpConst([3.5, 1e-3, -2e-7, 0., 0., -1e4, 5.]), a_high=NpConst([3.1, 2e-3, -1e-7, 0., 0., -9e3, 6.]),
                            elements=Const({'H': 2, 'O': 1}), n_sites=Const(None))),
         ensures=[('directive-balanced', 'spec.omkm.balanced(result)')], cross_check=False)

# ---- coexisting phase objects built from the SAME species objects: editing one leaves the members of the other alone --------
def shared_member(name, elements):
    return Shared('member:' + name, member(name, elements))


def phase_of(pname, names):
    els = {'A': {'H': 2}, 'B': {'H': 1, 'O': 1}, 'C': {'N': 2}}
    return New(CPH, name=Const(pname), species=ListOf([shared_member(n, els[n]) for n in names]))


for op, args, view in (('remove_species', dict(name=Const('B')), ['A', 'C']), ('pop_species', dict(i=Const(0)), ['B', 'C']),
                       ('clear_species', dict(), [])):
    # `q` (a ghost, built first) and `self` hold the same species objects; their back references point to the phase built last
    contract(CPH + '.' + op, P, label='species-shared-with-another-phase', args=dict(self=phase_of('scratch', 'ABC'), **args),
             ghost=dict(q=phase_of('terrace', 'ABC')),
             requires=['all(s.phase is self for s in q.species)'],
             ensures=[('view', VIEW + ' == %r' % view),
                      ('members-of-the-other-phase-untouched',
                       '[s.name for s in q.species] == ["A", "B", "C"] and all(s.phase is self for s in q.species)')],
             cross_check=False)

# ---- ids the range notation cannot carry verbatim (five-digit zero-padded, signed): the phase must not list other ids ---------
for ids in (('r_00001', 'r_00002', 'r_00003'), ('r_+001',), ('r_0001', 'r_00002')):
    contract(II + '.to_cti', P, label='reaction-ids=%s' % ','.join(ids),
             args=dict(self=New(II, name=Const('terrace'), species=members3(), site_density=Real(1e-10, 1e-8), phases=Const(['gas', 'bulk']),
                                reactions=gas_rxs(*ids)), units=UNITS()),
             requires=['self.site_density > 0'],
             ensures=[('lists-the-ids-verbatim-if-it-accepts-them',
                       'spec.ids.denotes_exactly(pm.cantera._get_omkm_range(objs=self.reactions, format="list"), %r)' % (list(ids),))],
             may_raise=('ValueError',), options=PLAIN, cross_check=False)
    contract(OBEP + '.to_omkm_yaml', P, label='member-ids=%s' % ','.join(ids),
             args=dict(self=New(OBEP, name=Const('N2_dissoc'), slope=Real(0., 1.), intercept=Real(0., 60.), direction=Const('cleavage'),
                                descriptor=Const('delta_H'), cleavage_reactions=gas_rxs(*ids)), units=UNITS()),
             ensures=[('lists-the-ids-verbatim-if-it-accepts-them', 'spec.ids.denotes_exactly(result["cleavage-reactions"], %r)' % (list(ids),))],
             may_raise=('ValueError',), options=PLAIN, cross_check=False)

# ---- shared helpers the writers go through: unit factors (also of a zero value), condition routing -------------------------
from contracts import helpers
helpers.install(P, 'kwargs', ('convert_unit', [('kcal/mol', ['J/mol', 'kJ/mol', 'cal/mol', 'kcal/mol', 'eV/molecule']),
                                               ('mol', ['mol', 'molec', 'molecule']), ('cm2', ['m2', 'cm2']),
                                               ('g', ['kg', 'g']), ('cm3', ['m3', 'cm3']),
                                               ('kcal', ['J', 'kJ', 'cal', 'kcal', 'eV'])]))

# ---- NASA-9 species with three and four intervals stored in any order: ranges ascending, every row with its own range --------
for order in ((1, 0, 2), (2, 0, 1), (0, 2, 1), (1, 2, 0), (2, 1, 0), (0, 1, 2), (2, 0, 3, 1)):
    bounds = [(200., 1000.), (1000., 6000.), (6000., 20000.), (20000., 30000.)][:len(order)]
    n9_ = New(NS + 'Nasa9', name=Const('H2O'), elements=Const({'H': 2, 'O': 1}),
              nasas=ListOf([New(NS + 'SingleNasa9', T_low=Const(bounds[j][0]), T_high=Const(bounds[j][1]), a=RealVec(9, -5., 5.)) for j in order]))
    pos = [order.index(j) for j in range(len(order))]
    contract(NS + 'Nasa9.to_omkm_yaml', P, label='intervals-stored-in-order-%s' % '-'.join(map(str, order)), args=dict(self=n9_),
             ensures=[('ranges-ascending', 'result["thermo"]["temperature-ranges"] == %r' % ([b[0] for b in bounds] + [bounds[-1][1]])),
                      ('coefficients-in-the-order-of-the-ranges',
                       'result["thermo"]["data"] == [%s]' % ', '.join('list(self.nasas[%d].a)' % k for k in pos))], cross_check=False)

# ---- a single operating value wins over the first of a multi-run list, for every such pair ------------------------------------
for single, multi, where, key, unit in (('T', 'multi_T', 'reactor', 'temperature', None), ('P', 'multi_P', 'reactor', 'pressure', '_pressure'),
                                        ('flow_rate', 'multi_flow_rate', 'inlet_gas', 'flow_rate', '_length3/_time')):
    val = single if unit is None else '%s(%s, %r, units)' % (WU, single, unit)
    contract(IO + 'write_yaml', P, label='single-%s-wins-over-%s' % (single, multi),
             args={single: R(300., 900.), multi: RealList(3, 300., 900.), 'units': UNITS()},
             ensures=[('the-single-value-is-written', DUMPED + '[%r][%r] == %s' % (where, key, val))], options=PLAIN, cross_check=False)
