"""C05 - thermdat files written by pMuTT read back to the same species
(pmutt/io/thermdat.py).  Lines are structured strings: species names and
element symbols are unknown words of given length, counts / coefficients /
temperatures are symbolic numbers in printed form (pvc/sstr.py)."""
import itertools
from pvc.dsl import *

P = 'C05'
LEVEL = 'other'
TH = 'pmutt.io.thermdat:'
NASA = 'pmutt.empirical.nasa:Nasa'
TRUSTED = ["'{: 2.8E}'.format(a) is 15 characters and float() of it is within 5e-9 relative of a (1e-99 <= |a| < 1e100 or a == 0)",
           "'%.1f' % T is the correctly rounded decimal with one fractional digit; '%d' % n is the decimal text of n",
           'str.find / split / replace / strip / slicing as re-implemented on structured strings (pvc/sstr.py)']
NAME_EXCL = ' \n\t\r\x0b\x0c!'
OPT = dict(concrete_number_lengths=True)


def nm(L, flags=()):
    return Token(L, L, alphabet='ABCDEFGHIJKLMNOPQRSTUVWXYZabcdefghijklmnopqrstuvwxyz0123456789()*_-',
                 excl=NAME_EXCL, may_contain=flags)


def sym(L):
    return Token(L, L, alphabet='ABCDEFGHIJKLMNOPQRSTUVWXYZabcdefghijklmnopqrstuvwxyz', excl=NAME_EXCL + '0123456789',
                 first_nondigit=True)


def count(digits):
    return Int(10 ** (digits - 1), 10 ** digits - 1, assume=True)


def species(name_len=4, elements=((1, 1),), notes=None, flags=(), coeff_lo=-1e3):
    """elements: ((symbol length, count digits), ...)"""
    # elements dict with symbolic-word keys is built through a stub of dict items
    el = DictOfTokens([(sym(sl), count(cd)) for sl, cd in elements])
    return Fields(NASA, name=nm(name_len, flags), phase=Const('G'), elements=el,
                  notes=Const(notes), T_low=Real(100., 999.), T_high=Real(1000., 9999.), T_mid=Real(100., 999.),
                  a_low=RealVec(7, coeff_lo, 1e3), a_high=RealVec(7, coeff_lo, 1e3))


class DictOfTokens(Spec):
    """dict {word: count} with symbolic-word keys (insertion ordered)"""

    def __init__(self, items):
        self.items = items

    def sym(self, B, name):
        from pvc.models import PairDict
        pairs = []
        for k, (ks, vs) in enumerate(self.items):
            pairs.append((ks.sym(B, '%s.key%d' % (name, k)), vs.sym(B, '%s.val%d' % (name, k))))
        return PairDict(pairs)

    def sample(self, rng, name, asg):
        for k, (ks, vs) in enumerate(self.items):
            ks.sample(rng, '%s.key%d' % (name, k), asg)
            vs.sample(rng, '%s.val%d' % (name, k), asg)

    def desc(self, name, asg):
        return {'k': 'dict', 'v': [[ks.desc('%s.key%d' % (name, k), asg)['v'], vs.desc('%s.val%d' % (name, k), asg)]
                                   for k, (ks, vs) in enumerate(self.items)]}

    def leaf_names(self, name):
        out = []
        for k, (ks, vs) in enumerate(self.items):
            out += ks.leaf_names('%s.key%d' % (name, k)) + vs.leaf_names('%s.val%d' % (name, k))
        return out


TREQ = ['nasa_specie.T_low >= 100', 'nasa_specie.T_low < 999.9', 'nasa_specie.T_high >= 1000', 'nasa_specie.T_high < 9999.9',
        'nasa_specie.T_mid >= 100', 'nasa_specie.T_mid < 999.9']
# ---- coefficient records 2-4: layout and round trip -------------------------------------------
for k, fields in ((2, ['a_high[%d]' % i for i in range(5)]),
                  (3, ['a_high[5]', 'a_high[6]', 'a_low[0]', 'a_low[1]', 'a_low[2]']),
                  (4, ['a_low[%d]' % i for i in range(3, 7)])):
    contract(TH + '_write_line%d' % k, P, args=dict(nasa_specie=species()),
             ensures=[('81-characters-with-newline', 'len(result) == 81 and result[80] == "\\n"'),
                      ('record-number-in-column-80', 'result[79] == "%d"' % k),
                      ('reads-back-as-record-%d' % k, 'pm.io.thermdat._read_line_num(result) == %d' % k),
                      ('not-a-temperature-header', 'not pm.io.thermdat._is_temperature_header(result)')] +
                     [('field-%d-reads-back-to-9-digits' % j,
                       'abs(float(result[%d:%d]) - nasa_specie.%s) <= 5e-9 * abs(nasa_specie.%s)' % (15 * j, 15 * j + 15, f, f))
                      for j, f in enumerate(fields)],
             cross_check=False)
# the reader assigns the fields of records 2-4 to the right coefficients
contract(TH + '_read_line4', P, label='after-2-and-3',
         args=dict(line=Const(' 1.00000000E+00 2.00000000E+00 3.00000000E+00 4.00000000E+00                   4\n'),
                   nasa_data=Const({'a_low': [9., 9., 9., 0., 0., 0., 0.], 'a_high': [0.] * 7})),
         ensures=["result['a_low'][3:] == [1, 2, 3, 4] and result['a_low'][:3] == [9, 9, 9]"], cross_check=False)

# ---- record 1: layout and round trip, per shape ---------------------------------------------------
SHAPES_Q = [(4, ((1, 1),)), (1, ((2, 2),)), (15, ((1, 1), (1, 2))), (8, ((2, 1), (1, 1), (2, 2))),
            (5, ((1, 3),)), (5, ((2, 3),)), (6, ((1, 1), (2, 2), (1, 3), (2, 1)))]
for name_len, els in SHAPES_Q:
    lab = 'name=%d,elements=%s' % (name_len, '+'.join('%dc%dd' % e for e in els))
    n_el = len(els)
    contract(TH + '_write_line1', P, label=lab, options=OPT,
             args=dict(nasa_specie=species(name_len, els), write_date=Const(False)),
             requires=TREQ + ['all(a != b for i, a in enumerate(nasa_specie.elements.keys()) '
                              'for j, b in enumerate(nasa_specie.elements.keys()) if i < j)'],
             ensures=[('81-characters-with-newline', 'len(result) == 81 and result[80] == "\\n"'),
                      ('record-number-in-column-80', 'result[79] == "1"'),
                      ('phase-in-column-45', 'result[44] == nasa_specie.phase'),
                      ('name-first', 'result[:%d] == nasa_specie.name' % name_len),
                      ('reads-back-name', "pm.io.thermdat._read_line1(result)['name'] == nasa_specie.name"),
                      ('reads-back-phase', "pm.io.thermdat._read_line1(result)['phase'] == nasa_specie.phase"),
                      ('reads-back-composition',
                       "spec.thermdat.same_composition(pm.io.thermdat._read_line1(result)['elements'], nasa_specie.elements)"),
                      ('reads-back-temperatures',
                       "abs(pm.io.thermdat._read_line1(result)['T_low'] - nasa_specie.T_low) <= 0.05 and "
                       "abs(pm.io.thermdat._read_line1(result)['T_high'] - nasa_specie.T_high) <= 0.05 and "
                       "abs(pm.io.thermdat._read_line1(result)['T_mid'] - nasa_specie.T_mid) <= 0.05"),
                      ('classified-as-record-1', 'pm.io.thermdat._read_line_num(result) == 1 and '
                                                 'not pm.io.thermdat._is_temperature_header(result)')],
             cross_check=False)

# record 1 with user notes in place of the date (only the first 8 characters fit before the composition field)
for notes in ('PBE-D3 400eV 2019 run 12', 'abcdefgh', 'x y'):
    for name_len, els in ((3, ((1, 1),)), (12, ((2, 2), (1, 1)))):
        contract(TH + '_write_line1', P, label='notes=%r,name=%d,elements=%s' % (notes, name_len, '+'.join('%dc%dd' % e for e in els)), options=OPT,
                 args=dict(nasa_specie=species(name_len, els, notes=notes), write_date=Const(False)),
                 requires=TREQ + ['all(a != b for i, a in enumerate(nasa_specie.elements.keys()) '
                                  'for j, b in enumerate(nasa_specie.elements.keys()) if i < j)'],
                 ensures=[('81-characters-with-newline', 'len(result) == 81 and result[80] == "\\n"'),
                          ('phase-in-column-45', 'result[44] == nasa_specie.phase'),
                          ('notes-start-in-column-17', 'result[16:16 + %d] == %r' % (min(len(notes), 8), notes[:8])),
                          ('reads-back-name', "pm.io.thermdat._read_line1(result)['name'] == nasa_specie.name"),
                          ('reads-back-composition',
                           "spec.thermdat.same_composition(pm.io.thermdat._read_line1(result)['elements'], nasa_specie.elements)"),
                          ('reads-back-temperatures',
                           "abs(pm.io.thermdat._read_line1(result)['T_low'] - nasa_specie.T_low) <= 0.05 and "
                           "abs(pm.io.thermdat._read_line1(result)['T_high'] - nasa_specie.T_high) <= 0.05 and "
                           "abs(pm.io.thermdat._read_line1(result)['T_mid'] - nasa_specie.T_mid) <= 0.05")],
                 cross_check=False)

# zero counts are not written: the elements listed after a zero entry keep their columns (first, middle and last position)
for zero_at, els in ((0, ((1, 1), (1, 1))), (1, ((1, 1), (2, 2), (1, 2))), (2, ((2, 1), (1, 1), (1, 1)))):
    el_specs = []
    for k, (sl, cd) in enumerate(els):
        el_specs.append((sym(sl), Const(0) if k == zero_at else count(cd)))
    sp_zero = Fields(NASA, name=nm(4), phase=Const('G'), elements=DictOfTokens(el_specs), notes=Const(None),
                     T_low=Real(100., 999.), T_high=Real(1000., 9999.), T_mid=Real(100., 999.), a_low=RealVec(7, -1e3, 1e3),
                     a_high=RealVec(7, -1e3, 1e3))
    contract(TH + '_write_line1', P, label='zero-count-at-%d,elements=%s' % (zero_at, '+'.join('%dc%dd' % e for e in els)), options=OPT,
             args=dict(nasa_specie=sp_zero, write_date=Const(False)),
             requires=TREQ + ['all(a != b for i, a in enumerate(nasa_specie.elements.keys()) '
                              'for j, b in enumerate(nasa_specie.elements.keys()) if i < j)'],
             ensures=[('81-characters-with-newline', 'len(result) == 81 and result[80] == "\\n"'),
                      ('phase-in-column-45', 'result[44] == nasa_specie.phase'),
                      ('reads-back-composition-without-the-zero-entry',
                       "spec.thermdat.same_composition(pm.io.thermdat._read_line1(result)['elements'], nasa_specie.elements)")],
             cross_check=False)
# supplementary records and comment text: each block ends with a line break of its own, alone and together
SUPP = ('H2O             20180216C   0O   1H   2N   0G      200.     1600.     600.     1\n'
        '   3.777500E+00   4.035551E-04   1.270792E-06  -5.322476E-10   4.346199E-14    2\n'
        '  -3.023592E+04   1.025161E+00   4.185821E+00  -1.877402E-03   5.812323E-06    3\n'
        '  -4.838293E-09   1.417686E-12  -3.020729E+04  -7.944847E-02                   4')
for d_nl in ('', '\n'):
    for t_nl in ('', '\n'):
        for which in ('data', 'txt', 'both'):
            kw = {}
            if which in ('data', 'both'):
                kw['supp_data'] = Const(SUPP + d_nl)
            if which in ('txt', 'both'):
                kw['supp_txt'] = Const('!comment one\n!comment two' + t_nl)
            if (which == 'data' and t_nl) or (which == 'txt' and d_nl):
                continue
            lines = ['THERMO ALL', '       100       500      1500'] + (SUPP.split('\n') if 'supp_data' in kw else []) + \
                (['!comment one', '!comment two'] if 'supp_txt' in kw else [])
            contract(TH + 'write_thermdat', P, label='supplement=%s,newline-after-data=%r,after-text=%r' % (which, d_nl, t_nl), options=OPT,
                     args=dict(nasa_species=ListOf([species(4, ((1, 1),), coeff_lo=0.)]), write_date=Const(False), **kw),
                     requires=[r.replace('nasa_specie', 'nasa_species[0]') for r in TREQ] +
                              ['all(v >= 0 for v in nasa_species[0].a_low) and all(v >= 0 for v in nasa_species[0].a_high)'],
                     ensures=[('header-and-supplements-on-lines-of-their-own', 'result.split("\\n")[:%d] == %r' % (len(lines), lines)),
                              ('then-the-species-records', 'result.split("\\n")[%d] == pm.io.thermdat._write_line1(nasa_species[0], False)[:-1] and '
                                                           'len(result.split("\\n")) == %d and result.split("\\n")[-1] == "END"' % (len(lines), len(lines) + 5))],
                     cross_check=False)

# ---- whole files: write_thermdat then read_thermdat ------------------------------------------------
def file_of(**kw):
    return WrittenFile(TH + 'write_thermdat', {'nasa_species': 'species'}, write_date=False, **kw)


def same_species(k):
    t = ("result[K].name == species[K].name and result[K].phase == species[K].phase and "
         "spec.thermdat.same_composition(result[K].elements, species[K].elements) and "
         "abs(result[K].T_low - species[K].T_low) <= 0.05 and abs(result[K].T_high - species[K].T_high) <= 0.05 and "
         "abs(result[K].T_mid - species[K].T_mid) <= 0.05 and "
         "all(abs(result[K].a_low[j] - species[K].a_low[j]) <= 5e-9 * abs(species[K].a_low[j]) for j in range(7)) and "
         "all(abs(result[K].a_high[j] - species[K].a_high[j]) <= 5e-9 * abs(species[K].a_high[j]) for j in range(7))")
    return t.replace('K', str(k))


FLAGS = ('THERMO', 'END')
for n_sp, name_lens in ((1, (6,)), (2, (3, 8))):
    for supp in (None, '!comment line\n'):
        sp_list = ListOf([species(L, ((1, 1), (2, 2)), flags=FLAGS, coeff_lo=0.) for L in name_lens])
        treq = [r.replace('nasa_specie', 'species[%d]' % k) for k in range(n_sp) for r in TREQ]
        distinct = ['list(species[%d].elements.keys())[0] != list(species[%d].elements.keys())[1]' % (k, k) for k in range(n_sp)]
        # sign columns: all 2^14 sign patterns of a record are covered by the
        # per-record contracts above; whole files are explored for
        # non-negative coefficients (one path per file instead of 16384)
        distinct += ['all(v >= 0 for v in species[%d].a_low) and all(v >= 0 for v in species[%d].a_high)' % (k, k)
                     for k in range(n_sp)]
        contract(TH + 'read_thermdat', P, label='roundtrip[%d species,supp_txt=%s]' % (n_sp, 'yes' if supp else 'no'),
                 options=OPT, ghost=dict(species=sp_list),
                 args=dict(filename=file_of(supp_txt=supp) if supp else file_of()),
                 requires=treq + distinct,
                 ensures=[('same-number-of-species-in-order', 'len(result) == %d' % n_sp)] +
                         [('species-%d-identical' % k, same_species(k)) for k in range(n_sp)],
                 cross_check=False)
contract(TH + 'read_thermdat', P, label='format=dict', options=OPT,
         ghost=dict(species=ListOf([species(4, ((1, 1),), flags=('THERMO', 'END'), coeff_lo=0.)])),
         args=dict(filename=file_of(), format=Const('dict')),
         requires=[r.replace('nasa_specie', 'species[0]') for r in TREQ] +
                  ['all(v >= 0 for v in species[0].a_low) and all(v >= 0 for v in species[0].a_high)'],
         ensures=['len(result) == 1 and result[species[0].name].name == species[0].name'], cross_check=False)
contract(TH + 'read_thermdat', P, label='format=tuple', options=OPT,
         ghost=dict(species=ListOf([species(4, ((1, 1),), flags=('THERMO', 'END'), coeff_lo=0.)])),
         args=dict(filename=file_of(), format=Const('tuple')),
         requires=[r.replace('nasa_specie', 'species[0]') for r in TREQ] +
                  ['all(v >= 0 for v in species[0].a_low) and all(v >= 0 for v in species[0].a_high)'],
         ensures=['len(result) == 1 and result[0].name == species[0].name'], cross_check=False)
contract(TH + 'read_thermdat', P, label='format=unknown', options=OPT,
         ghost=dict(species=ListOf([species(4, ((1, 1),), flags=('THERMO', 'END'), coeff_lo=0.)])),
         args=dict(filename=file_of(), format=Const('set')),
         requires=[r.replace('nasa_specie', 'species[0]') for r in TREQ] +
                  ['all(v >= 0 for v in species[0].a_low) and all(v >= 0 for v in species[0].a_high)'],
         raises={'ValueError': 'True'}, cross_check=False)

# ---- a species that went through its JSON form first (to_dict / from_dict, or the encoder and json_to_pmutt) is written the same --
def built(elements):
    return New(NASA, name=Const('C6H12'), phase=Const('G'), elements=DictOf({k: Const(v) for k, v in elements.items()}),
               T_low=Const(200.), T_high=Const(3500.), T_mid=Const(975.5),
               a_low=RealVec(7, -1e3, 1e3), a_high=RealVec(7, -1e3, 1e3))


for label, comp in (('C6H12', {'C': 6, 'H': 12}), ('C10H22', {'C': 10, 'H': 22}), ('PtO2', {'Pt': 1, 'O': 2})):
    lemma('species-reloaded-from-its-dictionary-is-written-identically[%s]' % label, P,
          forall=dict(s=built(comp)), given=[],
          prove=[('record-1-identical',
                  'pm.io.thermdat._write_line1(pm.empirical.nasa.Nasa.from_dict(s.to_dict()), write_date=False)'
                  ' == pm.io.thermdat._write_line1(s, write_date=False)'),
                 ('composition-identical-also-in-type',
                  'all(type(v) is int for v in pm.empirical.nasa.Nasa.from_dict(s.to_dict()).elements.values())'),
                 ('reads-back-composition',
                  "pm.io.thermdat._read_line1(pm.io.thermdat._write_line1(pm.empirical.nasa.Nasa.from_dict(s.to_dict()), write_date=False))"
                  "['elements'] == %r" % comp)])
