"""C06 - Chemkin mechanism files transcribe the model faithfully
(pmutt/io/chemkin.py writers, ChemkinReaction gas/surface partition,
read_reactions).

Species are abstract callees (their getters are unknown pure functions of the
conditions they receive; keywords that every pMuTT model swallows unread -
`units`, `activation` - are declared ignored); reactions, the reaction list
and catalyst sites are the REAL classes.  Numbers are symbolic; their printed
form is the uninterpreted text format(value, spec) (pvc/sstr.py:FmtText), so
"the number printed is the value the model gives at the requested
conditions" is an equality of the formatted VALUES.  Mechanism shapes
(species names, phases, integer stoichiometry, which reactions adsorb or have
a transition state) are enumerated."""
from pvc.dsl import *

P = 'C06'
LEVEL = 'other'
CK = 'pmutt.io.chemkin:'
RX = 'pmutt.reaction:'
TRUSTED = ['format(x, spec) of CPython prints the correctly rounded decimal of x (the text is treated as a function of (spec, x); '
           'its width is exact for E-formats of finite floats)',
           'model getters ignore the keywords `units` and `activation` that _write_reaction_lines leaves in **kwargs '
           '(true of every pMuTT species class, which swallow unknown keywords)',
           'str(datetime.now()) is a single line without "!"']
GET = ['get_q', 'get_HoRT', 'get_SoR', 'get_GoRT', 'get_EoRT', 'get_UoRT', 'get_FoRT', 'get_CpoR']
T = Real(300., 1500.)

SITE = Shared('site', Fields('pmutt.chemkin:CatSite', name=Const('PT_SURF'), site_density=Real(1e-10, 1e-8, log=True),
                             density=Real(1., 30.), bulk_specie=Const('PT(B)')))
SITE2 = Shared('site2', Fields('pmutt.chemkin:CatSite', name=Const('CU_TOP'), site_density=Real(1e-10, 1e-8, log=True),
                               density=Real(1., 30.), bulk_specie=Const('CU(B)')))


def sp(name, phase, elements, site=None, n_sites=None):
    return Shared('sp:' + name, Stub(name, GET, ignores=('units', 'activation'), phase=phase, elements=elements,
                                     cat_site=site, n_sites=n_sites))


SPECIES = {
    'H2': sp('H2', 'G', {'H': 2}), 'H': sp('H', 'G', {'H': 1}), 'O2': sp('O2', 'G', {'O': 2}), 'H2O': sp('H2O', 'G', {'H': 2, 'O': 1}),
    'H(S)': sp('H(S)', 'S', {'H': 1, 'PT': 1}, SITE, Const(1)), 'O(S)': sp('O(S)', 'S', {'O': 1, 'PT': 1}, SITE, Const(1)),
    'H2O(S)': sp('H2O(S)', 'S', {'H': 2, 'O': 1, 'PT': 2}, SITE, Const(2)),
    'PT(S)': sp('PT(S)', 'S', {'PT': 1}, SITE, Const(1)), 'PT(B)': sp('PT(B)', 'B', {'PT': 1}, SITE),
    'TS1': sp('TS1', 'S', {'H': 2, 'PT': 2}, SITE, Const(2)), 'TSG': sp('TSG', 'G', {'H': 2}),
    'H(CU)': sp('H(CU)', 'S', {'H': 1, 'CU': 1}, SITE2, Const(1)), 'CU(S)': sp('CU(S)', 'S', {'CU': 1}, SITE2, Const(1)),
    'CU(B)': sp('CU(B)', 'B', {'CU': 1}, SITE2),
}


def rxn(reactants, products, ts=None, ads=False):
    """reactants/products: [(name, nu)]"""
    kw = dict(reactants=ListOf([SPECIES[n] for n, _ in reactants]), reactants_stoich=ListOf([Const(float(nu)) for _, nu in reactants]),
              products=ListOf([SPECIES[n] for n, _ in products]), products_stoich=ListOf([Const(float(nu)) for _, nu in products]),
              beta=Real(0., 2.), is_adsorption=Const(ads))
    if ads:
        kw['sticking_coeff'] = Real(0., 1.)
    if ts:
        kw['transition_state'] = ListOf([SPECIES[n] for n, _ in ts])
        kw['transition_state_stoich'] = ListOf([Const(float(nu)) for _, nu in ts])
    return New(RX + 'ChemkinReaction', **kw)


R_ADS = lambda: rxn([('H2', 1), ('PT(S)', 2)], [('H(S)', 2), ('PT(B)', 2)], ads=True)
R_DES = lambda: rxn([('H(S)', 2), ('PT(B)', 2)], [('H2', 1), ('PT(S)', 2)], ts=[('TS1', 1)])
R_SURF = lambda: rxn([('H(S)', 2), ('O(S)', 1)], [('H2O(S)', 1), ('PT(S)', 1)])
R_GAS = lambda: rxn([('H2', 1)], [('H', 2)], ts=[('TSG', 1)])
R_GAS2 = lambda: rxn([('H2', 2), ('O2', 1)], [('H2O', 2)])
R_CU = lambda: rxn([('H2', 1), ('CU(S)', 2)], [('H(CU)', 2), ('CU(B)', 2)], ads=True)
MECH = {'ads+des': [R_ADS, R_DES], 'surf-noTS': [R_SURF], 'gas-TS': [R_GAS], 'ads+des+surf': [R_ADS, R_DES, R_SURF]}

# ---- reaction lines: A | sticking coefficient, beta, Ea ------------------------------------------------
ACT = {'get_G_act': ('get_H_act', 'units=act_unit, T=T'), 'get_H_act': ('get_H_act', 'units=act_unit, T=T'),
       'get_GoRT_act': ('get_HoRT_act', 'T=T'), 'get_HoRT_act': ('get_HoRT_act', 'T=T')}
for mech, rs in MECH.items():
    for act, (ads_act, call) in ACT.items():
        n = len(rs)
        ens = []
        for i in range(n):
            r = 'reactions[%d]' % i
            A = '(%s.sticking_coeff if %s.is_adsorption else %s.get_A(include_entropy=spec.chemkin.include_entropy(act_method_name),' \
                ' sden_operation=sden_operation, T=T))' % (r, r, r)
            Ea = '(%s.%s(%s) if %s.is_adsorption else %s.%s(%s))' % (r, ads_act, call, r, r, act, call)
            ens.append(('line-%d' % i,
                        'result[%d] == spec.chemkin.rate_line(spec.chemkin.equation(%s), '
                        'max(len(spec.chemkin.equation(q)) for q in reactions), %s, %s.beta, %s, %s.is_adsorption, '
                        'float_format, column_delimiter)' % (i, r, A, r, Ea, r)))
        contract(CK + '_write_reaction_lines', P, label='%s,%s' % (mech, act),
                 args=dict(reactions=ListOf([f() for f in rs]), species_delimiter=Const('+'), reaction_delimiter=Const('='),
                           include_TS=Const(False), stoich_format=Const('.0f'), act_method_name=Const(act),
                           ads_act_method=Const(ads_act), act_unit=Const('kcal/mol'), float_format=Const(' .3E'),
                           column_delimiter=Const('  '), sden_operation=Const('min'), T=T),
                 ghost=dict(site=SITE), requires=['T > 0', 'site.site_density > 0'],
                 ensures=[('one-line-per-reaction', 'len(result) == %d' % n)] + ens, cross_check=False)

# ---- gas.inp ------------------------------------------------------------------------------------------
GAS_ARGS = dict(species_delimiter=Const('+'), reaction_delimiter=Const('='), act_unit=Const('kcal/mol'), float_format=Const(' .3E'),
                stoich_format=Const('.0f'), column_delimiter=Const('  '))
FILES = {'gas-only': (['H2', 'H', 'TSG'], [R_GAS]),
         'mixed': (['H2', 'H', 'H(S)', 'PT(S)', 'PT(B)', 'TS1', 'TSG'], [R_ADS, R_GAS, R_DES]),
         'two-gas': (['H2', 'O2', 'H2O', 'H', 'TSG', 'H(S)', 'O(S)', 'H2O(S)', 'PT(S)'], [R_GAS2, R_SURF, R_GAS])}


def names(keys, pred):
    return [k for k in keys if pred(k)]


PHASE = {'H2': 'G', 'H': 'G', 'O2': 'G', 'H2O': 'G', 'TSG': 'G'}
ELEMS = {'H2': ['H'], 'H': ['H'], 'O2': ['O'], 'H2O': ['H', 'O'], 'H(S)': ['H', 'PT'], 'O(S)': ['O', 'PT'], 'H2O(S)': ['H', 'O', 'PT'],
         'PT(S)': ['PT'], 'PT(B)': ['PT'], 'TS1': ['H', 'PT'], 'TSG': ['H'], 'H(CU)': ['H', 'CU'], 'CU(S)': ['CU'], 'CU(B)': ['CU']}
for label, (keys, rs) in FILES.items():
    gas_names = [k for k in keys if PHASE.get(k) == 'G']
    elements = sorted({e for k in keys for e in ELEMS[k]})
    act = 'get_G_act'
    gas_idx = [i for i, f in enumerate(rs) if f in (R_GAS, R_GAS2)]
    lines = []
    for i in gas_idx:
        r = 'reactions.reactions[%d]' % i
        lines.append('spec.chemkin.rate_line(spec.chemkin.equation(%s), max(len(spec.chemkin.equation(reactions.reactions[j])) for j in %r), '
                     '%s.get_A(include_entropy=False, sden_operation=None, T=T), %s.beta, %s.get_G_act(units=act_unit, T=T), False, '
                     'float_format, column_delimiter)' % (r, gas_idx, r, r, r))
    contract(CK + 'write_gas', P, label=label,
             args=dict(nasa_species=ListOf([SPECIES[k] for k in keys]),
                       reactions=New(RX + 'Reactions', reactions=ListOf([f() for f in rs])),
                       T=T, act_method_name=Const(act), **GAS_ARGS),
             requires=['T > 0'],
             ensures=[('first-line-is-a-comment', 'result.split("\\n")[0].startswith("!")'),
                      ('sections-in-order',
                       '[l for l in spec.chemkin.body(result) if l in ("ELEMENTS", "SPECIES", "REACTIONS", "END")] == '
                       '["ELEMENTS", "END", "SPECIES", "END", "REACTIONS", "END"]'),
                      ('every-element-once', 'sorted(spec.chemkin.between(spec.chemkin.body(result), "ELEMENTS", "END")) == %r' % elements),
                      ('gas-species-once-in-order', 'spec.chemkin.between(spec.chemkin.body(result), "SPECIES", "END") == %r' % gas_names),
                      ('gas-reactions-once-with-model-values',
                       'spec.chemkin.between(spec.chemkin.body(result), "REACTIONS", "END") == [%s]' % ', '.join(lines)),
                      ('all-gaseous-reactions-only',
                       'all(spec.chemkin.all_gas(reactions.reactions[i]) == (i in %r) for i in range(%d))' % (gas_idx, len(rs)))],
             cross_check=False)

# ---- surf.inp -----------------------------------------------------------------------------------------
SURF = {'one-site': [R_ADS, R_DES], 'one-site+gas': [R_GAS, R_ADS, R_DES, R_SURF], 'two-sites': [R_ADS, R_CU, R_DES]}
for label, rs in SURF.items():
    for act, ads_act, unit_txt in (('get_G_act', 'get_H_act', 'KCAL/MOL'), ('get_GoRT_act', 'get_HoRT_act', '')):
        call = 'units=act_unit, T=T' if unit_txt else 'T=T'
        surf_idx = [i for i, f in enumerate(rs) if f not in (R_GAS, R_GAS2)]
        lines = []
        for i in surf_idx:
            r = 'reactions.reactions[%d]' % i
            A = '(%s.sticking_coeff if %s.is_adsorption else %s.get_A(include_entropy=False, sden_operation=sden_operation, T=T))' % (r, r, r)
            Ea = '(%s.%s(%s) if %s.is_adsorption else %s.%s(%s))' % (r, ads_act, call, r, r, act, call)
            lines.append('spec.chemkin.rate_line(spec.chemkin.equation(%s), max(len(spec.chemkin.equation(reactions.reactions[j])) for j in %r), '
                         '%s, %s.beta, %s, %s.is_adsorption, float_format, column_delimiter)' % (r, surf_idx, A, r, Ea, r))
        expected_rxn = 'sum([l.split("\\n") for l in [%s]], [])' % ', '.join(lines)
        for mw in (True, False):
            contract(CK + 'write_surf', P, label='%s,%s,MW%s' % (label, act, 'ON' if mw else 'OFF'),
                     args=dict(reactions=New(RX + 'Reactions', reactions=ListOf([f() for f in rs])), sden_operation=Const('min'), T=T,
                               act_method_name=Const(act), ads_act_method=Const(ads_act), use_mw_correction=Const(mw), **GAS_ARGS),
                     ghost=dict(site=SITE, site2=SITE2),
                     requires=['T > 0', 'site.site_density > 0', 'site2.site_density > 0', 'site.density > 0', 'site2.density > 0'],
                     ensures=[('first-line-is-a-comment', 'result.split("\\n")[0].startswith("!")'),
                              ('sites-adsorbates-bulk',
                               'spec.chemkin.body(result)[:spec.chemkin.body(result).index("END")] == '
                               'spec.chemkin.surface_section(reactions, column_delimiter)'),
                              ('reactions-header', 'spec.chemkin.body(result)[spec.chemkin.body(result).index("END") + 2] == '
                                                   '"REACTIONS  %s  %s"' % ('MWON ' if mw else 'MWOFF', unit_txt)),
                              ('surface-reactions-once-with-model-values',
                               'spec.chemkin.body(result)[spec.chemkin.body(result).index("END") + 3:-1] == ' + expected_rxn),
                              ('ends-with-END', 'spec.chemkin.body(result)[-1] == "END" and '
                                                'spec.chemkin.body(result)[spec.chemkin.body(result).index("END") + 1] == ""')],
                     cross_check=False)

# ---- EAs.inp / EAg.inp -----------------------------------------------------------------------------------
COND = lambda: DictOf({'T': Real(300., 1500.), 'P': Real(0.1, 20.)})
for label, rs in (('ads+des', [R_ADS, R_DES]), ('gas+surface', [R_GAS, R_ADS, R_SURF, R_GAS2])):
    for ncond in (1, 3):
        for gas in (False, True):
            idx = [i for i, f in enumerate(rs) if (f in (R_GAS, R_GAS2)) == gas]
            sel = '[reactions.reactions[i] for i in %r]' % idx
            contract(CK + 'write_EA', P, label='%s,%d-runs,%s' % (label, ncond, 'EAg' if gas else 'EAs'),
                     args=dict(reactions=New(RX + 'Reactions', reactions=ListOf([f() for f in rs])),
                               conditions=ListOf([COND() for _ in range(ncond)]), write_gas_phase=Const(gas),
                               act_method_name=Const('get_GoRT_act'), ads_act_method=Const('get_HoRT_act'), float_format=Const(' .2E'),
                               species_delimiter=Const('+'), reaction_delimiter=Const('<=>'), stoich_format=Const('.0f'),
                               column_delimiter=Const('  ')),
                     requires=['all(c["T"] > 0 for c in conditions)'],
                     ensures=[('declared-count-then-rows-then-EOF',
                               'spec.chemkin.body(result) == ["  %d  !Number of reactions"] + spec.chemkin.ea_rows(%s, conditions, '
                               'act_method_name, ads_act_method, float_format, column_delimiter, species_delimiter, reaction_delimiter) + ["EOF"]'
                               % (len(idx), sel)),
                              ('partition-by-phase',
                               'all(spec.chemkin.all_gas(reactions.reactions[i]) == (i in %r) for i in range(%d))'
                               % ([i for i, f in enumerate(rs) if f in (R_GAS, R_GAS2)], len(rs)))],
                     cross_check=False)

# ---- T_flow.inp --------------------------------------------------------------------------------------------
for n in (1, 2, 4):
    contract(CK + 'write_T_flow', P, label='%d-runs' % n,
             args=dict(T=RealList(n, 300., 1500.), P=RealList(n, 0.1, 20.), Q=RealList(n, 1., 100.), abyv=RealList(n, 10., 500.),
                       float_format=Const('.3E'), column_delimiter=Const('  ')),
             ensures=[('one-row-per-run-with-run-number',
                       'spec.chemkin.body(result) == spec.chemkin.t_flow_rows(T, P, Q, abyv, float_format, column_delimiter) + ["EOF"]')],
             cross_check=False)

# ---- tube_mole.inp -----------------------------------------------------------------------------------------
TM = {'2-runs': [{'H2': 1, 'PT(S)': 1}, {'H2': 1, 'O2': 1}], '1-run': [{'H(S)': 1, 'H2O': 1}],
      '3-runs': [{'H2': 1}, {'H2': 1, 'H(CU)': 1}, {'O2': 1, 'H2': 1}]}
TM_SPECIES = ['H2', 'H', 'O2', 'H2O', 'H(S)', 'PT(S)', 'H(CU)', 'PT(B)']
for label, conds in TM.items():
    named = [k for k in TM_SPECIES if any(k in c for c in conds)]
    contract(CK + 'write_tube_mole', P, label=label,
             args=dict(mole_frac_conditions=ListOf([DictOf({k: Real(0., 1.) for k in c}) for c in conds]),
                       nasa_species=ListOf([SPECIES[k] for k in TM_SPECIES]), float_format=Const(' .3f'), column_delimiter=Const('  ')),
             ensures=[('declared-count-rows-EOF',
                       'spec.chemkin.body(result) == ["0       itube_restart -- will be >0 if a restart file is used or 0 for the first run", '
                       '"%-3d    Number of nonzero species"] + spec.chemkin.tube_mole_rows(mole_frac_conditions, nasa_species, '
                       'float_format, column_delimiter) + ["EOF"]' % len(named)),
                      ('exactly-the-named-species', 'len(spec.chemkin.body(result)) == %d' % (len(named) + 3))],
             cross_check=False)

# ---- helpers ----------------------------------------------------------------------------------------------
for k in ('H2', 'H(S)', 'H(CU)', 'PT(B)'):
    contract(CK + '_get_specie_str', P, label=k, args=dict(specie=SPECIES[k], include_phase=Const(True)),
             ensures=['result == spec.chemkin.species_label(specie)'], cross_check=False)
contract(CK + '_get_specie_str', P, label='no-phase-no-site',
         args=dict(specie=Stub('X', GET, phase='S', elements={'H': 1}, cat_site=None), include_phase=Const(True)),
         raises={'ValueError': 'True'}, cross_check=False)
for n in (0, 1, 3):
    contract(CK + '_write_column_line', P, label='%d-runs' % n,
             args=dict(padding=Const(20), column_delimiter=Const('  '), float_format=Const(' .2E'), n_conditions=Const(n)),
             ensures=[('comment-with-run-numbers', 'result.split() == ["!"] + [str(i + 1) for i in range(%d)]' % n),
                      ('starts-at-the-padding', 'result[:20] == "!" + " " * 19')], cross_check=False)

# ---- gas/surface flag of a reaction ------------------------------------------------------------------------
for label, f in (('ads', R_ADS), ('des', R_DES), ('surf', R_SURF), ('gas', R_GAS), ('gas2', R_GAS2)):
    lemma('gas_phase-flag[%s]' % label, P, forall=dict(r=f()),
          prove=[('flag-is-all-reactants-gaseous', 'r.gas_phase == all(s.phase == "G" for s in r.reactants)'),
                 ('site-balanced-so-all-species-gaseous', 'r.gas_phase == spec.chemkin.all_gas(r)')])

# ---- the writers' default activation method on a reaction without a transition state (known finding D31) ------------
contract(CK + '_write_reaction_lines', P, label='surf-noTS,get_E_act(the-default)',
         args=dict(reactions=ListOf([R_SURF()]), species_delimiter=Const('+'), reaction_delimiter=Const('='),
                   include_TS=Const(False), stoich_format=Const('.0f'), act_method_name=Const('get_E_act'),
                   ads_act_method=Const('get_H_act'), act_unit=Const('kcal/mol'), float_format=Const(' .3E'),
                   column_delimiter=Const('  '), sden_operation=Const('min'), T=T),
         ghost=dict(site=SITE), requires=['T > 0', 'site.site_density > 0'],
         ensures=[('one-line-per-reaction', 'len(result) == 1')], cross_check=False)

# ---- enthalpy-type activation energies: the printed value is the clamped barrier of the species' enthalpies themselves -------
for mech, rs in (('ads+des', [R_ADS, R_DES]), ('surf-noTS', [R_SURF])):
    for act, scale in (('get_H_act', " * const.R('kcal/mol/K') * T"), ('get_HoRT_act', '')):
        ens = []
        for i in range(len(rs)):
            r = 'reactions[%d]' % i
            A = '(%s.sticking_coeff if %s.is_adsorption else %s.get_A(include_entropy=True, sden_operation=sden_operation, T=T))' % (r, r, r)
            ens.append(('line-%d' % i,
                        'result[%d] == spec.chemkin.rate_line(spec.chemkin.equation(%s), max(len(spec.chemkin.equation(q)) for q in reactions), '
                        '%s, %s.beta, spec.chemkin.enthalpy_barrier_oRT(%s, T)%s, %s.is_adsorption, float_format, column_delimiter)'
                        % (i, r, A, r, r, scale, r)))
        contract(CK + '_write_reaction_lines', P, label='%s,%s,barrier-from-species-enthalpies' % (mech, act),
                 args=dict(reactions=ListOf([f() for f in rs]), species_delimiter=Const('+'), reaction_delimiter=Const('='),
                           include_TS=Const(False), stoich_format=Const('.0f'), act_method_name=Const(act),
                           ads_act_method=Const(act), act_unit=Const('kcal/mol'), float_format=Const(' .3E'),
                           column_delimiter=Const('  '), sden_operation=Const('min'), T=T),
                 ghost=dict(site=SITE), requires=['T > 0', 'site.site_density > 0'], ensures=ens, cross_check=False)

# ---- shared helpers behind the pre-exponential factor / the condition routing --------------------------------------------
from contracts import helpers
helpers.install(P, 'numpy_op', 'kwargs')
